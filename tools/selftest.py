#!/venv/bin/python
"""Mutation self-test of the checks (DESIGN section 7).

Each mutant is a textual edit of a scratch copy of /repo's `stepup` package (outside /repo and
/verif, removed afterwards).  A property-breaking mutant must make `./check <id>` exit 1 with a
VIOLATION line; a harmless mutant must leave it at exit 0.

usage: tools/selftest.py [-jN] [ids...]      (default: every property that has mutants; N mutants at a time, default 6)
"""

from __future__ import annotations

import json
import os
import shutil
import subprocess
import sys
import tempfile

VERIF = os.path.dirname(os.path.dirname(os.path.abspath(__file__)))
REPO = "/repo"


def load_mutants():
    with open(os.path.join(VERIF, "tools", "mutants.json")) as fh:
        return json.load(fh)


def run_one(m, scratch):
    path = os.path.join(scratch, m["file"])
    with open(path) as fh:
        src = fh.read()
    if m["old"] not in src:
        return "STALE", f"pattern not found in {m['file']}"
    new = src.replace(m["old"], m["new"], 1)
    with open(path, "w") as fh:
        fh.write(new)
    try:
        env = dict(os.environ, VERIF_REPO=scratch, VERIF_OUT=os.path.join(scratch, "out"))
        r = subprocess.run([os.path.join(VERIF, "check"), m["property"], "--tier", "quick"], env=env,
                           capture_output=True, text=True, timeout=1800)
        out = r.stdout + r.stderr
        viol = f"VIOLATION property={m['property']}" in out
        if m.get("harmless"):
            ok = r.returncode == 0 and not viol
        else:
            ok = r.returncode == 1 and viol
        return ("OK" if ok else "MISSED" if not m.get("harmless") else "FALSE-ALARM"), \
            f"exit={r.returncode} " + " | ".join(l for l in out.splitlines() if l.startswith(("FAILED", "CHECKER")))[:300]
    finally:
        with open(path, "w") as fh:
            fh.write(src)


def main():
    import concurrent.futures

    argv = sys.argv[1:]
    workers = 6
    if argv and argv[0].startswith("-j"):
        workers = int(argv[0][2:])
        argv = argv[1:]
    want = set(argv)
    mutants = [m for m in load_mutants() if not want or m["property"] in want or m["name"] in want]
    bad = 0

    def one(m):
        # each mutant on its own scratch copy (outside /repo and /verif, removed afterwards)
        scratch = tempfile.mkdtemp(prefix="pyvc-selftest-")
        try:
            shutil.copytree(os.path.join(REPO, "stepup"), os.path.join(scratch, "stepup"))
            return m, run_one(m, scratch)
        finally:
            shutil.rmtree(scratch, ignore_errors=True)

    with concurrent.futures.ThreadPoolExecutor(max_workers=workers if len(mutants) > 1 else 1) as ex:
        for m, (status, detail) in ex.map(one, mutants):
            print(f"{status:11s} {m['property']} {m['name']}: {detail}", flush=True)
            if status != "OK":
                bad += 1
    print(f"{len(mutants) - bad}/{len(mutants)} mutants behaved as expected")
    return 1 if bad else 0


if __name__ == "__main__":
    sys.exit(main())
