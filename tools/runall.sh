#!/bin/sh
# Run every claimed check (quick tier by default) against /repo and refresh the evidence files.
cd "$(dirname "$0")/.." || exit 3
tier="${1:-quick}"
rc=0
for id in $(/venv/bin/python -c "import json; print(' '.join(c['property_id'] for c in json.load(open('MANIFEST.json'))['checks']))"); do
  out=$(./check "$id" --tier "$tier" 2>&1); e=$?
  echo "$out" | tail -1
  [ $e -ne 0 ] && { rc=1; echo "$out" | grep -E "^(VIOLATION|CHECKER)" | head -3; }
done
/venv/bin/python tools/mkmanifest.py > /dev/null
python3-vt - <<'PY'
import json, jsonschema, glob
sch = json.load(open('/root/.vp/EVIDENCE.schema.json'))
for f in sorted(glob.glob('/verif/evidence/*.json')):
    ev = json.load(open(f)); jsonschema.validate(ev, sch)
    c = ev['coverage']
    assert c['obligations'] == c['discharged'], (f, c['obligations'], c['discharged'])
m = json.load(open('/verif/MANIFEST.json')); jsonschema.validate(m, json.load(open('/root/.vp/MANIFEST.schema.json')))
print("evidence and manifest valid")
PY
[ $rc -ne 0 ] && echo "RUNALL: SOME CHECK FAILED -- do not commit"
exit $rc
