#!/bin/sh
# usage: tools/reseed.sh [seed ids...]
# Regression over the seeded changes: applies seeded/<id>/patch.diff to a scratch copy of /repo's stepup package
# (outside /repo and /verif, removed afterwards) and runs the quick check of its property; every seed must make the
# check exit 1.  Seeds run four at a time.
verif="$(cd "$(dirname "$0")/.." && pwd)"
cd "$verif" || exit 3
ids="$*"; [ -n "$ids" ] || ids=$(ls seeded)
run() {
  id=$1
  prop=$(python3 -c "import json,sys; print(json.load(open('seeded/$id/meta.json'))['property'])" 2>/dev/null) || { echo "$id: no meta.json"; return; }
  d=$(mktemp -d /tmp/pyvc-seed.$id.XXXX)
  cp -r /repo/stepup $d/stepup
  if ! (cd $d && patch -s -p1 < "$verif/seeded/$id/patch.diff" >/dev/null 2>&1); then echo "$id STALE (patch does not apply any more)"; rm -rf $d; return; fi
  VERIF_REPO=$d VERIF_OUT=$d/out ./check $prop --tier quick > $d/out.txt 2>&1; rc=$?
  if [ $rc -eq 1 ]; then echo "$id detected ($prop): $(grep -m1 '^FAILED' $d/out.txt | cut -c1-120)"; else echo "$id MISSED ($prop) exit=$rc"; fi
  rm -rf $d
}
n=0
for id in $ids; do run $id & n=$((n+1)); [ $((n % 4)) -eq 0 ] && wait; done
wait
