#!/venv/bin/python
"""Write specs/function_shapes.json: a name-independent hash of every function under a (verified or assumed) contract
and of every module-level SQL constant of stepup/core, taken from /repo's working tree.  Run it when contracts are
written against a new baseline of /repo (never as part of a check)."""

import ast
import glob
import json
import os
import sys

VERIF = os.path.dirname(os.path.dirname(os.path.abspath(__file__)))
sys.path.insert(0, VERIF)
os.environ.setdefault("PYTHONDONTWRITEBYTECODE", "1")
from contracts import props  # noqa: E402,F401
from vc import engine, extract  # noqa: E402

out = dict(functions={}, constants={})
for key, con in sorted(engine.REGISTRY.items()):
    try:
        _, node = extract.find_def(con.relpath, con.name)
    except extract.ExtractError:
        continue
    if isinstance(node, (ast.FunctionDef, ast.AsyncFunctionDef)):
        out["functions"][key] = extract.shape_of(node)
for path in sorted(glob.glob(os.path.join(extract.REPO, "stepup", "core", "*.py"))):
    rel = os.path.relpath(path, extract.REPO)
    try:
        mod = extract.import_module(rel)
    except Exception:  # noqa: BLE001
        continue
    for k, v in vars(mod).items():
        if isinstance(v, str) and k.isupper() and len(v) > 40 and getattr(mod, "__name__", "").startswith("stepup."):
            out["constants"][f"{rel}::{k}"] = extract.const_shape(v)
json.dump(out, open(os.path.join(VERIF, "specs", "function_shapes.json"), "w"), indent=1, sort_keys=True)
print(len(out["functions"]), "functions,", len(out["constants"]), "constants")
