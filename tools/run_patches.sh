#!/bin/sh
# usage: tools/run_patches.sh <patch files>
# Applies each patch to its own scratch copy of /repo's stepup package (outside /repo and /verif, removed afterwards)
# and runs every quick check against it; prints one line per check that does not exit 0.  Used with the
# behaviour-preserving refactorings in harmless/ (none may raise an alarm) -- all patches run at the same time, which
# also exercises the checks on a busy machine.  SKIP_BOUNDED=1 leaves the bounded stand-ins out (deductive part only).
verif="$(cd "$(dirname "$0")/.." && pwd)"
outdir=$(mktemp -d /tmp/pyvc-patches.XXXX)
one() {
  p=$1; n=$(basename $p .diff)
  d=$(mktemp -d /tmp/pyvc-hl.$n.XXXX)
  cp -r /repo/stepup $d/stepup
  (cd $d && patch -s -p1 < $p) || { echo "$n: does not apply"; rm -rf $d; return; }
  for id in C02 C03 C04 C05 C06 C07 C08 C09 C10 C11 C12 C13 C15 C16 C17 C18 C19 C20; do
    (cd $verif && VERIF_REPO=$d VERIF_OUT=$d/out VERIF_SKIP_BOUNDED="${SKIP_BOUNDED:-}" ./check $id --tier quick > $outdir/$n.$id.txt 2>&1)
    rc=$?
    [ $rc -ne 0 ] && echo "$n $id exit=$rc $(grep -m3 '^FAILED\|^CHECKER' $outdir/$n.$id.txt | tr '\n' '|' | cut -c1-300)"
  done
  rm -rf $d
  echo "$n done"
}
for p in "$@"; do one $(realpath $p) & done
wait
rm -rf $outdir
