#!/bin/sh
# usage: tools/seed_verify.sh <worktree> <property> <demo file> <seed id>
# Confirms a seeded change (tests pass with it, demo fails with it and passes without), runs the check of the
# property against it on /repo (apply, check, revert) and stores patch + demo under /verif/seeded/<seed id>/.
set -u
wt="$1"; prop="$2"; demo="$3"; sid="$4"
verif="$(cd "$(dirname "$0")/.." && pwd)"
out="$verif/seeded/$sid"
mkdir -p "$out"
cd "$wt" || exit 2
git diff -- stepup > "$out/patch.diff"
[ -s "$out/patch.diff" ] || { echo "empty patch"; exit 2; }
cp "$demo" "$out/" 
echo "== fast tests with the change"
PYTHONPATH="$wt" timeout 900 /venv/bin/python -m pytest -q -p no:cacheprovider -x -k "not test_example" tests 2>&1 | tail -1 | tee "$out/tests_with_change.txt"
echo "== demo with the change (expect exit 1)"
PYTHONPATH="$wt" /venv/bin/python "$demo" > "$out/demo_with_change.txt" 2>&1; d1=$?; tail -3 "$out/demo_with_change.txt"; echo "exit=$d1"
# (not git stash: the stash is shared by all worktrees of a repository, and seeding agents work in parallel)
git checkout -q -- stepup
echo "== demo without the change (expect exit 0)"
PYTHONPATH="$wt" /venv/bin/python "$demo" > "$out/demo_without_change.txt" 2>&1; d0=$?; tail -2 "$out/demo_without_change.txt"; echo "exit=$d0"
git apply "$out/patch.diff"
echo "== check $prop against the change applied to /repo"
git -C /repo apply "$out/patch.diff" || { echo "patch does not apply to /repo"; exit 2; }
# (evidence and replay files of this run go to a scratch directory: the committed evidence describes the unchanged tree)
scratch=$(mktemp -d /tmp/pyvc-seedout.XXXX)
(cd "$verif" && VERIF_OUT="$scratch" ./check "$prop" --tier quick > "$out/check_output.txt" 2>&1; echo "check exit=$?" | tee -a "$out/check_output.txt")
rm -rf "$scratch"
git -C /repo checkout -- .
grep -c "^VIOLATION" "$out/check_output.txt" | sed 's/^/violation lines: /'
grep "^FAILED-OBLIGATION" "$out/check_output.txt" | head -5
(cd "$verif" && ./check "$prop" --tier quick | tail -1)
echo "demo_with=$d1 demo_without=$d0"
