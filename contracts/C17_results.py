"""C17: the match-set algebra of NamedGlob (extend / reduce / will_change) against an abstract recorded set.

`NamedGlob._results` is a dict from the tuple of named-wildcard substrings to the set of paths recorded under it.
Its abstract view is the *recorded set*

    rec(p)  :=  the pattern's regular expression accepts p  and  p in _results[vals(p)]

where vals(p) is the tuple `_match_values(p)` returns.  The representation invariant RI says that the dict holds
nothing else: (a) only present keys have members, (b) no present key has an empty set, (c) every member p of the
set at key k is accepted and vals(p) = k.  Under RI, rec(p) iff p occurs in some set, which is what files() and
matches() enumerate.

Contracts (for every recorded set, every list of paths, every regular expression -- `re` is uninterpreted):

    extend(paths)             RI is kept,  rec' = rec  union  {p in paths : accepted(p)}
    reduce(paths)             RI is kept,  rec' = rec  minus  paths
    will_change(del, add)     the original is untouched; the evolved copy records (rec union accepted(add)) minus del;
                              None is returned iff that is the recorded set of the original

so an incremental update records what a scan of the changed tree records whenever the caller's `deleted` / `added`
are the differences of the two trees (that premise -- the watcher -- and glob() itself are outside this module:
bounded stand-in C17/bounded/compilers_and_filesystem, check E).

Model of the dict: two SMT arrays, has: Vals -> Bool and mem: Vals -> (String -> Bool); `Vals` is an uninterpreted
sort for the tuples.  dict / set operations used by the code (setdefault, get, del, pop, add, discard, len, ==) are
array updates; dict equality is array equality, which under RI(a) is Python's (equal key sets, equal sets)."""

from __future__ import annotations

from contracts.C08_claims import fullmatch_t
from vc import extract, sym
from vc import terms as tm
from vc import types as ty
from vc.engine import LoopSpec, contract
from vc.sym import B, S, cur, wrap_bool, wrap_int
from vc.terms import BOOL, INT, STR

nglobmod = extract.import_module("stepup/core/nglob.py")
NamedGlob = nglobmod.NamedGlob

VALS = "Vals"
INNER = tm.arr(STR, BOOL)
HAS, MEM = tm.arr(VALS, BOOL), tm.arr(VALS, INNER)
EMPTY = tm.ConstArray(INNER, tm.FALSE)


def _sorts():
    cur().decls.sort(VALS)


class _Key:
    """The tuple of substrings `_match_values` returns for an accepted path."""

    def __init__(self, t):
        self.t = t


class _PathSet:
    """The set stored under one key, as a view of the dict (the code mutates it in place)."""

    def __init__(self, results, key):
        self.r, self.k = results, key

    def _row(self):
        return tm.Select(self.r.mem, self.k, INNER)

    def add(self, p):
        self.r.mem = tm.Store(self.r.mem, self.k, tm.Store(self._row(), S(p), tm.TRUE))
        self.r.touch()

    def discard(self, p):
        self.r.mem = tm.Store(self.r.mem, self.k, tm.Store(self._row(), S(p), tm.FALSE))
        self.r.touch()

    remove = None  # not used by the code; a KeyError semantics would have to be modelled

    def __symlen__(self):
        c = cur()
        n = c.fresh(c.fresh_name("len.pathset"), INT)
        w = c.fresh(c.fresh_name("len.pathset.witness"), STR)
        v = tm.Var(c.fresh_name("p!bound"), STR)
        row = self._row()
        c.pc.append(tm.Ge(n, tm.mk_int(0)))
        c.pc.append(tm.Implies(tm.Eq(n, tm.mk_int(0)), tm.ForAll([(v.s, STR)], tm.Not(tm.Select(row, v, BOOL)))))
        c.pc.append(tm.Implies(tm.Gt(n, tm.mk_int(0)), tm.Select(row, w, BOOL)))
        return wrap_int(n)

    def __len__(self):
        raise sym.Unsupported("len() of a path set outside the runtime")

    def __symtruth__(self):
        return B(self.__symlen__() > 0)

    def __bool__(self):
        return cur().fork(self.__symtruth__())


class _Results:
    """dict[tuple[str, ...], set[Path]] as two arrays."""

    def __init__(self, name=None, has=None, mem=None):
        _sorts()
        c = cur()
        self.has = has if has is not None else c.fresh(name + ".has", HAS)
        self.mem = mem if mem is not None else c.fresh(name + ".mem", MEM)

    def touch(self):
        cur().writes.append((self, "_results"))

    def _key(self, key):
        if not isinstance(key, _Key):
            raise sym.Unsupported(f"key of _results: {key!r}")
        return key.t

    def setdefault(self, key, default):
        k = self._key(key)
        if not (isinstance(default, (set, frozenset)) and not default):
            raise sym.Unsupported("setdefault with a default other than an empty set")
        if not cur().fork(tm.Select(self.has, k, BOOL)):
            self.has = tm.Store(self.has, k, tm.TRUE)
            self.mem = tm.Store(self.mem, k, EMPTY)
            self.touch()
        return _PathSet(self, k)

    def get(self, key, default=None):
        k = self._key(key)
        if cur().fork(tm.Select(self.has, k, BOOL)):
            return _PathSet(self, k)
        return default

    def __contains__(self, key):
        return wrap_bool(tm.Select(self.has, self._key(key), BOOL))

    def __getitem__(self, key):
        k = self._key(key)
        if cur().fork(tm.Select(self.has, k, BOOL)):
            return _PathSet(self, k)
        raise KeyError(key)

    def __delitem__(self, key):
        k = self._key(key)
        if not cur().fork(tm.Select(self.has, k, BOOL)):
            raise KeyError(key)
        self.has = tm.Store(self.has, k, tm.FALSE)
        self.mem = tm.Store(self.mem, k, EMPTY)
        self.touch()

    def pop(self, key, *default):
        k = self._key(key)
        if cur().fork(tm.Select(self.has, k, BOOL)):
            gone = _Results(has=self.has, mem=self.mem)  # the removed set, as it was
            self.has = tm.Store(self.has, k, tm.FALSE)
            self.mem = tm.Store(self.mem, k, EMPTY)
            self.touch()
            return _PathSet(gone, k)
        if default:
            return default[0]
        raise KeyError(key)

    def __eq__(self, other):
        if not isinstance(other, _Results):
            return False
        return wrap_bool(tm.And(tm.Eq(self.has, other.has), tm.Eq(self.mem, other.mem)))

    def __ne__(self, other):
        r = self.__eq__(other)
        return (not r) if isinstance(r, bool) else ~r

    __hash__ = None

    def __snapshot__(self):
        return _Results(has=self.has, mem=self.mem)

    def __havoc__(self, label):
        c = cur()
        self.has = c.fresh(c.fresh_name(label + ".has"), HAS)
        self.mem = c.fresh(c.fresh_name(label + ".mem"), MEM)


# ------------------------------------------------------------------------------------------------ the abstract view


def vals_t(ng, p: tm.T) -> tm.T:
    _sorts()
    return cur().decls.fun("nglob.vals", [STR, STR], VALS)(S(ng._fields["regex"]), p)


def accepted_t(ng, p: tm.T) -> tm.T:
    return fullmatch_t(ng._fields["regex"], p)


def rec_t(ng, res: _Results, p: tm.T) -> tm.T:
    """p is recorded."""
    return tm.And(accepted_t(ng, p), tm.Select(tm.Select(res.mem, vals_t(ng, p), INNER), p, BOOL))


def RI(ng, res: _Results, assume: bool) -> tm.T:
    """The representation invariant.  As an assumption the witness of (b) is a Skolem function of (dict, key)."""
    c = cur()
    k = tm.Var(c.fresh_name("k!bound"), VALS)
    p = tm.Var(c.fresh_name("p!bound"), STR)
    member = tm.Select(tm.Select(res.mem, k, INNER), p, BOOL)
    a = tm.ForAll([(k.s, VALS), (p.s, STR)], tm.Implies(member, tm.Select(res.has, k, BOOL)))
    cc = tm.ForAll([(k.s, VALS), (p.s, STR)], tm.Implies(member, tm.And(accepted_t(ng, p), tm.Eq(vals_t(ng, p), k))))
    if assume:
        wit = c.decls.fun("nglob.some_member", [HAS, MEM, VALS], STR)(res.has, res.mem, k)
        b = tm.ForAll([(k.s, VALS)], tm.Implies(tm.Select(res.has, k, BOOL),
                                                tm.Select(tm.Select(res.mem, k, INNER), wit, BOOL)))
    else:
        q = tm.Var(c.fresh_name("q!bound"), STR)
        b = tm.ForAll([(k.s, VALS)], tm.Implies(tm.Select(res.has, k, BOOL),
                                                tm.Exists([(q.s, STR)], tm.Select(tm.Select(res.mem, k, INNER), q, BOOL))))
    return tm.And(a, b, cc)


def in_prefix(seq, i: tm.T, p: tm.T) -> tm.T:
    """p is among the first i elements of the sequence."""
    c = cur()
    j = tm.Var(c.fresh_name("j!bound"), INT)
    return tm.Exists([(j.s, INT)], tm.And(tm.Le(tm.mk_int(0), j), tm.Lt(j, i), tm.Eq(S(seq.elem(j)), p)))


def member_t(seq, p: tm.T) -> tm.T:
    if isinstance(seq, (list, tuple)):
        return tm.Or(*[tm.Eq(S(x), p) for x in seq])
    return in_prefix(seq, seq.length, p)


def _ng_self(name="self"):
    _sorts()
    return sym.SymObj(NamedGlob, dict(_results=_Results(name + "._results"), regex=ty.Str.fresh(name + ".regex"),
                                      _pattern=ty.Str.fresh(name + "._pattern")), name="NamedGlob")


def _res(ng) -> _Results:
    return ng._fields["_results"]


# ------------------------------------------------------------------------------------------------ _match_values


def _match_values_impl(self, path):
    if cur().fork(accepted_t(self, S(path))):
        return _Key(vals_t(self, S(path)))
    return None


@contract("stepup/core/nglob.py::NamedGlob._match_values", props=[], verify=False,
          note="None iff the pattern's regular expression does not accept the path (re.fullmatch), else the tuple of "
               "the substrings of the named groups, a function of (regular expression, path)")
class match_values:
    impl = _match_values_impl


# ------------------------------------------------------------------------------------------------ extend / reduce


def _quant(fn):
    """forall p. fn(p)"""
    c = cur()
    p = tm.Var(c.fresh_name("p!bound"), STR)
    return tm.ForAll([(p.s, STR)], fn(p))


def _extend_inv(e):
    ng, r0 = e.self, _res(e.pre.self)
    r = _res(ng)
    i = sym.I(e.i)
    return wrap_bool(tm.And(RI(ng, r, assume=False),
                            _quant(lambda p: tm.Iff(rec_t(ng, r, p),
                                                    tm.Or(rec_t(ng, r0, p), tm.And(accepted_t(ng, p), in_prefix(e.seq, i, p)))))))


def _extend_inv_assume(e):
    return _extend_inv(e)


def _extend_post(self, paths, old):
    r0, r = _res(old.self), _res(self)
    return wrap_bool(tm.And(RI(self, r, assume=_using()),
                            _quant(lambda p: tm.Iff(rec_t(self, r, p),
                                                    tm.Or(rec_t(self, r0, p), tm.And(accepted_t(self, p), member_t(paths, p)))))))


def _reduce_inv(e):
    ng, r0 = e.self, _res(e.pre.self)
    r = _res(ng)
    i = sym.I(e.i)
    return wrap_bool(tm.And(RI(ng, r, assume=False),
                            _quant(lambda p: tm.Iff(rec_t(ng, r, p), tm.And(rec_t(ng, r0, p), tm.Not(in_prefix(e.seq, i, p)))))))


def _reduce_post(self, paths, old):
    r0, r = _res(old.self), _res(self)
    return wrap_bool(tm.And(RI(self, r, assume=_using()),
                            _quant(lambda p: tm.Iff(rec_t(self, r, p), tm.And(rec_t(self, r0, p), tm.Not(member_t(paths, p)))))))


def _using() -> bool:
    """True while the clause is evaluated as a callee contract (it is then an assumption of the caller)."""
    act = cur().data.get("active")
    return act not in ("stepup/core/nglob.py::NamedGlob.extend", "stepup/core/nglob.py::NamedGlob.reduce")


def _ri_pre(self):
    return wrap_bool(RI(self, _res(self), assume=cur().data.get("active") in
                        ("stepup/core/nglob.py::NamedGlob.extend", "stepup/core/nglob.py::NamedGlob.reduce")))


_PATHS = ty.SeqOf(ty.Str)


@contract("stepup/core/nglob.py::NamedGlob.extend", props=["C17", "C04"])
class ng_extend:
    """Afterwards exactly the previously recorded paths and the accepted ones among `paths` are recorded."""

    args = dict(self=lambda a: _ng_self(), paths=_PATHS)
    env = dict(Path=lambda x: x)
    requires = _ri_pre
    ensures = _extend_post
    loops = {0: LoopSpec(invariant=_extend_inv, modifies={"self": ["_results"]}, havoc=("self",))}
    modifies = ["self._results"]


@contract("stepup/core/nglob.py::NamedGlob.reduce", props=["C17", "C04"])
class ng_reduce:
    """Afterwards exactly the previously recorded paths that are not among `paths` are recorded."""

    args = dict(self=lambda a: _ng_self(), paths=_PATHS)
    env = dict(Path=lambda x: x)
    requires = _ri_pre
    ensures = _reduce_post
    loops = {0: LoopSpec(invariant=_reduce_inv, modifies={"self": ["_results"]}, havoc=("self",))}
    modifies = ["self._results"]


# ------------------------------------------------------------------------------------------------ will_change


class _Copy:
    """copy.deepcopy of a NamedGlob: an independent object with the same contents."""

    @staticmethod
    def deepcopy(x):
        if not (isinstance(x, sym.SymObj) and x._cls is NamedGlob):
            raise sym.Unsupported("deepcopy of something other than a NamedGlob")
        f = dict(x._fields)
        f["_results"] = f["_results"].__snapshot__()
        o = sym.SymObj(NamedGlob, f, name="NamedGlob.copy")
        sym.mark_born(o)
        return o


def _evolved_rec(self, r0, deleted, added, p):
    return tm.And(tm.Or(rec_t(self, r0, p), tm.And(accepted_t(self, p), member_t(added, p))), tm.Not(member_t(deleted, p)))


def _wc_post(self, deleted, added, result, old):
    r0 = _res(old.self)
    untouched = tm.And(tm.Eq(_res(self).has, r0.has), tm.Eq(_res(self).mem, r0.mem))
    result = sym.resolve(result)
    if result is None:
        same = _quant(lambda p: tm.Iff(_evolved_rec(self, r0, deleted, added, p), rec_t(self, r0, p)))
        return wrap_bool(tm.And(untouched, same))
    re_ = _res(result)
    differs = tm.Not(_quant(lambda p: tm.Iff(rec_t(self, re_, p), rec_t(self, r0, p))))
    is_evolved = _quant(lambda p: tm.Iff(rec_t(self, re_, p), _evolved_rec(self, r0, deleted, added, p)))
    return wrap_bool(tm.And(untouched, tm.mk_bool(result is not self), RI(self, re_, assume=False), is_evolved, differs))


@contract("stepup/core/nglob.py::NamedGlob.will_change", props=["C17", "C04"])
class ng_will_change:
    """The evolved copy records (recorded union accepted added) minus deleted; None iff that changes nothing."""

    args = dict(self=lambda a: _ng_self(), deleted=_PATHS, added=_PATHS)
    env = dict(copy=_Copy)
    requires = lambda self: wrap_bool(RI(self, _res(self), assume=cur().data.get("active") == "stepup/core/nglob.py::NamedGlob.will_change"))
    ensures = _wc_post
    modifies = []


# ------------------------------------------------------------------------------------------------ glob


def _fs(name, p: tm.T) -> tm.T:
    """The file system during the call: is_dir / lexists as functions of the path (assumed: it does not change
    while the scan runs)."""
    return cur().decls.fun("fs." + name, [STR], BOOL)(p)


def _dirform(p: tm.T) -> tm.T:
    """Path(p) / "": the path with a trailing separator (posixpath.join with an empty component)."""
    return cur().decls.fun("fs.dirform", [STR], STR)(p)


class _FsPath(sym.SymStr):
    """path.Path as glob() uses it."""

    __slots__ = ()

    def is_dir(self):
        return wrap_bool(_fs("is_dir", self.t))

    def __truediv__(self, other):
        if not (isinstance(other, str) and other == ""):
            raise sym.Unsupported("Path / x for x other than the empty string")
        return _FsPath(_dirform(self.t))


def _fs_path(x):
    x = sym.resolve(x)
    if isinstance(x, _FsPath):
        return x
    if isinstance(x, (sym.SymStr, str)):
        return _FsPath(S(x))
    raise sym.Unsupported(f"Path() of {x!r}")


class _OsPath:
    @staticmethod
    def lexists(p):
        return wrap_bool(_fs("lexists", S(p)))


class _Os:
    path = _OsPath


def _found(self):
    """What glob.iglob yields for the pattern's standard glob: a sequence that is a function of the pattern (and
    of the file system)."""
    c = cur()
    q = ty.SeqOf(ty.Str).fresh("iglob")
    c.data["iglob"] = q
    return q


class _Glob:
    @staticmethod
    def iglob(pattern, *, recursive=False, include_hidden=False, root_dir=None, dir_fd=None):
        if recursive is not True or include_hidden is not True or root_dir is not None or dir_fd is not None:
            raise sym.Unsupported("iglob without recursive=True, include_hidden=True")
        c = cur()
        ng = c.data["args"]["self"]
        if pattern is not ng._fields["_glob_pattern"]:
            raise sym.Unsupported("iglob of something other than the pattern's own standard glob")
        q = c.data.get("iglob")
        if q is None:
            q = _found(ng)
        c.event("iglob", pattern=pattern)
        return q


def _kept(g: tm.T, p: tm.T) -> tm.T:
    """The scan keeps the iglob result g as p: a directory with its separator, anything else only if it exists."""
    d = _fs("is_dir", g)
    return tm.Or(tm.And(d, tm.Eq(p, _dirform(g))), tm.And(tm.Not(d), _fs("lexists", g), tm.Eq(p, g)))


def _from_scan(q, upto: tm.T, p: tm.T) -> tm.T:
    c = cur()
    j = tm.Var(c.fresh_name("j!bound"), INT)
    return tm.Exists([(j.s, INT)], tm.And(tm.Le(tm.mk_int(0), j), tm.Lt(j, upto), _kept(S(q.elem(j)), p)))


def _form(g: tm.T) -> tm.T:
    return tm.Ite(_fs("is_dir", g), _dirform(g), g)


def _ok(g: tm.T) -> tm.T:
    return tm.Or(_fs("is_dir", g), _fs("lexists", g))


def _glob_inv(e):
    """(1) every collected path is the kept form of an iglob result visited so far; (2) every visited iglob result
    that is kept has its form among the collected paths."""
    c = cur()
    i = sym.I(e.i)
    paths = e.acc  # the list the loop collects into, whatever it is called
    if not isinstance(paths, sym.SymSeq):
        return True  # loop entry: nothing visited, nothing collected
    m, j = tm.Var(c.fresh_name("m!bound"), INT), tm.Var(c.fresh_name("j!bound"), INT)
    m2, j2 = tm.Var(c.fresh_name("m!bound"), INT), tm.Var(c.fresh_name("j!bound"), INT)
    one = tm.ForAll([(m.s, INT)], tm.Implies(
        tm.And(tm.Le(tm.mk_int(0), m), tm.Lt(m, paths.length)),
        tm.Exists([(j.s, INT)], tm.And(tm.Le(tm.mk_int(0), j), tm.Lt(j, i), _kept(S(e.seq.elem(j)), S(paths.elem(m)))))))
    two = tm.ForAll([(j2.s, INT)], tm.Implies(
        tm.And(tm.Le(tm.mk_int(0), j2), tm.Lt(j2, i), _ok(S(e.seq.elem(j2)))),
        tm.Exists([(m2.s, INT)], tm.And(tm.Le(tm.mk_int(0), m2), tm.Lt(m2, paths.length),
                                        tm.Eq(S(paths.elem(m2)), _form(S(e.seq.elem(j2))))))))
    return [wrap_bool(one), wrap_bool(two)]


def _glob_post(self, old):
    c = cur()
    q = c.data.get("iglob")
    if q is None:
        return False
    r0, r = _res(old.self), _res(self)
    return wrap_bool(tm.And(RI(self, r, assume=False),
                            _quant(lambda p: tm.Iff(rec_t(self, r, p),
                                                    tm.Or(rec_t(self, r0, p),
                                                          tm.And(accepted_t(self, p), _from_scan(q, q.length, p)))))))


def _glob_finish(c, outcome, args, old):
    scans = [e for e in c.trace if e.kind == "iglob"]
    c.prove("the_file_system_is_scanned_once", tm.mk_bool(len(scans) == 1), kind="trace")


def _ng_self_glob(a):
    o = _ng_self()
    o._fields["_glob_pattern"] = ty.Str.fresh("self._glob_pattern")
    return o


@contract("stepup/core/nglob.py::NamedGlob.glob", props=["C17"])
class ng_glob:
    """After a scan, exactly the previously recorded paths and the accepted ones among what the standard glob of
    the pattern yields are recorded, a directory with its separator, anything that is not a directory only if it
    exists (glob.iglob yields the base directory of a trailing /** without checking it: finding F9)."""

    args = dict(self=_ng_self_glob)
    env = dict(Path=_fs_path, os=_Os, glob=_Glob)
    requires = lambda self: wrap_bool(RI(self, _res(self), assume=cur().data.get("active") == "stepup/core/nglob.py::NamedGlob.glob"))
    ensures = _glob_post
    finish = _glob_finish
    loops = {0: LoopSpec(invariant=_glob_inv, locals={"@acc": _PATHS})}
    modifies = ["self._results"]
