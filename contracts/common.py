"""Specs shared by the contracts: graph objects, nodes, and the database stub."""

from __future__ import annotations

from contracts import trusted
from contracts.trusted import DbStub
from vc import engine, extract, sym
from vc import terms as tm
from vc import types as ty

wfmod = extract.import_module("stepup/core/workflow.py")
trmod = extract.import_module("stepup/core/trellis.py")
filemod = extract.import_module("stepup/core/file.py")
stepmod = extract.import_module("stepup/core/step.py")
stmod = extract.import_module("stepup/core/static_tree.py")
enums = extract.import_module("stepup/core/enums.py")
excmod = extract.import_module("stepup/core/exceptions.py")

Workflow, Node, File, Step, StaticTree = wfmod.Workflow, trmod.Node, filemod.File, stepmod.Step, stmod.StaticTree
FileState, FileRole, StepState, Need = enums.FileState, enums.FileRole, enums.StepState, enums.Need


def workflow_spec(queries=(), **fields):
    """A Workflow object whose `db` is a statement-recording stub."""
    f = dict(db=ty.Make(lambda n: DbStub(n, queries)))
    f.update(fields)
    return ty.ObjOf(Workflow, f, name="Workflow")


def node_spec(cls, graph_arg="self"):
    """A node reference (frozen attrs object) belonging to the graph bound to `graph_arg`."""

    def make(args):
        c = sym.cur()
        k = c.fresh_name(cls.__name__.lower())
        o = sym.SymObj(cls, dict(graph=args[graph_arg], i=ty.Int.fresh(k + ".i"), label=ty.Str.fresh(k + ".label")),
                       name=cls.__name__, frozen=True, eq_fields=("graph", "i", "label"))
        return o

    return make


def fresh_node(cls, graph, prefix):
    c = sym.cur()
    k = c.fresh_name(prefix)
    return sym.SymObj(cls, dict(graph=graph, i=ty.Int.fresh(k + ".i"), label=ty.Str.fresh(k + ".label")),
                      name=cls.__name__, frozen=True, eq_fields=("graph", "i", "label"))


# --------------------------------------------------------------------------- assumed contracts of graph primitives
#
# These are *assumed* (verify=False) wherever a caller is verified before the callee itself is brought
# under contract; each is listed in the evidence of every property that uses it.

from vc.engine import contract  # noqa: E402

GraphError, ConsistencyError = excmod.GraphError, excmod.ConsistencyError


def any_node(graph, prefix="node"):
    return fresh_node(Node, graph, prefix)


def db_of(node_or_graph):
    g = node_or_graph._fields.get("graph", node_or_graph)
    return g._fields["db"]


def detached_t(node):
    """Ghost: the `detached` column of the node's row in the current database version."""
    return db_of(node).fact("detached", node.i)


@contract("stepup/core/trellis.py::Node.creator", props=[], verify=False,
          note="returns None or a node of the same graph (the row of the creator column); an attached "
               "non-root node has a creator (CHECK constraint of the node table, trusted to SQLite)")
class node_creator:
    result = lambda self: ty.Opt(ty.Make(lambda n: any_node(self.graph, "creator")))
    ensures = lambda self, result: sym.wrap_bool(tm.Implies(
        tm.Not(detached_t(self)), tm.Not(result.isnone if isinstance(result, sym.SymOpt) else tm.mk_bool(result is None))))
    modifies = []


@contract("stepup/core/trellis.py::Trellis.create", props=[], verify=False,
          note="returns a node of the requested type and (adjusted) label in this graph; raises "
               "ConsistencyError when an attached node with this label exists; changes only database tables")
class trellis_create:
    may_raise = {ConsistencyError: None}
    result = lambda self, node_type, label: ty.Make(
        lambda n: fresh_node(getattr(node_type, "__vc_real__", node_type), self, "created"))
    modifies = []

    @staticmethod
    def ensures(self, creator, label, result, kwargs=None):
        db_of(self).bump()
        sym.cur().event("create", node_type=result._cls, creator=creator, label=label, node=result)
        return True
