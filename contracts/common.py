"""Specs shared by the contracts: graph objects, nodes, and the database stub."""

from __future__ import annotations

from contracts import trusted
from contracts.trusted import DbStub
from vc import engine, extract, sym
from vc import terms as tm
from vc import types as ty

wfmod = extract.import_module("stepup/core/workflow.py")
trmod = extract.import_module("stepup/core/trellis.py")
filemod = extract.import_module("stepup/core/file.py")
stepmod = extract.import_module("stepup/core/step.py")
stmod = extract.import_module("stepup/core/static_tree.py")
enums = extract.import_module("stepup/core/enums.py")
excmod = extract.import_module("stepup/core/exceptions.py")

Workflow, Node, File, Step, StaticTree = wfmod.Workflow, trmod.Node, filemod.File, stepmod.Step, stmod.StaticTree
FileState, FileRole, StepState, Need = enums.FileState, enums.FileRole, enums.StepState, enums.Need


def workflow_spec(queries=(), **fields):
    """A Workflow object whose `db` is a statement-recording stub."""
    f = dict(db=ty.Make(lambda n: DbStub(n, queries)))
    f.update(fields)
    return ty.ObjOf(Workflow, f, name="Workflow")


def node_spec(cls, graph_arg="self"):
    """A node reference (frozen attrs object) belonging to the graph bound to `graph_arg`."""

    def make(args):
        c = sym.cur()
        k = c.fresh_name(cls.__name__.lower())
        o = sym.SymObj(cls, dict(graph=args[graph_arg], i=ty.Int.fresh(k + ".i"), label=ty.Str.fresh(k + ".label")),
                       name=cls.__name__, frozen=True, eq_fields=("graph", "i", "label"))
        return o

    return make


def fresh_node(cls, graph, prefix):
    c = sym.cur()
    k = c.fresh_name(prefix)
    return sym.SymObj(cls, dict(graph=graph, i=ty.Int.fresh(k + ".i"), label=ty.Str.fresh(k + ".label")),
                      name=cls.__name__, frozen=True, eq_fields=("graph", "i", "label"))


# --------------------------------------------------------------------------- assumed contracts of graph primitives
#
# These are *assumed* (verify=False) wherever a caller is verified before the callee itself is brought
# under contract; each is listed in the evidence of every property that uses it.

from vc.engine import contract  # noqa: E402

GraphError, ConsistencyError = excmod.GraphError, excmod.ConsistencyError


def any_node(graph, prefix="node"):
    return fresh_node(Node, graph, prefix)


def db_of(node_or_graph):
    g = node_or_graph._fields.get("graph", node_or_graph)
    return g._fields["db"]


def detached_t(node):
    """Ghost: the `detached` column of the node's row in the current database version."""
    return db_of(node).fact("detached", node.i)


@contract("stepup/core/trellis.py::Node.creator", props=[], verify=False,
          note="returns None or a node of the same graph (the row of the creator column); an attached "
               "non-root node has a creator (CHECK constraint of the node table, trusted to SQLite)")
class node_creator:
    result = lambda self: ty.Opt(ty.Make(lambda n: any_node(self.graph, "creator")))
    modifies = []

    @staticmethod
    def ensures(self, result):
        """None exactly when the creator column is NULL; otherwise the node whose id is in that column."""
        from contracts import graphdb

        col = graphdb.column(db_of(self), "node", "creator", sym.I(self.i))
        isn = result.isnone if isinstance(result, sym.SymOpt) else tm.mk_bool(result is None)
        pay = result.payload if isinstance(result, sym.SymOpt) else result
        same = tm.Eq(sym.I(pay.i), col.t) if pay is not None else tm.TRUE
        return sym.wrap_bool(tm.And(tm.Implies(tm.Not(detached_t(self)), tm.Not(isn)), tm.Iff(isn, col.null),
                                    tm.Implies(tm.Not(isn), same)))


# --------------------------------------------------------------------------- abstract view of the declarations
#
# Per database version: which paths are claimed by an attached file node (with role and creator), which step
# labels are taken by an attached step, which paths lie under an attached static tree.  The view is tied to the
# stored tables by the contracts of the lookup functions (contracts/C08_claims.py, contracts/C18_under.py); the
# effect of the graph primitives on it is stated here (assumed) and in the contracts of their callers (proved).


class View:
    def __init__(self, db):
        self.db = db

    def claimed(self, path):
        return self.db.fact("claimed", path)

    def role(self, path):
        return self.db.fact("claimrole", path, sort=tm.INT)

    def creator(self, path):
        return self.db.fact("claimcreator", path, sort=tm.INT)

    def step_exists(self, label):
        return self.db.fact("stepexists", label)

    def owned(self, path):
        return self.db.fact("owned", path)

    def globmatch(self, path):
        """Some attached glob registration's pattern matches the path."""
        return self.db.fact("globmatch", path)

    def owner(self, path):
        return self.db.fact("owningtree", path, sort=tm.INT)


def role_of_state(st: tm.T) -> tm.T:
    """ROLE(state) as an integer term (FileRole value); 0 for the roleless UNDECLARED."""
    out = tm.mk_int(0)
    for state, role in enums.FILE_ROLE_BY_STATE.items():
        out = tm.Ite(tm.Eq(st, tm.mk_int(state.value)), tm.mk_int(role.value), out)
    return out


def _forall_str(name, body_of, pattern_of):
    c = sym.cur()
    v = tm.Var(c.fresh_name(name + "!bound"), tm.STR)
    return tm.ForAll([(v.s, tm.STR)], body_of(v), patterns=[[pattern_of(v)]])


def same_claim_view(old: View, new: View, path) -> tm.T:
    return tm.And(tm.Iff(new.claimed(path), old.claimed(path)), tm.Eq(new.role(path), old.role(path)),
                  tm.Eq(new.creator(path), old.creator(path)))


def frame_view(old: View, new: View, changed_path=None, changed_step=None, trees_changed=False, globs_changed=False,
               claims_changed=False):
    """Everything in the view is unchanged, except the claim on `changed_path`, the step label `changed_step`."""
    fs = []

    def claims(v):
        same = tm.And(tm.Iff(new.claimed(v), old.claimed(v)), tm.Eq(new.role(v), old.role(v)),
                      tm.Eq(new.creator(v), old.creator(v)))
        return same if changed_path is None else tm.Implies(tm.Ne(v, sym.S(changed_path)), same)

    if not claims_changed:
        fs.append(_forall_str("p", claims, new.claimed))
        fs.append(_forall_str("p", claims, new.role))
        fs.append(_forall_str("p", claims, new.creator))

    def steps(v):
        same = tm.Iff(new.step_exists(v), old.step_exists(v))
        return same if changed_step is None else tm.Implies(tm.Ne(v, sym.S(changed_step)), same)

    fs.append(_forall_str("l", steps, new.step_exists))
    if not globs_changed:
        fs.append(_forall_str("p", lambda v: tm.Iff(new.globmatch(v), old.globmatch(v)), new.globmatch))
    if not trees_changed:
        trees = lambda v: tm.And(tm.Iff(new.owned(v), old.owned(v)), tm.Eq(new.owner(v), old.owner(v)))  # noqa: E731
        fs.append(_forall_str("p", trees, new.owned))
        fs.append(_forall_str("p", trees, new.owner))
    return tm.And(*fs)


@contract("stepup/core/trellis.py::Trellis.create", props=[], verify=False,
          note="returns a node of the requested type and (adjusted) label in this graph; raises "
               "ConsistencyError when an attached node with this label exists; changes only database tables. "
               "View: creating a File under an attached creator makes that creator the claimant of the label in "
               "the role of the given state and changes no other claim, step label or tree; creating a Step takes "
               "the step label and changes nothing else (recycled nodes were detached, so were their products)")
class trellis_create:
    may_raise = {ConsistencyError: None}
    result = lambda self, node_type, label: ty.Make(
        lambda n: fresh_node(getattr(node_type, "__vc_real__", node_type), self, "created"))
    modifies = []

    @staticmethod
    def assume_post(self, node_type, creator, label, result, kwargs=None):
        """Effect of Trellis.create on the abstract declaration view: the created (or re-created) node is attached with the
        given creator and the role of the requested state; nothing else changes in the view except that products of a
        re-created node become detached (stated per class of node in the frame; proved for the tables in C09, assumed
        for the view)."""
        c = sym.cur()
        db = db_of(self)
        c.event("create", node_type=result._cls, creator=creator, label=label, node=result, kwargs=kwargs or {})
        old = View(db.__snapshot__())
        db.bump()
        new = View(db)
        cls = result._cls
        facts = []
        if cls is File and creator is not None and kwargs and "state" in kwargs:
            att = tm.Not(old.db.fact("detached", creator.i))
            facts.append(tm.Implies(att, tm.And(new.claimed(label), tm.Eq(new.role(label), role_of_state(sym.I(kwargs["state"]))),
                                                tm.Eq(new.creator(label), sym.I(creator.i)))))
            facts.append(tm.Implies(tm.Not(att), same_claim_view(old, new, label)))
            facts.append(frame_view(old, new, changed_path=label))
            facts.append(tm.Eq(sym.S(result.label), sym.S(label)))  # callers pass normalised paths (File.adjust_label)
        elif cls is File and creator is None:
            # a node created without creator is detached: it claims nothing, and the node it may re-use was detached
            facts.append(frame_view(old, new))
            facts.append(tm.Eq(sym.S(result.label), sym.S(label)))
        elif cls is Step:
            facts.append(frame_view(old, new, changed_step=result.label))
        return sym.wrap_bool(tm.And(*facts))
