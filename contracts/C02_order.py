"""C02: the result of a build does not depend on scheduling (scoped: the order-normalising mechanisms and the
order independence of the conflict messages; all schedules of small worlds are the bounded stand-in
contracts/C02_bounded.py; acceptance symmetry of conflicting declarations is C08).

  * declaration lists are order-normalised: in define_step, amend_step and declare_static_files every list parameter is
    rebound to sorted(set(parameter)) before its first other use (dataflow scan of the real AST);
  * deterministic enumeration: every ORDER BY that renders or iterates nodes covers the unique key (kind, label);
  * the text of an error about two conflicting declarations does not depend on which arrived first (exhaustive over
    roles, authorship flags and the three order types of the two creators; the functions use the creator strings only
    through comparison and interpolation)."""

from __future__ import annotations

import ast
import itertools

from contracts import common
from vc import extract, sqlfront
from vc.report import bounded, structural

W = "stepup/core/workflow.py"
LIST_PARAMS = {
    "Workflow.define_step": ["inp_paths", "env_deps", "out_paths", "vol_paths"],
    "Workflow.amend_step": ["inp_paths", "out_paths", "vol_paths"],
    "Workflow.declare_static_files": ["paths"],
}


def _first_uses(fn: ast.FunctionDef, name: str):
    """Statements of the function body (in order) that mention `name`."""
    out = []
    for stmt in fn.body:
        if any(isinstance(n, ast.Name) and n.id == name for n in ast.walk(stmt)):
            out.append(stmt)
    return out


def _is_normalisation(stmt, name):
    """`name = sorted(set(name))`"""
    if not (isinstance(stmt, ast.Assign) and len(stmt.targets) == 1 and isinstance(stmt.targets[0], ast.Name)
            and stmt.targets[0].id == name):
        return False
    v = stmt.value
    return (isinstance(v, ast.Call) and getattr(v.func, "id", None) == "sorted" and len(v.args) == 1 and not v.keywords
            and isinstance(v.args[0], ast.Call) and getattr(v.args[0].func, "id", None) == "set"
            and len(v.args[0].args) == 1 and isinstance(v.args[0].args[0], ast.Name) and v.args[0].args[0].id == name)


@structural("C02/scan/lists_are_normalised", props=["C02"],
            note="the effects and the result of the declaring functions depend on each list argument only through "
                 "sorted(set(argument)): the parameter is rebound to it in the first statement that mentions it")
def lists_are_normalised():
    out = []
    for qual, params in LIST_PARAMS.items():
        src, fn = extract.find_def(W, qual)
        for p in params:
            uses = _first_uses(fn, p)
            ok = bool(uses) and _is_normalisation(uses[0], p)
            out.append((f"scan/normalised/{qual}.{p}", ok,
                        f"first statement mentioning {p}: {ast.unparse(uses[0])[:120] if uses else 'none'}"))
    return out


ORDERED = [("stepup/core/trellis.py", "Node.products"), ("stepup/core/trellis.py", "Node._node_keys"),
           ("stepup/core/step.py", "Step._dependency_keys")]


@structural("C02/scan/deterministic_enumeration", props=["C02"],
            note="every statement that renders or iterates nodes is ordered by the unique key (kind, label)")
def deterministic_enumeration():
    out = []
    for rel, qual in ORDERED:
        try:
            src, fn = extract.find_def(rel, qual)
        except extract.ExtractError as e:
            out.append((f"scan/order/{qual}", False, str(e)))
            continue
        text = " ".join(n.value for n in ast.walk(fn) if isinstance(n, ast.Constant) and isinstance(n.value, str))
        ok = "ORDER BY kind, label" in " ".join(text.split())
        out.append((f"scan/order/{qual}", ok, "the query of this function is not ordered by kind, label"))
    return out


@bounded("message_symmetry", props=["C02"],
         bound="exhaustive over the 3 roles x 2 authorship flags of each declaration and the three order types of the two "
               "creator phrases (a < b, a = b, a > b), both argument orders, for _file_collision_message; the three order "
               "types for _duplicate_step_message and _duplicate_static_tree_message")
def message_symmetry(tier, seed):
    wf = extract.import_module(W)
    FileRole = common.FileRole
    fails, n = [], 0
    creators = [("step (a)", "step (b)"), ("step (a)", "step (a)"), ("step (b)", "step (a)")]
    for (ra, rb), (aa, ab), (ca, cb) in itertools.product(itertools.product(FileRole, repeat=2),
                                                          itertools.product([True, False], repeat=2), creators):
        da, db = wf.Decl(ra, ca, authored=aa), wf.Decl(rb, cb, authored=ab)
        res = []
        for x, y in ((da, db), (db, da)):
            try:
                res.append(("text", wf._file_collision_message("p.txt", x, y)))
            except Exception as e:  # noqa: BLE001
                res.append(("raise", type(e).__name__, str(e)))
        n += 1
        if res[0] != res[1]:
            fails.append(dict(function="_file_collision_message", a=repr(da), b=repr(db), ab=res[0], ba=res[1]))
    for name in ("_duplicate_step_message", "_duplicate_static_tree_message"):
        f = getattr(wf, name)
        for ca, cb in creators:
            n += 1
            if f("x", ca, cb) != f("x", cb, ca):
                fails.append(dict(function=name, a=ca, b=cb, ab=f("x", ca, cb), ba=f("x", cb, ca)))
    return dict(evaluations=n, failures=fails)
