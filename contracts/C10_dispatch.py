"""C10: dispatch is exact — coherence of the cached scheduling columns (trigger coverage), defer cap."""

from __future__ import annotations

import ast
import re

from contracts import common, trusted
from contracts.common import FileState, Need, StepState
from contracts.trusted import DbStub
from vc import engine, extract, sqlfront, sym
from vc import terms as tm
from vc import types as ty
from vc.engine import LoopSpec, contract
from vc.report import lemma, structural
from vc.sym import B, I, S, cur, wrap_bool, wrap_int
from vc.terms import BOOL, INT, STR

STEP = "stepup/core/step.py"
Step = common.Step


def all_triggers():
    """Every CREATE TRIGGER of the schemas, as dict name -> (event, table, column, when, body), normalised."""
    out = {}
    for rel, const in (("stepup/core/step.py", "STEP_SCHEMA"), ("stepup/core/file.py", "FILE_SCHEMA"),
                       ("stepup/core/trellis.py", "TRELLIS_SCHEMA"), ("stepup/core/workflow.py", None)):
        mod = extract.import_module(rel)
        texts = [getattr(mod, const)] if const else [v for k, v in vars(mod).items()
                                                     if isinstance(v, str) and "CREATE TRIGGER" in v]
        for text in texts:
            for m in re.finditer(r"CREATE TRIGGER IF NOT EXISTS (\w+) AFTER (INSERT|DELETE|UPDATE(?: OF (\w+))?) ON (\w+)\s*"
                                 r"(?:WHEN(.*?))?BEGIN(.*?)END;", text, re.S):
                name, ev, col, table, when, body = m.groups()
                out[name] = (ev.split()[0], table, col, sqlfront.normalize(when) if when else None,
                             sqlfront.normalize(re.sub(r"--[^\n]*", "", body)))
    return out


SINKS_OF_NEW_NODE = "UPDATE step SET _check_ready = 1 WHERE node IN ( SELECT sink FROM dependency WHERE source = NEW . node ) ;"
SINKS_OF_NEW_I = "UPDATE step SET _check_ready = 1 WHERE node IN ( SELECT sink FROM dependency WHERE source = NEW . i ) ;"

# The read footprint of the definition of _ready (RECOMPUTE_READY / UNAVAILABLE_INPUT_WHERE): for each row event
# that can change it, the statement that must flag (a superset of) the affected steps and the only filter allowed.
READY_FOOTPRINT = [
    ("dependency", "INSERT", None, None, "UPDATE step SET _check_ready = 1 WHERE node = NEW . sink ;"),
    ("dependency", "DELETE", None, None, "UPDATE step SET _check_ready = 1 WHERE node = OLD . sink ;"),
    ("file", "UPDATE", "state", "OLD . state != NEW . state", SINKS_OF_NEW_NODE),
    ("file", "INSERT", None, None, SINKS_OF_NEW_NODE),
    ("node", "UPDATE", "detached", "OLD . detached != NEW . detached", SINKS_OF_NEW_I),
    ("dynamic_dep", "INSERT", None, None, "UPDATE step SET _check_ready = 1 WHERE node = ( SELECT sink FROM dependency WHERE i = NEW . i ) ;"),
    ("dynamic_dep", "DELETE", None, None, "UPDATE step SET _check_ready = 1 WHERE node = ( SELECT sink FROM dependency WHERE i = OLD . i ) ;"),
]


@structural("C10/cover/_ready", props=["C10", "C03", "C02"],
            note="every row event in the read footprint of the definition of _ready has a trigger that flags the steps "
                 "whose value can change, filtered only by a no-op test; new rows start flagged; only RECOMPUTE_READY clears")
def ready_coverage():
    trg = all_triggers()
    out = []
    for table, ev, col, when, stmt in READY_FOOTPRINT:
        cands = [(n, t) for n, t in trg.items() if t[1] == table and t[0] == ev and (col is None or t[2] == col)
                 and stmt in t[4]]
        ok = any(t[3] == when for _, t in cands)
        out.append((f"cover/_ready/{table}.{ev}{'.' + col if col else ''}", ok,
                    f"triggers on this event: {[n for n, t in trg.items() if t[1] == table and t[0] == ev]}"))
    schema = extract.module_constant(STEP, "STEP_SCHEMA")
    out.append(("cover/_ready/new_rows_start_flagged",
                re.search(r"_check_ready INTEGER NOT NULL CHECK\(_check_ready IN \(0, 1\)\) DEFAULT 1", schema) is not None,
                "column default"))
    # writers of the flag and of the column
    clears, sets_ready = [], []
    import glob
    import os

    for path in sorted(glob.glob(os.path.join(extract.REPO, "stepup", "core", "*.py"))):
        rel = os.path.relpath(path, extract.REPO)
        mod_src, tree = extract.read_module(rel)
        # SQL inside function bodies (literal strings and the literal parts of f-strings) ...
        texts = []
        for fn in ast.walk(tree):
            if isinstance(fn, (ast.FunctionDef, ast.AsyncFunctionDef)):
                for n in ast.walk(fn):
                    if isinstance(n, ast.Constant) and isinstance(n.value, str):
                        texts.append((n.value, f"{fn.name}:{n.lineno}"))
        # ... and module-level SQL constants, evaluated by importing the module (f-strings over enum values)
        try:
            mod = extract.import_module(rel)
            texts += [(v, k) for k, v in vars(mod).items() if isinstance(v, str) and k.isupper()
                      and getattr(mod, "__name__", "").endswith(rel[:-3].replace("/", "."))]
        except Exception:  # noqa: BLE001
            pass
        for text, where in texts:
            t = re.sub(r"--[^\n]*", "", text)
            if "CREATE TABLE" in t.upper():
                continue
            if re.search(r"SET[^;]*\b_check_ready\s*=\s*(0|FALSE)", t, re.I | re.S):
                clears.append((rel, where))
            if re.search(r"SET[^;]*[\s,]_ready\s*=", t, re.I | re.S):
                sets_ready.append((rel, where))
    rr = extract.module_constant("stepup/core/scheduler.py", "RECOMPUTE_READY")
    out.append(("cover/_ready/only_recompute_clears_the_flag",
                sorted(set(clears)) == [("stepup/core/scheduler.py", "RECOMPUTE_READY")] and "_check_ready = 0" in rr,
                f"statements clearing the flag: {clears}"))
    out.append(("cover/_ready/only_recompute_writes_the_column",
                sorted(set(sets_ready)) == [("stepup/core/scheduler.py", "RECOMPUTE_READY")],
                f"statements writing _ready: {sets_ready}"))
    # no statement updates dependency rows in place (only INSERT / DELETE events exist for that table)
    upd_dep = []
    for path in sorted(glob.glob(os.path.join(extract.REPO, "stepup", "core", "*.py"))):
        rel = os.path.relpath(path, extract.REPO)
        _, tree = extract.read_module(rel)
        for n in ast.walk(tree):
            if isinstance(n, ast.Constant) and isinstance(n.value, str) and re.search(r"UPDATE\s+dependency\b", n.value, re.I):
                upd_dep.append((rel, n.lineno))
    out.append(("cover/_ready/dependency_rows_are_never_updated", not upd_dep, str(upd_dep)))
    return out


@structural("C10/cover/_has_hash", props=["C10", "C05", "C04"],
            note="_has_hash mirrors the presence of a step_hash row: set on insert, cleared on delete, no other writer")
def has_hash_coverage():
    trg = all_triggers()
    out = []
    want = {("step_hash", "INSERT"): "UPDATE step SET _has_hash = 1 WHERE node = NEW . node ;",
            ("step_hash", "DELETE"): "UPDATE step SET _has_hash = 0 WHERE node = OLD . node ;"}
    for (table, ev), stmt in want.items():
        ok = any(t[1] == table and t[0] == ev and t[3] is None and t[4] == stmt for t in trg.values())
        out.append((f"cover/_has_hash/{table}.{ev}", ok, stmt))
    import glob
    import os

    writers = []
    for path in sorted(glob.glob(os.path.join(extract.REPO, "stepup", "core", "*.py"))):
        rel = os.path.relpath(path, extract.REPO)
        _, tree = extract.read_module(rel)
        for n in ast.walk(tree):
            if isinstance(n, ast.Constant) and isinstance(n.value, str):
                t = re.sub(r"--[^\n]*", "", n.value)
                for m in re.finditer(r"_has_hash\s*=\s*[01:?]", t):
                    ctx = t[max(0, m.start() - 60):m.start()]
                    if "SET" in ctx.upper() or "VALUES" in ctx.upper():
                        writers.append((rel, n.lineno))
    out.append(("cover/_has_hash/no_other_writer", all(r == STEP for r, _ in writers), str(sorted(set(writers)))))
    # step_hash rows are only written by set_hash / delete_hash (and cascade on node delete)
    sh = []
    for path in sorted(glob.glob(os.path.join(extract.REPO, "stepup", "core", "*.py"))):
        rel = os.path.relpath(path, extract.REPO)
        _, tree = extract.read_module(rel)
        for fn in ast.walk(tree):
            if isinstance(fn, (ast.FunctionDef, ast.AsyncFunctionDef)):
                for n in ast.walk(fn):
                    if isinstance(n, ast.Constant) and isinstance(n.value, str) and re.search(
                            r"(INSERT( OR REPLACE)? INTO|DELETE FROM|UPDATE)\s+step_hash", n.value, re.I):
                        sh.append((rel, fn.name))
    out.append(("cover/_has_hash/step_hash_writers", sorted(set(sh)) == [(STEP, "delete_hash"), (STEP, "set_hash")],
                str(sorted(set(sh)))))
    return out


@structural("C10/cover/_safe_flags", props=["C10", "C12"],
            note="every event that can change a step's own contribution to its products' _safe flags the step: state "
                 "changes (trigger), hold / release edges (C12 contracts), new rows start flagged")
def safe_flag_coverage():
    trg = all_triggers()
    out = []
    ok = any(t[1] == "step" and t[0] == "UPDATE" and t[2] == "state" and t[3] is None
             and t[4] == "UPDATE step SET _check_safe = 1 WHERE node = NEW . node ;" for t in trg.values())
    out.append(("cover/_safe_flags/step.UPDATE.state", ok, "step_flag_check_safe"))
    ok2 = any(t[1] == "step" and t[0] == "UPDATE" and t[2] == "duration"
              and t[4] == "UPDATE step SET _check_after = 1 WHERE node = NEW . node ;" for t in trg.values())
    out.append(("cover/_safe_flags/step.UPDATE.duration", ok2, "step_flag_check_after_duration"))
    for ev, ref in (("INSERT", "NEW"), ("DELETE", "OLD")):
        stmt = f"UPDATE step SET _check_after = 1 WHERE node IN ( {ref} . source , {ref} . sink ) ;"
        ok3 = any(t[1] == "dependency" and t[0] == ev and stmt in t[4] for t in trg.values())
        out.append((f"cover/_safe_flags/dependency.{ev}.check_after", ok3, stmt))
    return out


# ---------------------------------------------------------------- termination: the defer cap

StepNodeQueries = [
    ("UPDATE step SET defer_count = defer_count + 1", ty.TupleOf(ty.Int), lambda row, args: wrap_bool(
        tm.Eq(I(row[0]), tm.Add(cur().decls.const("ghost.defer_count_before", INT), tm.mk_int(1)))), True),
    ("SELECT state FROM step WHERE node = ?", ty.TupleOf(ty.Int), lambda row, args: wrap_bool(
        tm.Eq(I(row[0]), cur().data["step_state_now"])), True),
]


def _mc_step(args):
    wf = ty.ObjOf(common.Workflow, dict(db=ty.Make(lambda n: DbStub(n, StepNodeQueries)), defer_cap=ty.Int),
                  name="Workflow").fresh("graph")
    c = cur()
    c.data["args_db"] = wf._fields["db"]
    c.data["step_state_now"] = c.fresh("step.state.now", INT)
    return common.fresh_node(Step, wf, "step")


@contract("stepup/core/step.py::Step._increment_defer_count", props=["C10"])
class increment_defer_count:
    args = dict(self=_mc_step)
    ensures = lambda self, result: result == wrap_int(tm.Add(cur().decls.const("ghost.defer_count_before", INT), tm.mk_int(1)))
    result = ty.Int
    modifies = []


def _set_state_stub(self, state, deferred=False):
    c = cur()
    c.event("set_state", node=self, state=state, deferred=deferred)
    c.data["step_state_now"] = I(state)
    self.graph._fields["db"].bump()


@contract("stepup/core/step.py::Step.set_state", props=[], verify=False, impl=_set_state_stub,
          note="writes the state (and deferred) columns of this step")
class step_set_state_impl:
    modifies = []


for _n, _r in (("has_unavailable_dynamic_input", ty.Bool), ("_detach_created_steps", None), ("delete_hash", None),
               ("set_hash", None), ("products", "files")):
    pass


@contract("stepup/core/step.py::Step.has_unavailable_dynamic_input", props=[], verify=False, note="database read")
class hudi_assumed:
    result = ty.Bool
    modifies = []


@contract("stepup/core/step.py::Step._detach_created_steps", props=[], verify=False, note="detaches created steps")
class dcs_assumed:
    modifies = []

    @staticmethod
    def ensures(self):
        cur().event("detach_created_steps")
        return True


@contract("stepup/core/step.py::Step.set_hash", props=[], verify=False, note="stores the step hash")
class set_hash_assumed:
    modifies = []

    @staticmethod
    def ensures(self, step_hash):
        cur().event("set_hash", hash=step_hash)
        return True


@contract("stepup/core/step.py::Step.delete_hash", props=[], verify=False, impl=lambda self: cur().event("delete_hash"),
          note="removes the stored step hash")
class delete_hash_impl:
    modifies = []


class _FileStub:
    def __init__(self, name):
        self.state = ty.EnumOf(FileState).fresh(name + ".state")

    def get_state(self):
        return self.state

    def set_state(self, s):
        cur().event("file.set_state", file=self, state=s, old=self.state)
        self.state = s


def _product_nodes(self):
    """products() without a type filter: node references; exactly the rows whose creator column is this node."""
    from contracts import graphdb

    c = cur()
    db = common.db_of(self)
    ids = c.fresh(c.fresh_name("products.ids"), tm.arr(INT, INT))
    n = c.fresh(c.fresh_name("products.len"), INT)
    c.pc.append(tm.Ge(n, tm.mk_int(0)))
    graph = self._fields.get("graph")

    idx = c.decls.fun(c.fresh_name("products.idx"), [INT], INT)

    def elem(j):
        i = tm.Select(ids, j, INT)
        cr = graphdb.column(db0, "node", "creator", i)
        # a listed node is a product; the listing has no duplicates (position function idx)
        cur().pc.append(tm.Implies(tm.And(tm.Le(tm.mk_int(0), j), tm.Lt(j, n)),
                                   tm.And(graphdb.exists(db0, "node", i), tm.Not(cr.null), tm.Eq(cr.t, I(self.i)),
                                          tm.Eq(idx(i), j))))
        return sym.SymObj(common.Node, dict(graph=graph, i=sym.wrap_int(i), label=ty.Str.fresh(cur().fresh_name("product.label"))),
                          name="Node", frozen=True, eq_fields=("graph", "i", "label"))

    db0 = db.__snapshot__()
    q = sym.SymSeq(elem, n, name="products")
    # completeness: every row whose creator is this node is listed (at the position idx)
    m = tm.Var(c.fresh_name("m!bound"), INT)
    crm = graphdb.column(db0, "node", "creator", m)
    c.pc.append(tm.ForAll([(m.s, INT)], tm.Implies(
        tm.And(graphdb.exists(db0, "node", m), tm.Not(crm.null), tm.Eq(crm.t, I(self.i))),
        tm.And(tm.Le(tm.mk_int(0), idx(m)), tm.Lt(idx(m), n), tm.Eq(tm.Select(ids, idx(m), INT), m))),
        patterns=[[crm.t]]))
    q.ids = ids
    q.idx = idx
    return q


@contract("stepup/core/trellis.py::Node.products", props=[], verify=False,
          note="the products of this node (database read): with a type filter, objects whose state can be read and "
               "set; without, references to exactly the nodes whose creator column is this node")
class products_assumed:
    result = lambda self, node_type=None: (ty.SeqOf(ty.Make(_FileStub)) if node_type is not None
                                           else ty.Make(lambda n: _product_nodes(self)))
    modifies = []


@contract("stepup/core/workflow.py::Workflow.mark_consuming_steps_pending", props=[], verify=False,
          note="marks the consumers of a file pending")
class mcsp_assumed:
    modifies = []

    @staticmethod
    def ensures(self, file):
        cur().event("mark_consuming_steps_pending", file=file)
        return True


def _mc_finish(c, outcome, args, old):
    """Success iff a hash is given; a failed or deferred completion drops the stored hash; an accepted defer
    leaves the step PENDING and strictly increases defer_count; beyond the cap the step fails (termination
    measure: defer_cap - defer_count)."""
    if outcome[0] != "return":
        return
    sets = [e for e in c.trace if e.kind == "set_state"]
    new_hash, wants = args["new_hash"], args["wants_defer"]
    isn = new_hash.isnone if isinstance(new_hash, sym.SymOpt) else tm.mk_bool(new_hash is None)
    c.prove("exactly_one_state_change", len(sets) == 1, kind="post")
    if len(sets) != 1:
        return
    st = sets[0].state
    before = c.decls.const("ghost.defer_count_before", INT)
    cap = I(args["self"].graph.defer_cap)
    c.prove("succeeded_iff_hash_given", tm.Iff(B(st == StepState.SUCCEEDED), tm.Not(isn)), kind="post")
    dropped = any(e.kind == "delete_hash" for e in c.trace)
    stored = any(e.kind == "set_hash" for e in c.trace)
    c.prove("hash_kept_only_on_success", tm.And(tm.Iff(tm.mk_bool(stored), tm.Not(isn)), tm.Iff(tm.mk_bool(dropped), isn)), kind="post")
    incs = [e for e in c.trace if e.kind == "call" and e.callee == "Step._increment_defer_count"]
    c.prove("pending_only_as_an_accepted_defer",
            tm.Implies(B(st == StepState.PENDING), tm.And(isn, B(wants), tm.mk_bool(len(incs) == 1),
                                                          tm.Le(tm.Add(before, tm.mk_int(1)), cap))), kind="post")
    c.prove("defer_beyond_cap_fails",
            tm.Implies(tm.And(isn, B(wants), tm.Gt(tm.Add(before, tm.mk_int(1)), cap)),
                       tm.And(B(st == StepState.FAILED), B(outcome[1]))), kind="post")
    c.prove("no_defer_means_failed", tm.Implies(tm.And(isn, tm.Not(B(wants))), B(st == StepState.FAILED)), kind="post")
    detach = any(e.kind == "detach_created_steps" for e in c.trace)
    c.prove("created_steps_detached_iff_failed", tm.Iff(tm.mk_bool(detach), B(st == StepState.FAILED)), kind="post")


def _mc_file_transition(e):
    """C09: a completing step moves its output files only along BUILT -> OUTDATED (failed or deferred) and
    OUTDATED -> BUILT (succeeded): the role of a file never changes here."""
    old, new = I(e.old), I(e.state)
    b, o = tm.mk_int(FileState.BUILT.value), tm.mk_int(FileState.OUTDATED.value)
    return wrap_bool(tm.Or(tm.And(tm.Eq(old, b), tm.Eq(new, o)), tm.And(tm.Eq(old, o), tm.Eq(new, b))))


def _mc_step_transition(e, new_hash, wants_defer):
    """C09: the step ends SUCCEEDED exactly with a hash, otherwise FAILED or (deferred) PENDING."""
    st = I(e.state)
    has = tm.Not(new_hash.isnone) if isinstance(new_hash, sym.SymOpt) else tm.mk_bool(new_hash is not None)
    ok = tm.Ite(has, tm.Eq(st, tm.mk_int(StepState.SUCCEEDED.value)),
                tm.Or(tm.Eq(st, tm.mk_int(StepState.FAILED.value)),
                      tm.And(B(wants_defer), tm.Eq(st, tm.mk_int(StepState.PENDING.value)))))
    return wrap_bool(ok)


def _mc_wakes_consumers(e):
    """C10 (no lost wake-up): in the iteration that turns an unchanged OUTDATED output back to BUILT, the consumers
    of that file are marked pending afterwards (this is what clears the `deferred` flag of a consumer that was
    parked on the file while it was OUTDATED)."""
    c = cur()
    loop = c.data["loops"][1]
    evs = c.trace[loop.head_index:]
    ok = True
    for k, ev in enumerate(evs):
        if ev.kind == "file.set_state":
            ok = ok and any(x.kind == "mark_consuming_steps_pending" and x.file is ev.file for x in evs[k + 1:])
    marks = [x for x in evs if x.kind == "mark_consuming_steps_pending"]
    sets = [x for x in evs if x.kind == "file.set_state"]
    return wrap_bool(tm.mk_bool(bool(ok) and len(marks) == len(sets)))


@contract("stepup/core/step.py::Step.mark_completed", props=["C10", "C03", "C04", "C09", "C02", "C05"])
class mark_completed:
    args = dict(self=_mc_step, new_hash=ty.Opt(ty.Opaque("StepHash")), wants_defer=ty.Bool)
    events = {"file.set_state": _mc_file_transition, "set_state": _mc_step_transition}
    finish = _mc_finish
    result = ty.Bool
    modifies = []
    loops = {0: LoopSpec(), 1: LoopSpec(step_post=_mc_wakes_consumers)}


@structural("C10/sql/defer_count_reset", props=["C10"],
            note="defer_count is reset only when the step SUCCEEDED (trigger), so the measure defer_cap - defer_count only "
                 "grows back on convergence")
def defer_count_reset():
    trg = all_triggers()
    ok = any(t[1] == "step" and t[0] == "UPDATE" and t[2] == "state" and t[3] == f"NEW . state = {StepState.SUCCEEDED.value}"
             and t[4] == "UPDATE step SET defer_count = 0 WHERE node = NEW . node ;" for t in trg.values())
    out = [("sql/defer_count_reset/trigger", ok, "step_reset_defer_count")]
    import glob
    import os

    w = []
    for path in sorted(glob.glob(os.path.join(extract.REPO, "stepup", "core", "*.py"))):
        rel = os.path.relpath(path, extract.REPO)
        _, tree = extract.read_module(rel)
        for fn in ast.walk(tree):
            if isinstance(fn, (ast.FunctionDef, ast.AsyncFunctionDef)):
                for n in ast.walk(fn):
                    if isinstance(n, ast.Constant) and isinstance(n.value, str) and re.search(r"SET\s+defer_count\s*=", n.value, re.I):
                        w.append((rel, fn.name))
    out.append(("sql/defer_count_reset/writers", sorted(set(w)) == [(STEP, "_increment_defer_count")], str(sorted(set(w)))))
    return out
