"""C08: every path has one owner and conflicts are rejected in either order.

The claim on a path is read off the stored graph (contracts/graphdb.py):
    claim(i, p)  :=  node i exists, kind 'file', not detached, label p
and its role and creator are ROLE(file.state(i)) and node.creator(i).  Every declaration request is given
a postcondition of the form "returns normally only if no conflicting attached declaration exists", the
conflict predicate being the one the property states (symmetric by construction), for each of the two code
paths that implement "A then B" and "B then A"."""

from __future__ import annotations

from contracts import common, graphdb, trusted
from contracts.common import (ConsistencyError, File, FileRole, FileState, GraphError, Node, StaticTree, Step,
                              Workflow, any_node, db_of, fresh_node, workflow_spec)
from contracts.trusted import DbStub, PathStr
from vc import engine, extract, sqlfront, sym
from vc import terms as tm
from vc import types as ty
from vc.engine import LoopSpec, contract
from vc.report import bounded, lemma, replayer, structural
from vc.sym import B, I, S, cur, wrap_bool, wrap_int, wrap_str
from vc.terms import BOOL, INT, STR

wfmod = common.wfmod
enums = common.enums
Claim = wfmod.Claim
FILE = tm.mk_str("file")
ROLE_BY_STATE = enums.FILE_ROLE_BY_STATE


# ---------------------------------------------------------------- spec predicates over the ghost view


def nexists(db, i):
    return graphdb.exists(db, "node", I(i))


def ncol(db, col, i):
    return graphdb.val(db, "node", col, i)


def attached_file(db, i) -> tm.T:
    return tm.And(nexists(db, i), tm.Eq(ncol(db, "kind", i), FILE), tm.Not(ncol(db, "detached", i)))


def claim(db, i, path) -> tm.T:
    return tm.And(attached_file(db, i), tm.Eq(ncol(db, "label", i), S(path)))


role_of_state = common.role_of_state
View = common.View


def role_t(db, i) -> tm.T:
    return role_of_state(graphdb.val(db, "file", "state", i))


def creator_t(db, i) -> tm.T:
    return ncol(db, "creator", i)


def schema_invariants(db, *ids):
    """Facts of the stored graph that the schema enforces (trusted to SQLite), instantiated for `ids`:
    the (kind, label) unique index; every file node has a file row; an attached non-root node has a creator
    row; an attached file is never UNDECLARED (file_check_undeclared_detached_* triggers)."""
    fs = []
    ids = [I(i) for i in ids]
    for a in ids:
        cnull = graphdb.column(db, "node", "creator", a).null
        fs.append(tm.Implies(tm.And(nexists(db, a), tm.Eq(ncol(db, "kind", a), FILE)), graphdb.exists(db, "file", a)))
        fs.append(tm.Implies(tm.And(nexists(db, a), tm.Not(ncol(db, "detached", a)), tm.Ne(ncol(db, "kind", a), tm.mk_str("root"))),
                             tm.And(tm.Not(cnull), nexists(db, creator_t(db, a)))))
        fs.append(tm.Implies(attached_file(db, a),
                             tm.Ne(graphdb.val(db, "file", "state", a), tm.mk_int(FileState.UNDECLARED.value))))
        st = graphdb.val(db, "file", "state", a)
        fs.append(tm.Implies(graphdb.exists(db, "file", a),
                             tm.Or(*[tm.Eq(st, tm.mk_int(s.value)) for s in FileState])))
        for b in ids:
            if a is not b:
                fs.append(tm.Implies(tm.And(nexists(db, a), nexists(db, b), tm.Eq(ncol(db, "kind", a), ncol(db, "kind", b)),
                                            tm.Eq(ncol(db, "label", a), ncol(db, "label", b))), tm.Eq(a, b)))
    return tm.And(*fs)


trusted.trusted("schema of the node/file tables: UNIQUE(kind, label); FOREIGN KEY file.node -> node.i with every "
                "file node having a file row (Trellis.create inserts both in one call); CHECK(kind = 'root' OR creator "
                "IS NOT NULL OR detached); triggers file_check_undeclared_detached_* keep UNDECLARED files detached "
                "(covered structurally under C09)")



def W(db, path) -> tm.T:
    """Ghost choice function: the attached file node with this label, if there is one."""
    return db.fact("claimnode", path, sort=INT)


def claimed(db, path) -> tm.T:
    return View(db).claimed(path)


def axioms(db, path, *ids):
    """Assume (trusted / definitional) facts about the current database version: the schema's invariants for
    W(path) and `ids`; the definition of the abstract view (common.View) at `path`: claimed(path) iff W(path) is
    an attached file node labelled path, role(path) and creator(path) are those of W(path); and the choice
    axiom claim(i, path) => claimed(path) for each i."""
    c = cur()
    w = W(db, path)
    v = View(db)
    c.pc.append(schema_invariants(db, w, *ids))
    c.pc.append(tm.Iff(v.claimed(path), claim(db, w, path)))
    c.pc.append(tm.Eq(v.role(path), role_t(db, w)))
    c.pc.append(tm.Eq(v.creator(path), creator_t(db, w)))
    for i in ids:
        c.pc.append(tm.Implies(claim(db, I(i), path), v.claimed(path)))


# ---------------------------------------------------------------- _existing_claim

ClaimRow = ty.TupleOf(ty.Int, ty.Int, ty.Str, ty.Str)


def _claim_witness(keys, args, row):
    c = cur()
    axioms(c.data["cursor"].db, args[0], keys["node"])


def _claim_none_keys(args):
    c = cur()
    db = c.data["args"]["self"]._fields["db"]
    w = W(db, args[0])
    axioms(db, args[0])
    # the joined rows are determined by the node row: file.node = node.i, cnode.i = node.creator
    return [{"node": w, "file": w, "node#2": creator_t(db, w)}]  # rows by role: the claim node, its file row, its creator


CLAIM_QUERY = graphdb.query("SELECT file.state, cnode.i, cnode.kind, cnode.label FROM node JOIN file", ClaimRow,
                            witness=_claim_witness, none_keys=_claim_none_keys)


def _wf(args, queries=(CLAIM_QUERY,)):
    return workflow_spec(queries).fresh("workflow")


def _claim_result(self, path):
    def make(n):
        c = cur()
        role = ty.EnumOf(FileRole).fresh(n + ".role")
        creator = fresh_node(Node, self, "claimcreator")
        return sym.SymObj(Claim, dict(role=role, creator=creator), name="Claim", frozen=True)

    return ty.Opt(ty.Make(make))


@contract("stepup/core/workflow.py::Workflow._existing_claim", props=["C08"])
class existing_claim:
    """None exactly when no attached file node has this label; otherwise the role and creator of that node."""

    args = dict(self=_wf, path=ty.Str)
    result = _claim_result
    may_raise = {}
    modifies = []

    @staticmethod
    def ensures(self, path, result):
        db = db_of(self)
        axioms(db, path)
        w = W(db, path)
        isn = result.isnone if isinstance(result, sym.SymOpt) else tm.mk_bool(result is None)
        pay = result.payload if isinstance(result, sym.SymOpt) else result
        some = tm.TRUE
        v = View(db)
        if pay is not None:
            some = tm.And(tm.Eq(I(pay.role), v.role(path)), tm.Eq(I(pay.creator.i), v.creator(path)))
        return wrap_bool(tm.And(tm.Iff(isn, tm.Not(claimed(db, path))), tm.Implies(tm.Not(isn), some)))


# ---------------------------------------------------------------- _check_declaration


def _creator_arg(args):
    """`creator: Node | str`: a node of the graph, or the phrase of a creator that is not in the graph."""
    c = cur()
    if c.fork(c.fresh("creator.is_node", BOOL)):
        return fresh_node(Node, args["self"], "creator")
    return ty.Str.fresh("creator.phrase")


def same_claim(db, path, creator, role) -> tm.T:
    """The claim on `path` is the one `creator` makes in `role`."""
    if not isinstance(creator, sym.SymObj):
        return tm.FALSE  # a phrase names a creator that is not in the graph: it holds no claim
    v = View(db)
    return tm.And(tm.Eq(v.role(path), I(role)), tm.Eq(v.creator(path), I(creator.i)))


Decl = wfmod.Decl


@contract("stepup/core/workflow.py::Decl.from_node", props=[], verify=False,
          note="describes a declaration for an error message; pure")
class decl_from_node:
    impl = lambda cls, role, creator: sym.SymObj(Decl, dict(role=role, creator="phrase", authored=True), name="Decl", frozen=True)


@contract("stepup/core/workflow.py::_claim_collision_message", props=[], verify=False,
          note="formats the error text; raises ConsistencyError instead when a static declaration meets a claim held "
               "by a static tree")
class claim_collision_message:
    may_raise = {ConsistencyError: None}
    result = ty.Str
    modifies = []


def conflicting_claim(self, creator, path, role):
    """Spec (from the property): some other declaration claims the path -- any claim that is not `creator`'s own
    in the same role."""
    db = db_of(self)
    return wrap_bool(tm.And(claimed(db, path), tm.Not(same_claim(db, path, creator, role))))


@contract("stepup/core/workflow.py::Workflow._check_declaration", props=["C08"])
class check_declaration:
    """True exactly when nothing claims the path, False exactly when `creator` already claims it in `role`,
    an error for every other claim (any other creator, or any other role)."""

    args = dict(self=_wf, creator=_creator_arg, path=ty.Str, role=ty.EnumOf(FileRole))
    may_raise = {GraphError: conflicting_claim, ConsistencyError: conflicting_claim}
    result = ty.Bool
    modifies = []

    @staticmethod
    def ensures(self, creator, path, role, result):
        db = db_of(self)
        r = B(result)
        return wrap_bool(tm.And(tm.Iff(r, tm.Not(claimed(db, path))),
                                tm.Implies(tm.Not(r), same_claim(db, path, creator, role))))


# ---------------------------------------------------------------- _raise_if_step_exists

STEP = tm.mk_str("step")


def WS(db, label) -> tm.T:
    """Ghost choice function: the attached step node with this label, if there is one."""
    return db.fact("stepnode", label, sort=INT)


def is_step(db, i, label) -> tm.T:
    return tm.And(nexists(db, i), tm.Eq(ncol(db, "kind", i), STEP), tm.Not(ncol(db, "detached", i)),
                  tm.Eq(ncol(db, "label", i), S(label)))


def step_exists(db, label) -> tm.T:
    return View(db).step_exists(label)


def step_axioms(db, label, *ids):
    c = cur()
    c.pc.append(schema_invariants(db, WS(db, label), *ids))
    c.pc.append(tm.Iff(step_exists(db, label), is_step(db, WS(db, label), label)))
    for i in ids:
        c.pc.append(tm.Implies(is_step(db, I(i), label), step_exists(db, label)))


def _step_witness(keys, args, row):
    step_axioms(cur().data["cursor"].db, args[0], keys["node"])


def _step_none_keys(args):
    db = cur().data["args"]["self"]._fields["db"]
    step_axioms(db, args[0])
    w = WS(db, args[0])
    return [{"node": w, "node#2": creator_t(db, w)}]


STEP_QUERY = graphdb.query("SELECT cnode.kind, cnode.label FROM node JOIN node AS cnode", ty.TupleOf(ty.Str, ty.Str),
                           witness=_step_witness, none_keys=_step_none_keys)
MSG_ENV = dict(_creator_phrase=lambda *a: "creator", _duplicate_step_message=lambda *a: "message")


@contract("stepup/core/workflow.py::Workflow._raise_if_step_exists", props=["C08"])
class raise_if_step_exists:
    """Rejected exactly when an attached step with this label exists (whoever created it)."""

    args = dict(self=lambda a: workflow_spec([STEP_QUERY]).fresh("workflow"), creator=common.node_spec(Step),
                step_label=ty.Str)
    env = MSG_ENV
    raises = {GraphError: lambda self, step_label: wrap_bool(step_exists(db_of(self), step_label))}
    modifies = []


# ---------------------------------------------------------------- _declare_file

from contracts.C18_under import OT, owned, owner_axiom, owns_t  # noqa: E402

DECLARABLE = (FileState.UNCONFIRMED, FileState.PLANNED, FileState.VOLATILE)
FORBIDDEN_FOR_TARGETS = tuple(s for s in FileState if ROLE_BY_STATE.get(s) in (FileRole.STATIC, FileRole.VOLATILE))


def _file_creator(args):
    """The declaring node: a step (or the root / another node kind), or a static tree."""
    c = cur()
    if c.fork(c.fresh("creator.is_tree", BOOL)):
        return fresh_node(StaticTree, args["self"], "creator")
    return fresh_node(Step, args["self"], "creator")


@contract("stepup/core/trellis.py::Node.sinks", props=[], verify=False, note="the nodes this node supplies (database read)")
class node_sinks:
    result = lambda self: ty.SeqOf(ty.Make(lambda n: any_node(self.graph, "sink")))
    modifies = []


@contract("stepup/core/trellis.py::Node.add_source", props=[], verify=False,
          note="adds a dependency edge source -> this node; returns the edge id; changes only database tables")
class node_add_source:
    result = ty.Int
    modifies = []

    @staticmethod
    def assume_post(self, source, result):
        """Effect on the abstract declaration view: inserting a dependency edge changes no claim, step label, tree or glob
        registration (the view is a function of the node / file / nglob tables, which the statement does not write)."""
        db = db_of(self)
        old = View(db.__snapshot__())
        db.bump()
        return wrap_bool(common.frame_view(old, View(db)))  # an edge changes no claim, label, tree or glob


@contract("stepup/core/workflow.py::Workflow.watch_dir", props=[], verify=False,
          note="queues a directory for watching; no effect on the stored graph")
class watch_dir:
    modifies = []


def _is_target(self, path) -> tm.T:
    t = self._fields.get("targets")
    if t is None:  # a workflow object whose target set the verified function never reads
        return cur().decls.fun("wf.is_target", [STR], BOOL)(S(path))
    return B(t.__contains__(path))


def declarable(self, creator, path, file_state) -> tm.T:
    """Spec (from the property and the docstring of the real function): a file node may be created for `path`
    in `file_state` by `creator` only if the state is a declarable one, a volatile output is not a directory, no
    static tree of another owner covers the path, a build target does not become static or volatile, and the
    path is not inside .stepup/."""
    db = db_of(self)
    st = I(file_state)
    is_tree = isinstance(creator, sym.SymObj) and creator._cls is StaticTree
    return tm.And(
        tm.Or(*[tm.Eq(st, tm.mk_int(s.value)) for s in DECLARABLE]),
        tm.Not(tm.And(tm.Eq(st, tm.mk_int(FileState.VOLATILE.value)), tm.SuffixOf(tm.mk_str("/"), S(path)))),
        tm.mk_bool(is_tree) if is_tree else tm.Not(owned(db, path)),
        tm.Not(tm.And(_is_target(self, path),
                      tm.Or(*[tm.Eq(st, tm.mk_int(s.value)) for s in FORBIDDEN_FOR_TARGETS]))),
        tm.Not(tm.PrefixOf(tm.mk_str(".stepup/"), S(path))))


def _df_create_guard(e, self, creator, path, file_state):
    c = cur()
    same = tm.And(tm.mk_bool(e.node_type is File), tm.mk_bool(e.creator is creator), tm.Eq(S(e.label), S(path)),
                  tm.Eq(I(e.kwargs.get("state")), I(file_state)) if getattr(e, "kwargs", None) else tm.TRUE)
    return wrap_bool(tm.And(same, declarable(self, creator, path, file_state)))


def _df_finish(c, outcome, args, old):
    creates = [e for e in c.trace if e.kind == "create"]
    if outcome[0] == "return":
        c.prove("created_exactly_once", tm.mk_bool(len(creates) == 1), kind="trace")
        if creates:
            c.prove("returns_the_created_node", tm.mk_bool(outcome[1] is creates[0].node), kind="trace")
    else:
        c.prove("at_most_one_create", tm.mk_bool(len(creates) <= 1), kind="trace")


def _df_wf(args):
    from contracts.C18_under import _fost_query

    return workflow_spec([_fost_query()], targets=ty.SetOf(ty.Str)).fresh("workflow")


@contract("stepup/core/workflow.py::Workflow._declare_file", props=["C08"])
class declare_file:
    """The file node is created only for a declarable (path, state, creator); exactly one node is created on
    success.  (Whether another declaration claims the path is the caller's _check_declaration.)"""

    args = dict(self=_df_wf, creator=_file_creator, path=ty.Str, file_state=ty.EnumOf(FileState))
    env = dict(Path=trusted.Path, _static_tree_file_message=lambda *a: "message",
               _static_tree_product_message=lambda *a: "message")
    may_raise = {GraphError: None, ConsistencyError: None}
    events = {"create": _df_create_guard}
    finish = _df_finish
    result = lambda self: ty.Make(lambda n: fresh_node(File, self, "file"))
    modifies = []

    # the caller has checked the claim (_check_declaration) and, for a product, the registered globs
    # (_raise_if_glob_match): "This does not check whether another declaration already claims `path`"
    # a path under an attached static tree may already be claimed by the tree (an input adopted by it): the
    # function then refuses a step as creator before it creates anything
    requires = lambda self, creator, path, file_state: wrap_bool(tm.And(
        tm.Or(tm.Not(claimed(db_of(self), path)), tm.And(View(db_of(self)).owned(path), tm.Not(is_tree_t(creator)))),
        tm.Implies(tm.Or(tm.Eq(I(file_state), tm.mk_int(FileState.PLANNED.value)),
                         tm.Eq(I(file_state), tm.mk_int(FileState.VOLATILE.value))),
                   tm.Not(View(db_of(self)).globmatch(path)))))

    @staticmethod
    def ensures(self, old, creator, path, file_state, result):
        """The request was declarable in the graph as it was at the call; afterwards `creator` claims `path` in the
        role of `file_state` (when the creator is attached) and no other claim, step label or tree changed."""
        db = db_of(self)
        if cur().data.get("active") != "stepup/core/workflow.py::Workflow._declare_file":
            db.bump()  # stub use: the graph has changed
        ov, nv = View(db_of(old.self)), View(db)
        att = tm.Not(ov.db.fact("detached", creator.i))
        return wrap_bool(tm.And(
            declarable(old.self, creator, path, file_state),
            tm.Implies(att, tm.And(nv.claimed(path), tm.Eq(nv.role(path), role_of_state(I(file_state))),
                                   tm.Eq(nv.creator(path), I(creator.i)))),
            tm.Implies(tm.Not(att), common.same_claim_view(ov, nv, path)),
            common.frame_view(ov, nv, changed_path=path),
            tm.Eq(S(result.label), S(path))))


# ---------------------------------------------------------------- declare_static_files


def is_tree_t(node) -> tm.T:
    f = node._fields.get("is_tree")
    if f is not None:
        return B(f)
    return tm.mk_bool(node._cls is StaticTree)


class _DeclarerSpec(ty.Rec):
    """A declaring node stored in a list: id, label and whether it is a static tree."""

    def arr_store(self, state, kt, value):
        vals = dict(i=value.i, label=value.label, is_tree=wrap_bool(is_tree_t(value)))
        return {f: s.arr_store(state[f], kt, vals[f]) for f, s in self.fields.items()}


DeclarerRec = _DeclarerSpec(Node, dict(i=ty.Int, label=ty.Str, is_tree=ty.Bool), name="Node")
ToDeclare = ty.SeqOf(ty.TupleOf(DeclarerRec, ty.Str))
extract.COMP_AS_LOOP.add("stepup/core/workflow.py::Workflow.declare_static_files")


def _index_of(paths_seq, p: tm.T) -> tm.T:
    has = paths_seq.container.has
    return cur().decls.fun("index_String", [has.sort, STR], INT)(has, p)


def entitled(db, creator, d, p) -> tm.T:
    """Spec (from the property: a static tree exclusively owns every path beneath it): the declaring node is
    the requesting creator itself, on a path no tree covers (or the creator is a tree); or it is an attached
    tree that covers the path and was created by the requesting creator."""
    own = tm.And(tm.Eq(I(d.i), I(creator.i)), tm.Iff(is_tree_t(d), is_tree_t(creator)),
                 tm.Or(is_tree_t(creator), tm.Not(View(db).owned(p))))
    handed = tm.And(is_tree_t(d), tm.Not(is_tree_t(creator)), owns_t(db, d.i, p),
                    tm.Eq(creator_t(db, d.i), I(creator.i)), tm.Not(graphdb.column(db, "node", "creator", I(d.i)).null))
    return tm.Or(own, handed)


def _dsf_inv0(e):
    """to_declare[k] = (declarer, path): an unclaimed member of `paths` before position i, declared by an
    entitled node; positions ascend with k (so the paths are distinct)."""
    if not isinstance(e.to_declare, sym.SymSeq):
        return True
    db = db_of(e.entry.self)
    k = I(e.q.k)
    d, p = e.to_declare.elem(k)
    m = I(e.q.m)
    later = e.to_declare.elem(m)[1]
    inr = tm.And(tm.Le(tm.mk_int(0), k), tm.Lt(k, e.to_declare.length))
    idx = _index_of(e.paths, S(p))
    body = tm.And(tm.Not(claimed(db, p)), entitled(db, e.entry.creator, d, p),
                  tm.Select(e.paths.container.has, S(p), BOOL), tm.Le(tm.mk_int(0), idx), tm.Lt(idx, I(e.i)),
                  tm.Implies(tm.And(tm.Lt(k, m), tm.Lt(m, e.to_declare.length)), tm.Lt(idx, _index_of(e.paths, S(later)))))
    # every path processed so far that is already claimed is claimed in the static role
    pj = e.paths.elem(k)
    seen = tm.Implies(tm.And(tm.Le(tm.mk_int(0), k), tm.Lt(k, I(e.i)), claimed(db, pj)),
                      tm.Eq(View(db).role(pj), tm.mk_int(FileRole.STATIC.value)))
    return [tm.Implies(inr, body), seen]


def _dsf_inv1(e):
    """Before declaring to_declare[i]: the remaining entries are still unclaimed and their declarers entitled;
    claims on paths outside `paths` are as they were at the call."""
    db = db_of(e.self)
    db0 = db_of(e.old.self)
    k = I(e.q.k)
    d, p = e.to_declare.elem(k)
    m = I(e.q.m)
    later = e.to_declare.elem(m)[1]
    inr = tm.And(tm.Le(I(e.i), k), tm.Lt(k, e.to_declare.length))
    idx = _index_of(e.paths, S(p))
    rest = tm.And(tm.Not(claimed(db, p)), tm.Or(is_tree_t(d), tm.Not(View(db).owned(p))),
                  tm.Select(e.paths.container.has, S(p), BOOL),
                  tm.Implies(tm.And(tm.Lt(k, m), tm.Lt(m, e.to_declare.length)), tm.Lt(idx, _index_of(e.paths, S(later)))))
    q = S(e.q.p)
    ov, nv = View(db0), View(db)
    outside = tm.Implies(tm.Not(tm.Select(e.paths.container.has, q, BOOL)),
                         tm.And(tm.Iff(nv.claimed(q), ov.claimed(q)), tm.Eq(nv.role(q), ov.role(q)),
                                tm.Eq(nv.creator(q), ov.creator(q))))
    from vc import vcrt

    vcrt.index_of(e.paths.container, e.q.p)  # instance: a member sits at its position in the sorted enumeration
    static = tm.Implies(tm.And(tm.Select(e.paths.container.has, q, BOOL), nv.claimed(q)),
                        tm.Eq(nv.role(q), tm.mk_int(FileRole.STATIC.value)))
    return [tm.Implies(inr, rest), outside, static]


def _dsf_wf(args):
    return workflow_spec([]).fresh("workflow")


def _dsf_creator(args):
    o = _file_creator(args)
    return o


@contract("stepup/core/workflow.py::Workflow.declare_static_files", props=["C08"])
class declare_static_files:
    """Every file node is created for a path that nothing claims, by the requesting creator or (handover) by a
    tree of that creator which covers the path; a path inside another creator's tree is rejected; claims on
    paths that are not in the request do not change."""

    # `paths` is only read through set(paths): the collection is modelled by its set of elements
    args = dict(self=_dsf_wf, creator=_dsf_creator, paths=ty.SetOf(ty.Str))
    env = dict(_static_tree_file_message=lambda *a: "message")
    may_raise = {GraphError: None, ConsistencyError: None}
    result = lambda: ty.MapOf(ty.Str, ty.Opaque("FileHashV"))
    modifies = []
    loops = {0: LoopSpec(locals=dict(to_declare=ToDeclare), forall=dict(k=ty.Int, m=ty.Int), invariant=_dsf_inv0),
             1: LoopSpec(locals=dict(unconfirmed=ty.SeqOf(ty.Make(lambda n: fresh_node(File, None, "file")))),
                         forall=dict(k=ty.Int, m=ty.Int, p=ty.Str), invariant=_dsf_inv1, havoc=("self",),
                         modifies={"self": ["db"]})}

    @staticmethod
    def ensures(self, old, paths, result):
        c = cur()
        db = db_of(self)
        if c.data.get("active") != "stepup/core/workflow.py::Workflow.declare_static_files":
            db.bump()
        ov, nv = View(db_of(old.self)), View(db)
        if not isinstance(sym.resolve(paths), sym.SymSet):
            return True  # a caller that passes a list learns nothing about which claims changed
        v = tm.Var(c.fresh_name("p!bound"), STR)
        member = B(paths.__contains__(sym.wrap_str(v)))
        body = tm.And(tm.Implies(tm.Not(member), tm.And(tm.Iff(nv.claimed(v), ov.claimed(v)), tm.Eq(nv.role(v), ov.role(v)),
                                                        tm.Eq(nv.creator(v), ov.creator(v)))),
                      tm.Implies(tm.And(member, nv.claimed(v)), tm.Eq(nv.role(v), tm.mk_int(FileRole.STATIC.value))))
        return wrap_bool(tm.ForAll([(v.s, STR)], body, patterns=[[nv.claimed(v)], [nv.role(v)], [nv.creator(v)]]))


# ---------------------------------------------------------------- _raise_if_glob_match


def fullmatch_t(regex, path) -> tm.T:
    """re.compile(regex).fullmatch(path) is not None (uninterpreted: the regular expression engine is trusted)."""
    return cur().decls.fun("re.fullmatch", [STR, STR], BOOL)(S(regex), S(path))


class _MatchResult:
    """What fullmatch returns: a match object or None.  Only its truth value and `is None` are used."""

    def __init__(self, t):
        self.t = t

    def __symtruth__(self):
        return self.t

    def __bool__(self):
        return cur().fork(self.t)

    def __symisnone__(self):
        return tm.Not(self.t)


class _Compiled:
    def __init__(self, regex):
        self.regex = regex

    def fullmatch(self, path):
        return _MatchResult(fullmatch_t(self.regex, path))


class ReStub:
    compile = staticmethod(lambda regex: _Compiled(regex))


trusted.trusted("re: compile(r).fullmatch(p) is a function of (r, p); whether convert_nglob_to_regex renders the "
                "pattern's meaning is C17's concern")


def GW(db, path) -> tm.T:
    """Ghost choice function: a row of the nglob table whose attached registration matches `path`, if any."""
    return db.fact("globrow", path, sort=INT)


def is_glob_match(db, g, path) -> tm.T:
    g = I(g)
    n = graphdb.val(db, "nglob", "node", g)
    return tm.And(graphdb.exists(db, "nglob", g), nexists(db, n), tm.Not(ncol(db, "detached", n)),
                  fullmatch_t(graphdb.val(db, "nglob", "regex", g), path))


def glob_axioms(db, path, *rows):
    """Definition of View.globmatch at `path`, and the choice axiom for the given nglob rows."""
    c = cur()
    v = View(db)
    c.pc.append(tm.Iff(v.globmatch(path), is_glob_match(db, GW(db, path), path)))
    for g in rows:
        c.pc.append(tm.Implies(is_glob_match(db, g, path), v.globmatch(path)))


def _gm_complete_keys(args):
    c = cur()
    db = c.data["args"]["self"]._fields["db"]
    p0 = c.data["ghost"].p0
    glob_axioms(db, p0)
    g = GW(db, p0)
    return [dict(nglob=g, node=graphdb.val(db, "nglob", "node", g))]


GLOB_ROWS_QUERY = graphdb.query("SELECT node.label, nglob.pattern, nglob.regex FROM nglob", ty.TupleOf(ty.Str, ty.Str, ty.Str),
                                complete_keys=_gm_complete_keys)


def _gm_member(product_paths, p) -> tm.T:
    from vc import vcrt

    pp = sym.resolve(product_paths)
    if isinstance(pp, sym.SymSeq):
        return vcrt.seq_member_t(pp, p)
    return B(pp.__contains__(p))


def _gm_inv0(e):
    """No registration seen so far matches the (arbitrary) product path p0."""
    p0 = e.ghost.p0
    j = I(e.q.j)
    regex_j = e.seq.elem(j)[2]
    return wrap_bool(tm.Implies(tm.And(tm.Le(tm.mk_int(0), j), tm.Lt(j, I(e.i)), _gm_member(e.entry.product_paths, p0)),
                                tm.Not(fullmatch_t(regex_j, p0))))


def _gm_inv1(e):
    """The current registration does not match p0 if p0 comes before position i of the sorted product paths."""
    from vc import vcrt

    p0 = e.ghost.p0
    idx = vcrt.index_of(e.entry.product_paths, p0)
    return wrap_bool(tm.Implies(tm.And(_gm_member(e.entry.product_paths, p0), tm.Lt(idx, I(e.i))),
                                tm.Not(fullmatch_t(e.regex, p0))))


def _gm_raise_cond(self, product_paths):
    """Rejected only if some attached registration matches one of the product paths."""
    c = cur()
    db = db_of(self)
    lp = c.data.get("loops", {})
    if 1 not in lp or 0 not in lp:
        return False
    path = lp[1].current
    row_key = tm.Select(lp[0].seq.cursor.key_arrays["nglob"], lp[0].i, INT)  # the nglob row being tested
    glob_axioms(db, path, row_key)
    # C02 (the text of the rejection does not depend on the arrival order): the path named in the message is the
    # *least* product path the registration matches -- the one register_nglob names when the glob arrives second
    # (ORDER BY node.label LIMIT 1).  At the arbitrary product path p0: if the registration matches it, it does not come
    # before the reported path in the ascending order of the product paths.
    from vc import vcrt

    p0 = c.data["ghost"].p0
    regex_cur = lp[0].seq.elem(lp[0].i)[2]
    least = tm.Implies(tm.And(_gm_member(product_paths, p0), fullmatch_t(regex_cur, p0)),
                       tm.Ge(vcrt.index_of(product_paths, p0), I(lp[1].i)))
    return wrap_bool(tm.And(_gm_member(product_paths, path), View(db).globmatch(path), least))


def _mag_complete_keys(args):
    c = cur()
    db = c.data["args"]["self"]._fields["db"]
    p = c.data["args"]["path"]
    glob_axioms(db, p)
    g = GW(db, p)
    return [dict(nglob=g, node=graphdb.val(db, "nglob", "node", g))]


MAG_QUERY = graphdb.query("SELECT nglob.regex FROM nglob JOIN node", ty.TupleOf(ty.Str), complete_keys=_mag_complete_keys)


def _mag_post(self, path, result):
    """True exactly when some attached registration's stored regular expression matches the whole path."""
    c = cur()
    db = db_of(self)
    glob_axioms(db, path)
    g = tm.Var(c.fresh_name("g!bound"), INT)
    c.pc.append(tm.ForAll([(g.s, INT)], tm.Implies(is_glob_match(db, g, path), View(db).globmatch(path)),
                          patterns=[[graphdb.val(db, "nglob", "regex", g)]]))
    return wrap_bool(tm.Iff(B(result), View(db).globmatch(path)))


@contract("stepup/core/workflow.py::Workflow.matches_any_glob", props=["C17", "C08"])
class matches_any_glob:
    args = dict(self=lambda a: workflow_spec([MAG_QUERY]).fresh("workflow"), path=ty.Str)
    env = dict(re=ReStub)
    ensures = _mag_post
    result = ty.Bool
    modifies = []


@contract("stepup/core/workflow.py::Workflow._raise_if_glob_match", props=["C08", "C17"])
class raise_if_glob_match:
    """Returns normally only if no attached glob registration matches any of the product paths; raises only if
    one does."""

    args = dict(self=lambda a: workflow_spec([GLOB_ROWS_QUERY]).fresh("workflow"), step_label=ty.Str,
                product_paths=ty.SetOf(ty.Str))
    ghost = dict(p0=ty.Str)
    env = dict(re=ReStub, _glob_product_message=lambda *a: "message")
    may_raise = {GraphError: _gm_raise_cond}
    modifies = []
    loops = {0: LoopSpec(forall=dict(j=ty.Int), invariant=_gm_inv0),
             1: LoopSpec(invariant=_gm_inv1)}
    partial_props = {"C02": ["loop1", "raise.GraphError"]}

    @staticmethod
    def ensures(self, product_paths, ghost):
        from vc import vcrt

        db = db_of(self)
        pp = sym.resolve(product_paths)
        if isinstance(pp, sym.SymSeq) and cur().data.get("active") != "stepup/core/workflow.py::Workflow._raise_if_glob_match":
            # stub use with a list: the postcondition holds for every p0, hence for every element
            c = cur()

            def parts(q):
                ps = getattr(q, "parts", None)
                return [q] if not ps else [x for part in ps for x in parts(part)]

            facts = []
            for part in parts(pp):  # a concatenation: one quantified fact per operand
                jv = tm.Var(c.fresh_name("j!bound"), INT)
                n0 = len(c.pc)
                c.nofork += 1
                try:
                    x = part.elem(jv)
                finally:
                    c.nofork -= 1
                side = c.pc[n0:]
                del c.pc[n0:]
                facts.append(tm.ForAll([(jv.s, INT)], tm.Implies(
                    tm.And(tm.Le(tm.mk_int(0), jv), tm.Lt(jv, part.length), *side), tm.Not(View(db).globmatch(x)))))
            return wrap_bool(tm.And(*facts))
        glob_axioms(db, ghost.p0)
        if isinstance(sym.resolve(product_paths), sym.SymSet):
            vcrt.index_of(product_paths, ghost.p0)  # instance: a member has a position below the element count
        return wrap_bool(tm.Implies(_gm_member(product_paths, ghost.p0), tm.Not(View(db).globmatch(ghost.p0))))


# ---------------------------------------------------------------- register_nglob

nglobmod = extract.import_module("stepup/core/nglob.py")
NamedGlob = nglobmod.NamedGlob
PRODUCT_ROLES = (FileRole.OUTPUT, FileRole.VOLATILE)


def is_product(db, path) -> tm.T:
    """Spec: an attached file node claims the path as a step output or volatile output."""
    v = View(db)
    return tm.And(v.claimed(path), tm.Or(*[tm.Eq(v.role(path), tm.mk_int(r.value)) for r in PRODUCT_ROLES]))


def regex_of(ng) -> tm.T:
    """convert_nglob_to_regex(ng.pattern, ng.subs): a function of the pattern and its substitutions (C17)."""
    return S(ng._fields["regex"])


def _ng_arg(args):
    c = cur()
    files = ty.SeqOf(PathStr).fresh("ng.files")
    return sym.SymObj(NamedGlob, dict(_pattern=ty.Str.fresh("ng.pattern"), _subs=ty.Opaque("Subs").fresh("ng.subs"),
                                      files_=files, regex=ty.Str.fresh("ng.regex")), name="NamedGlob", frozen=True)


@contract("stepup/core/nglob.py::NamedGlob.files", props=[], verify=False,
          note="the recorded matches, sorted, without duplicates; every recorded match is matched by the pattern's "
               "regular expression (NamedGlob.extend only records such paths; C17)")
class ng_files:
    impl = lambda self: self._fields["files_"]


@contract("stepup/core/nglob.py::convert_nglob_to_regex", props=[], verify=False,
          note="the regular expression of a named glob pattern: a function of (pattern, subs) (C17)")
class convert_regex:
    impl = lambda pattern, subs, *a, **k: cur().data["args"]["ng"]._fields["regex"]


@contract("stepup/core/step.py::Step.add_nglob", props=[], verify=False,
          note="inserts the registration (node, pattern, regex, data) into the nglob table.  View: afterwards a path "
               "is matched by an attached registration iff it was before or (the step being attached) the new "
               "pattern's regular expression matches it; nothing else changes")
class step_add_nglob:
    modifies = []

    @staticmethod
    def ensures(self, ng):
        c = cur()
        db = db_of(self)
        c.event("add_nglob", step=self, ng=ng)
        old = View(db.__snapshot__())
        db.bump()
        new = View(db)
        att = tm.Not(old.db.fact("detached", self.i))
        v = tm.Var(c.fresh_name("p!bound"), STR)
        body = tm.Iff(new.globmatch(v), tm.Or(old.globmatch(v), tm.And(att, fullmatch_t(regex_of(ng), v))))
        return wrap_bool(tm.And(tm.ForAll([(v.s, STR)], body, patterns=[[new.globmatch(v)]]),
                                common.frame_view(old, new, globs_changed=True)))


@contract("stepup/core/workflow.py::Workflow.watch_nglob_dirs", props=[], verify=False,
          note="hands directories to the watcher; no effect on the stored graph")
class watch_nglob_dirs:
    modifies = []


def _reported_t(db, x: tm.T) -> tm.T:
    """x is a row of the temporary table path_list (as last filled)."""
    return cur().decls.fun(f"db.path_list.has.v{db.version}", [STR], BOOL)(x)


def _rn_subquery(e, select, keys):
    """`label IN (SELECT path FROM path_list)`."""
    if e[0] != "in_select" or sqlfront.normalize(sqlfront.show(e[2])).upper() != "SELECT PATH FROM PATH_LIST":
        return None
    c = cur()
    cu = c.data["cursor"]
    left = select.translator(cu.db, keys, cu.args, subquery=lambda e2: None).ev(e[1])
    return sqlfront.Val(_reported_t(cu.db, left.t), "bool", left.null)


def _rn_many(e, ng):
    """executemany("INSERT INTO path_list VALUES (?)", ((path,) for path in paths)) after DELETE FROM path_list:
    the table holds exactly the recorded matches (trusted reading of the two statements)."""
    c = cur()
    if "path_list" not in e.norm:
        return True
    files = ng._fields["files_"]
    j = c.data["ghost"].j
    db = e.db
    c.pc.append(tm.Implies(tm.And(tm.Le(tm.mk_int(0), I(j)), tm.Lt(I(j), files.length)),
                           _reported_t(db, S(files.elem(I(j))))))
    return True


PRODUCT_ROW_QUERY_PREFIX = "SELECT node.label, creator.label FROM node JOIN file"


def _rn_none_keys(args):
    """No-row fact for the attached file node (if any) labelled with the j-th recorded match."""
    c = cur()
    a = c.data["args"]
    db = c.data["cursor"].db
    files = a["ng"]._fields["files_"]
    p = files.elem(I(c.data["ghost"].j))
    axioms(db, p)
    w = W(db, p)
    return [dict(node=w, file=w)]


def _rn_query():
    return graphdb.query(PRODUCT_ROW_QUERY_PREFIX, ty.TupleOf(ty.Str, ty.Opt(ty.Str)), none_keys=_rn_none_keys,
                         subquery=_rn_subquery)


def _rn_finish(c, outcome, args, old):
    adds = [e for e in c.trace if e.kind == "add_nglob"]
    if outcome[0] == "return":
        c.prove("registered_exactly_once", tm.mk_bool(len(adds) == 1 and adds[0].ng is args["ng"]
                                                      and adds[0].step is args["step"]), kind="trace")
    elif outcome[0] == "raise":
        c.prove("nothing_registered_when_rejected", tm.mk_bool(len(adds) == 0), kind="trace")


def _rn_files_fact(args):
    """Class invariant of NamedGlob: recorded matches are matched by the pattern (assumed, C17)."""
    c = cur()
    ng = args["ng"]
    files = ng._fields["files_"]
    j = I(c.data["ghost"].j)
    c.pc.append(tm.Implies(tm.And(tm.Le(tm.mk_int(0), j), tm.Lt(j, files.length)),
                           fullmatch_t(regex_of(ng), S(files.elem(j)))))


def _rn_recorded(ng, ghost):
    files = ng._fields["files_"]
    j = I(ghost.j)
    return tm.And(tm.Le(tm.mk_int(0), j), tm.Lt(j, files.length)), files.elem(j)


@contract("stepup/core/workflow.py::Workflow.register_nglob", props=["C08"])
class register_nglob:
    """A registration is accepted only if the pattern matches no path that a step builds (attached output or
    volatile output) and no recorded match lies under .stepup/; it is then recorded exactly once."""

    args = dict(self=lambda a: workflow_spec([_rn_query()]).fresh("workflow"), step=common.node_spec(Step), ng=_ng_arg)
    ghost = dict(j=ty.Int, p0=ty.Str)
    setup = _rn_files_fact
    may_raise = {GraphError: None}
    env = dict(_glob_product_message=lambda *a: "message", re=ReStub)
    events = {"sql.many": lambda e, ng: _rn_many(e, ng)}
    finish = _rn_finish
    loops = {0: LoopSpec(invariant=lambda e: wrap_bool(tm.Implies(
        tm.And(tm.Le(tm.mk_int(0), I(e.ghost.j)), tm.Lt(I(e.ghost.j), I(e.i))),
        tm.Not(tm.PrefixOf(tm.mk_str(".stepup/"), S(e.seq.elem(I(e.ghost.j))))))))}
    modifies = []

    ensures_named = {
        "no_recorded_match_is_a_product": lambda old, ng, ghost: wrap_bool(tm.Implies(
            _rn_recorded(ng, ghost)[0], tm.Not(is_product(db_of(old.self), _rn_recorded(ng, ghost)[1])))),
        "no_recorded_match_under_stepup_dir": lambda ng, ghost: wrap_bool(tm.Implies(
            _rn_recorded(ng, ghost)[0],
            tm.Not(tm.PrefixOf(tm.mk_str(".stepup/"), S(_rn_recorded(ng, ghost)[1]))))),
        # the property's sentence: "a glob pattern never matches a path that a step builds"
        "no_attached_product_is_matched_by_the_pattern": lambda old, ng, ghost: wrap_bool(tm.Implies(
            is_product(db_of(old.self), ghost.p0), tm.Not(fullmatch_t(regex_of(ng), ghost.p0)))),
    }


@replayer("C08/Workflow.register_nglob/post.no_attached_product_is_matched_by_the_pattern")
def replay_f3(o):
    """The counter-model is "an attached product p0 that the pattern's regular expression matches and that is not
    among the recorded matches": the committed history specs/replay/F3_glob_after_planned_output.py reaches it
    through the Workflow API (a planned output that is not on disk yet), and shows the other order rejected."""
    import os
    import subprocess

    from vc.report import VERIF, model_of

    script = os.path.join(VERIF, "specs", "replay", "F3_glob_after_planned_output.py")
    r = subprocess.run(["/venv/bin/python", script], cwd=extract.REPO, capture_output=True, text=True,
                       env={"PYTHONPATH": extract.REPO, "PATH": "/usr/bin:/bin"})
    m = model_of(o, ["ghost.p0", "ng.regex", "ng.files.len"]) or {}
    return dict(reproduced=r.returncode == 1, python=open(script).read(), output=(r.stdout + r.stderr)[-1500:],
                witness=dict(model=m, history="output out.txt declared (PLANNED, not on disk), then glob *.txt "
                                              "registered with no recorded match",
                             claim="register_nglob accepts although the pattern matches an attached product"))


# ---------------------------------------------------------------- register_static_tree

from contracts.C18_under import _fresh_bool, _norm_dir, _pattern_facts, _rst_finish, _rst_site  # noqa: E402

ST = tm.mk_str("st")
STATIC_STATES = enums.FILE_STATES_BY_ROLE[FileRole.STATIC]


def _rst_dir(path) -> tm.T:
    return _norm_dir(S(path))


def _rst_pattern_fact(label_t: tm.T):
    """Instance at `label_t` of prefix_clause's postcondition for the pattern bound in this function."""
    c = cur()
    for cu_args in c.data.get("C08.rst_params", []):
        for f in _pattern_facts(label_t, cu_args, c.data.get("patterns", {})):
            c.pc.append(f)


def _rst_remember_params(args):
    cur().data.setdefault("C08.rst_params", []).append(args)


def _rst_tree_none_keys(args):
    """No-row fact of the scan for trees below the new one, for the arbitrary tree t0."""
    c = cur()
    _rst_remember_params(args)
    db = c.data["cursor"].db
    t0 = I(c.data["ghost"].t0)
    _rst_pattern_fact(ncol(db, "label", t0))
    return [dict(node=t0)]


def _rst_files_complete(args):
    """Completeness of the scan over the attached files below the new tree, for the arbitrary file node f0."""
    c = cur()
    _rst_remember_params(args)
    db = c.data["cursor"].db
    f0 = I(c.data["ghost"].f0)
    _rst_pattern_fact(ncol(db, "label", f0))
    return [dict(node=f0, file=f0)]


RST_QUERIES = [
    graphdb.query("SELECT 1 FROM node WHERE kind = 'st'", ty.TupleOf(ty.Int), none_keys=_rst_tree_none_keys),
    graphdb.query("SELECT node.i, node.label, node.creator, file.state", ty.TupleOf(ty.Int, ty.Str, ty.Int, ty.Int),
                  complete_keys=_rst_files_complete),
    ("SELECT label FROM node JOIN file", ty.TupleOf(ty.Str)),
]


def _static_state_t(st: tm.T) -> tm.T:
    return tm.Or(*[tm.Eq(st, tm.mk_int(s.value)) for s in STATIC_STATES])


def _rst_inv0(e):
    """Every attached file below the new tree seen so far is a static file declared by the requesting creator."""
    j = I(e.q.j)
    row = e.seq.elem(j)
    return wrap_bool(tm.Implies(tm.And(tm.Le(tm.mk_int(0), j), tm.Lt(j, I(e.i))),
                                tm.And(_static_state_t(I(row[3])), tm.Eq(I(row[2]), I(e.entry.creator.i)))))


def _rst_create_guard(e, self, creator, path):
    """Spec (from the property: a static tree exclusively owns every path beneath it): the tree node is created
    only if no attached tree covers its directory, no attached tree lies below it, and every attached file
    below it is a static file declared by the same creator (which the tree then takes over)."""
    if e.node_type is not StaticTree:
        return True
    c = cur()
    db = db_of(self)
    d = _rst_dir(path)
    t0, f0 = I(c.data["ghost"].t0), I(c.data["ghost"].f0)
    lp = c.data.get("loops", {}).get(0)
    if lp is not None and getattr(lp.seq, "cursor", None) is not None:
        for pos in getattr(lp.seq.cursor, "positions", []):
            lp.seq.elem(pos)  # the row at the position completeness names: its row fact
    no_cover = tm.Not(View(db).owned(wrap_str(d)))  # the lookup is made for the directory Path(path)/""
    no_tree_below = tm.Not(tm.And(nexists(db, t0), tm.Eq(ncol(db, "kind", t0), ST), tm.Not(ncol(db, "detached", t0)),
                                  tm.PrefixOf(d, ncol(db, "label", t0))))
    files_below = tm.Implies(
        tm.And(nexists(db, f0), graphdb.exists(db, "file", f0), tm.Not(ncol(db, "detached", f0)),
               tm.PrefixOf(d, ncol(db, "label", f0))),
        tm.And(_static_state_t(graphdb.val(db, "file", "state", f0)), tm.Eq(creator_t(db, f0), I(creator.i))))
    c.prove("create_tree.no_attached_tree_covers_it", no_cover, kind="event")
    c.prove("create_tree.no_attached_tree_below_it", no_tree_below, kind="event")
    c.prove("create_tree.attached_files_below_are_the_creators_static_files", files_below, kind="event")
    return wrap_bool(tm.And(tm.mk_bool(e.creator is creator), tm.Eq(S(e.label), d)))


@contract("stepup/core/workflow.py::Workflow.register_static_tree", props=["C18", "C08"])
class register_static_tree:
    """C18: the three scans select exactly the labels under Path(path)/"".  C08: the tree is installed only where
    it conflicts with no attached declaration (see _rst_create_guard)."""

    args = dict(self=lambda a: workflow_spec(queries=RST_QUERIES).fresh("workflow"), creator=common.node_spec(Step),
                path=ty.Str)
    ghost = dict(t0=ty.Int, f0=ty.Int)
    env = dict(Path=trusted.Path, has_any_wildcards=lambda p: _fresh_bool("has_any_wildcards"),
               _duplicate_static_tree_message=lambda *a: "message", _creator_phrase=lambda *a: "creator",
               _static_tree_product_message=lambda *a: "message", _static_tree_file_message=lambda *a: "message")
    may_raise = {GraphError: None, ConsistencyError: None}
    events = {"sql": lambda e, path: _rst_site(e, path), "create": _rst_create_guard}
    finish = lambda c, outcome, args, old: _rst_finish(c, outcome)
    modifies = []
    loops = {0: LoopSpec(locals=dict(handover=ty.SeqOf(ty.Int)), forall=dict(j=ty.Int), invariant=_rst_inv0)}


# ---------------------------------------------------------------- define_step

from contracts import C03_inputs  # noqa: E402  (shared loop invariants of the product-declaring loops)


@contract("stepup/core/trellis.py::Trellis.try_recycle", props=[], verify=False,
          note="None (and nothing changes) when no compatible detached node exists; otherwise the node is re-attached "
               "together with its products, recursively: the view after it is unknown (recycling is covered by the "
               "bounded stand-in C08/bounded/declaration_histories only, see finding F8)")
class try_recycle:
    result = lambda self: ty.Opt(ty.Make(lambda n: fresh_node(Step, self, "recycled")))
    modifies = []

    @staticmethod
    def ensures(self, result):
        r = sym.resolve(result)
        if r is not None:
            db_of(self).bump()
        return True


for _name, _note in (("Step.set_resources", "stores the resources of the step"),
                     ("Step.set_env_overrides", "stores the environment overrides of the step"),
                     ("Step.add_env_deps", "stores the environment variables the step depends on")):
    contract(f"stepup/core/step.py::{_name}", props=[], verify=False,
             note=_note + "; satellite rows of the step only: no claim, step label, tree or glob changes")(
        type("_assumed_" + _name.replace(".", "_"), (), dict(modifies=[])))


def _ds_creator(args):
    return fresh_node(Step, args["self"], "creator")


def _ds_wf(args):
    wf = workflow_spec([("SELECT node.i, node.label FROM node", ty.TupleOf(ty.Int, ty.Str))],
                       targets=ty.SetOf(ty.Str)).fresh("workflow")
    wf._fields["root"] = fresh_node(common.trmod.Root, wf, "root")
    return wf


def _ds_check_inv(name):
    """Loop `for p in <paths>: self._check_declaration(phrase, p, role)`: no path before position i is claimed."""

    def inv(e):
        seq = getattr(e, name)
        k = I(e.q.k)
        return wrap_bool(tm.Implies(tm.And(tm.Le(tm.mk_int(0), k), tm.Lt(k, I(e.i))),
                                    tm.Not(View(db_of(e.self)).claimed(seq.elem(k)))))

    return inv


def _ds_out_inv(e):
    return [C03_inputs._all_pending_ok(e, e.out_paths, I(e.i)), C03_inputs._all_pending_ok(e, e.vol_paths, tm.mk_int(0)),
            C03_inputs._distinct(e, e.out_paths), C03_inputs._distinct(e, e.vol_paths),
            C03_inputs._disjoint(e, e.out_paths, e.vol_paths)]


def _ds_vol_inv(e):
    return [C03_inputs._all_pending_ok(e, e.vol_paths, I(e.i)), C03_inputs._distinct(e, e.vol_paths)]


def _ds_finish(c, outcome, args, old):
    """A glob pattern never matches a path that a step builds, also for a step that comes back through full recycling:
    patterns can be registered while the step is detached (register_nglob looks at attached products only), so the
    pattern-side check runs on every path, before the recycling decision."""
    if outcome[0] != "return":
        return
    t = c.trace
    checks = [e for e in t if e.kind == "call" and e.callee == "Workflow._raise_if_glob_match"]
    rec = [e for e in t if e.kind == "call" and e.callee == "Trellis.try_recycle"]
    c.prove("products_are_checked_against_the_globs_once", tm.mk_bool(len(checks) == 1), kind="trace", detail=f"{len(checks)} call(s)")
    if len(checks) == 1 and rec:
        c.prove("the_glob_check_precedes_the_recycling_decision", tm.mk_bool(checks[0].index < rec[0].index), kind="trace")


@contract("stepup/core/workflow.py::Workflow.define_step", props=["C08"])
class define_step:
    """On the path that creates a new step: the step label is free, every output and volatile output is unclaimed
    and matched by no registered glob at the moment its file node is created (preconditions of _declare_file),
    and a path is not both output and volatile.  env_overrides / resources are fixed to None (irrelevant here)."""

    args = dict(self=_ds_wf, creator=_ds_creator, command=ty.Str, inp_paths=ty.SeqOf(ty.Str), env_deps=ty.SeqOf(ty.Str),
                out_paths=ty.SeqOf(ty.Str), vol_paths=ty.SeqOf(ty.Str), workdir=ty.Str, need=ty.EnumOf(common.Need),
                resources=lambda a: None, shell=ty.Bool, env_overrides=lambda a: None, duration=lambda a: None,
                _safe=ty.Bool)
    env = dict(_raise_if_dir_inputs=lambda p: None, _creator_phrase=lambda *a: "step phrase",
               set=lambda *a: C03_inputs._amend_set(*a) if a else ty.SetOf(C03_inputs.FileH).empty())
    may_raise = {GraphError: None, ConsistencyError: None, ValueError: None}
    modifies = []
    finish = _ds_finish
    # the set of File objects built from the rows of UNCONFIRMED_INPUTS (recycle branch): some set of files
    setup = lambda args: cur().data.__setitem__("comp_hook", lambda kind, f, q, cond: (
        ty.SetOf(C03_inputs.FileH).fresh(cur().fresh_name("unconfirmed_inputs")) if kind == "set" else NotImplemented))
    loops = {0: LoopSpec(),
             1: LoopSpec(forall=dict(k=ty.Int), invariant=_ds_check_inv("out_paths")),
             2: LoopSpec(forall=dict(k=ty.Int), invariant=_ds_check_inv("vol_paths")),
             3: LoopSpec(locals=dict(unconfirmed=ty.SetOf(C03_inputs.FileH))),
             4: LoopSpec(forall=dict(k=ty.Int, m=ty.Int), invariant=_ds_out_inv, havoc=("self",), modifies={"self": ["db"]}),
             5: LoopSpec(forall=dict(k=ty.Int, m=ty.Int), invariant=_ds_vol_inv, havoc=("self",), modifies={"self": ["db"]})}


# ---------------------------------------------------------------- _resolve_supply_file: observing never acquires ownership


def WF(db, path) -> tm.T:
    """Ghost choice function: the file node (attached or not) with this label, if there is one (unique index)."""
    return db.fact("filenode", path, sort=INT)


def _file_row_none_keys(args):
    """No-row fact of find_and_detached(File, path) for the node that would carry the label."""
    c = cur()
    db = c.data["cursor"].db
    axioms(db, args[1])
    return [dict(node=WF(db, args[1])), dict(node=W(db, args[1]))]


def _file_row_witness(keys, args, row):
    c = cur()
    db = c.data["cursor"].db
    # the unique index makes the returned row the node of this label; tie the abstract view to it
    axioms(db, args[1], keys["node"])
    c.pc.append(schema_invariants(db, keys["node"], WF(db, args[1])))
    c.data["C08.file_key"] = keys["node"]


RSF_QUERIES = [
    graphdb.query("SELECT i, detached FROM node WHERE kind", ty.TupleOf(ty.Int, ty.Bool), witness=_file_row_witness,
                  none_keys=_file_row_none_keys),
    graphdb.query("SELECT state FROM file WHERE node", ty.TupleOf(ty.Int), none_keys=lambda a: [dict(file=I(a[0]))]),
    ("SELECT 1 FROM dependency WHERE source", ty.TupleOf(ty.Int)),
]


def _rsf_create_guard(e, self, step, path):
    """A node is created for an observed path only (a) by the attached static tree that owns the path, as a static
    file to be confirmed, when no attached file node has the path; or (b) without creator and UNDECLARED, when no file
    node exists or the existing one has no creator, and no attached tree owns the path."""
    c = cur()
    db = db_of(self)
    v = View(db)
    if e.node_type is not File:
        return False
    state = e.kwargs.get("state")
    if e.creator is None:
        k = c.data.get("C08.file_key")
        orphan = tm.TRUE if k is None else graphdb.column(db, "node", "creator", k).null
        return wrap_bool(tm.And(tm.Eq(I(state), tm.mk_int(FileState.UNDECLARED.value)), tm.Eq(S(e.label), S(path)),
                                tm.Not(v.claimed(path)), tm.Not(v.owned(path)), orphan))
    cr = e.creator
    return wrap_bool(tm.And(tm.mk_bool(cr._cls is StaticTree), owns_t(db, cr.i, path), tm.Eq(S(e.label), S(path)),
                            tm.Eq(I(state), tm.mk_int(FileState.UNCONFIRMED.value)), tm.Not(v.claimed(path))))


def _rsf_finish(c, outcome, args, old):
    creates = [e for e in c.trace if e.kind == "create"]
    c.prove("at_most_one_node_created", tm.mk_bool(len(creates) <= 1), kind="trace")
    writes = [e for e in c.trace if e.kind == "sql" and not e.norm.upper().startswith("SELECT")]
    c.prove("no_other_write", tm.mk_bool(len(writes) == 0), kind="trace")
    lost = [e for e in c.trace if e.kind in ("after_lost_product", "delete_hash")]
    c.prove("no_creator_loses_a_product", tm.mk_bool(len(lost) == 0), kind="trace")


def _rsf_post(self, step, path, old):
    """Existing claims are kept; a claim on the path appears only by adoption through the owning tree (STATIC)."""
    db, db0 = db_of(self), db_of(old.self)
    if cur().data.get("active") != "stepup/core/workflow.py::Workflow._resolve_supply_file":
        db.bump()  # stub use: the graph may have changed
    nv, ov = View(db), View(db0)
    static = tm.mk_int(FileRole.STATIC.value)
    return wrap_bool(tm.And(
        tm.Implies(ov.claimed(path), tm.And(nv.claimed(path), tm.Eq(nv.role(path), ov.role(path)), tm.Eq(nv.creator(path), ov.creator(path)))),
        tm.Implies(tm.And(nv.claimed(path), tm.Not(ov.claimed(path))), tm.And(ov.owned(path), tm.Eq(nv.role(path), static))),
        common.frame_view(ov, nv, changed_path=path)))


def _rsf_wf(args):
    return workflow_spec(RSF_QUERIES, targets=ty.SetOf(ty.Str)).fresh("workflow")


@contract("stepup/core/workflow.py::Workflow._resolve_supply_file", props=["C08", "C02"])
class resolve_supply_file:
    args = dict(self=_rsf_wf, step=common.node_spec(Step), path=ty.Str, require_new_edge=ty.Bool)
    env = dict(Path=trusted.Path)
    may_raise = {GraphError: None, ConsistencyError: None}
    events = {"create": _rsf_create_guard}
    finish = _rsf_finish
    ensures = _rsf_post
    modifies = []


# ---------------------------------------------------------------- _supply_files: the effect assumed by its callers, proved

extract.COMP_AS_LOOP.add("stepup/core/workflow.py::Workflow._supply_files")


@contract("stepup/core/trellis.py::Node.check_sources_acyclic", props=[], verify=False,
          note="raises CyclicError when one of the candidate sources is a transitive sink of this node (read only; the "
               "closure RECURSE_SINKS is assumed, C09)")
class check_sources_acyclic:
    may_raise = {common.excmod.CyclicError: None}
    modifies = []

    @staticmethod
    def ensures(self, source_is):
        """Ghost: every candidate of the batch has been checked against the transitive sinks of this node."""
        c = cur()
        q = source_is
        if isinstance(q, (list, tuple)):
            return wrap_bool(tm.And(*[cycle_checked(self.i, x) for x in q]))
        j = tm.Var(c.fresh_name("j!bound"), INT)
        return wrap_bool(tm.ForAll([(j.s, INT)], tm.Implies(tm.And(tm.Le(tm.mk_int(0), j), tm.Lt(j, q.length)),
                                                            cycle_checked(self.i, q.elem(j)))))


def cycle_checked(sink, source) -> tm.T:
    """Ghost predicate: `source` was among the candidates of a check_sources_acyclic call on `sink` (it returned, so
    `source` is not a transitive sink of `sink`).  Established only by that call's contract; Node.add_source requires
    it when its own check is skipped.  Not tied to a version of the dependency table: edges added between the
    check and the insertion all end in `sink` (the batch of _supply_files) and cannot create a path from it."""
    return cur().decls.fun("cyc.checked", [INT, INT], BOOL)(I(sink), I(source))


def _monotone(ov, nv):
    """Claims only grow, and only by adoption of a path under an attached static tree (as a STATIC claim); step
    labels, trees and glob registrations are unchanged."""
    c = cur()
    p = tm.Var(c.fresh_name("p!bound"), STR)
    static = tm.mk_int(FileRole.STATIC.value)
    kept = tm.Implies(ov.claimed(p), tm.And(nv.claimed(p), tm.Eq(nv.role(p), ov.role(p)), tm.Eq(nv.creator(p), ov.creator(p))))
    added = tm.Implies(tm.And(nv.claimed(p), tm.Not(ov.claimed(p))), tm.And(ov.owned(p), tm.Eq(nv.role(p), static)))
    claims = tm.ForAll([(p.s, STR)], tm.And(kept, added), patterns=[[nv.claimed(p)], [nv.role(p)], [nv.creator(p)]])
    return tm.And(claims, common.frame_view(ov, nv, claims_changed=True))


def _sf_collected(e):
    """Every resolved file that needs a new edge and was visited so far is among the collected candidates."""
    c = cur()
    if not isinstance(e.new_file_is, sym.SymSeq):
        return True  # loop entry: nothing visited
    k = tm.Var(c.fresh_name("k!bound"), INT)
    m = tm.Var(c.fresh_name("m!bound"), INT)

    def body():
        file, _, _, nr = e.seq.elem(k)
        found = tm.Exists([(m.s, INT)], tm.And(tm.Le(tm.mk_int(0), m), tm.Lt(m, e.new_file_is.length),
                                               tm.Eq(I(e.new_file_is.elem(m)), I(file.i))))
        return tm.Implies(tm.And(tm.Le(tm.mk_int(0), k), tm.Lt(k, I(e.i)), B(nr)), found)

    from vc import vcrt
    return wrap_bool(vcrt.quantified([(k.s, INT)], body))


def _sf_inv(e):
    return wrap_bool(_monotone(View(db_of(e.old.self)), View(db_of(e.self))))


from contracts.C03_inputs import supply_files_assumed as _sf  # noqa: E402

_FileRec = ty.Rec(File, dict(i=ty.Int, label=ty.Str), name="File")
_SupplyRec = ty.Rec(C03_inputs.SupplyInfo, dict(file=_FileRec, state=ty.EnumOf(FileState), detached=ty.Bool,
                                                new_idep=ty.Opt(ty.Int)), name="_SupplyInfo")
ResolvedRec = ty.TupleOf(ty.Make(lambda n: fresh_node(File, None, "file")), ty.EnumOf(FileState), ty.Bool, ty.Bool)


def _rsf_result(self):
    return ty.Make(lambda n: (fresh_node(File, self, "supplied"), ty.EnumOf(FileState).fresh(n + ".state"),
                              ty.Bool.fresh(n + ".detached"), ty.Bool.fresh(n + ".new_relation")))


resolve_supply_file.result = _rsf_result

_sf.props = list(_sf.props) + ["C08", "C02"]
_sf.verify = True
_sf.args = dict(self=lambda a: workflow_spec([]).fresh("workflow"), step=common.node_spec(Step), paths=ty.SeqOf(ty.Str),
                require_new_edge=ty.Bool)
_sf.may_raise = {GraphError: None, ConsistencyError: None}
_sf.assume_post = None
_sf.ensures = lambda self, old: wrap_bool(_monotone(View(db_of(old.self)), View(db_of(self))))
_sf.loops = {
    0: LoopSpec(locals=dict(resolved=ty.SeqOf(ty.TupleOf(_FileRec, ty.EnumOf(FileState), ty.Bool, ty.Bool))),
                invariant=_sf_inv, havoc=("self",), modifies={"self": ["db"]}),
    1: LoopSpec(locals=dict(new_file_is=ty.SeqOf(ty.Int)), invariant=lambda e: [_sf_inv(e), _sf_collected(e)]),
    2: LoopSpec(locals={"@acc": ty.SeqOf(_SupplyRec)}, invariant=_sf_inv, havoc=("self",),
                modifies={"self": ["db"]}),
}
