"""C13 bounded stand-in: JSON round trip of stored hashes (cattrs is outside the VC generator)."""

from __future__ import annotations

import random

from vc import extract
from vc.report import bounded


@bounded("json_roundtrip", props=["C13"],
         bound="seeded random FileHash / StepHash values (quick 2000, thorough 50000), all fields compared "
               "including the fields excluded from ==")
def json_roundtrip(tier, seed):
    hashmod = extract.import_module("stepup/core/hash.py")
    FileHash, StepHash, InpInfo, OutInfo = hashmod.FileHash, hashmod.StepHash, hashmod.InpInfo, hashmod.OutInfo
    rnd = random.Random(seed)
    n = 2000 if tier == "quick" else 50000
    failures = []

    def rstr():
        alphabet = "ab/._ é☃'\"\\\n"
        return "".join(rnd.choice(alphabet) for _ in range(rnd.randint(0, 6)))

    def rfh():
        if rnd.random() < 0.15:
            return FileHash.unknown()
        return FileHash(bytes(rnd.getrandbits(8) for _ in range(32)), rnd.choice([0o100644, 0o100755, 0o120777, 1, 2**32 - 1]),
                        rnd.choice([0.0, 1.5, 1e9 + rnd.random(), rnd.random() * 2e9]),
                        rnd.choice([0, 1, 2**31, 2**63 - 1, rnd.getrandbits(40)]),
                        rnd.choice([0, 1, 2**64 - 1, rnd.getrandbits(60)]))

    def fields(fh):
        return (fh.digest, fh.mode, fh.mtime, fh.size, fh.inode)

    for k in range(n):
        fh = rfh()
        back = FileHash.from_json(fh.to_json())
        if fields(back) != fields(fh):
            failures.append(dict(kind="FileHash", value=repr(fields(fh)), back=repr(fields(back))))
        if not fh.is_unknown:
            # a sibling that compares equal (same digest, mode, size) with another mtime and inode, saved right after:
            # the stored form is a function of all five fields, not of what == looks at
            sib = FileHash(fh.digest, fh.mode, fh.mtime + 100.5, fh.size, fh.inode ^ 1)
            back = FileHash.from_json(sib.to_json())
            if fields(back) != fields(sib):
                failures.append(dict(kind="FileHash (saved after an equal hash with other mtime / inode)",
                                     value=repr(fields(sib)), back=repr(fields(back))))
        if k % 4 == 0:
            inp = {rstr(): rfh() for _ in range(rnd.randint(0, 3))}
            env = {rstr(): rnd.choice([None, rstr()]) for _ in range(rnd.randint(0, 3))}
            ovr = {rstr(): rstr() for _ in range(rnd.randint(0, 2))}
            sh = StepHash.from_inp(rstr(), inp, env, explained=rnd.random() < 0.5, shell=rnd.random() < 0.5,
                                   env_overrides=ovr)
            if rnd.random() < 0.7:
                sh = sh.with_out_hashes({rstr(): rfh() for _ in range(rnd.randint(0, 3))})
            back = StepHash.from_json(sh.to_json())
            ok = back == sh
            if ok and sh.inp_info is not None:
                ok = all(fields(back.inp_info.inp_hashes[p]) == fields(h) for p, h in sh.inp_info.inp_hashes.items())
            if not ok:
                failures.append(dict(kind="StepHash", value=repr(sh), back=repr(back)))
        if len(failures) > 5:
            break
    return dict(evaluations=n, failures=failures)
