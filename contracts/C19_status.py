"""C19: exit status and report tell the truth — flag logic of report_unbuilt and its helpers, the TUI's
translation of the director's wait status, classification of glob violations."""

from __future__ import annotations

from contracts import common, trusted
from contracts.common import FileRole, FileState, StepState, Workflow
from contracts.trusted import DbStub, PathStr, Reporter
from vc import engine, extract, sqlfront, sym
from vc import terms as tm
from vc import types as ty
from vc.engine import LoopSpec, contract
from vc.report import bounded, lemma, structural
from vc.sym import B, I, S, SymFlag, cur, wrap_bool, wrap_int
from vc.terms import BOOL, INT, STR

finmod = extract.import_module("stepup/core/finalize.py")
ReturnCode = common.enums.ReturnCode
RC = ReturnCode


def flag(rc, member) -> tm.T:
    return SymFlag.of(ReturnCode, rc).bits[member]


def only_bits(rc, allowed) -> tm.T:
    f = SymFlag.of(ReturnCode, rc)
    return tm.And(*[tm.Not(t) for m, t in f.bits.items() if m not in allowed])


# ---------------------------------------------------------------- ghost facts of the workflow state


def ghost(wf, name, sort=BOOL):
    """A fact about the stored workflow at the time of the report (no statement in between writes it)."""
    return cur().decls.const("wf." + name, sort)


class _Summary:
    def __init__(self, ntotal):
        self.ntotal = ntotal


def _analyze_pending_stub(workflow):
    c = cur()
    n = ghost(workflow, "ntotal_pending", INT)
    c.pc.append(tm.Ge(n, tm.mk_int(0)))
    return _Summary(wrap_int(n))


FMT_ENV = dict(
    analyze_pending=_analyze_pending_stub,
    _format_input_rows=lambda s: ty.SeqOf(ty.TupleOf(ty.Str, ty.Str, ty.Str)).fresh(cur().fresh_name("input_rows")),
    _format_resource_rows=lambda s: ty.SeqOf(ty.TupleOf(ty.Str, ty.Str, ty.Str)).fresh(cur().fresh_name("resource_rows")),
    _format_table_lines=lambda rows, a, b: ["line"],
    _format_other_lines=lambda s: ty.SeqOf(ty.Str).fresh(cur().fresh_name("other_lines")),
    _format_remedy_lines=lambda s: ["remedy"],
    max=lambda *a, **k: 0,
)


def _wf(args):
    return ty.ObjOf(Workflow, dict(db=ty.Make(lambda n: DbStub(n)), targets=ty.SetOf(PathStr),
                                   target_dirs=ty.SetOf(PathStr)), name="Workflow").fresh("workflow")


@contract("stepup/core/finalize.py::_report_pending_steps", props=["C19"])
class report_pending_steps:
    """PENDING exactly when a required step remained pending; no other bit."""

    args = dict(workflow=_wf, reporter=ty.Make(Reporter))
    env = FMT_ENV
    ensures = lambda workflow, result: wrap_bool(tm.And(
        tm.Iff(flag(result, RC.PENDING), tm.Gt(ghost(workflow, "ntotal_pending", INT), tm.mk_int(0))),
        only_bits(result, {RC.PENDING})))
    result = ty.FlagOf(ReturnCode)
    modifies = []


@contract("stepup/core/workflow.py::Workflow.is_regular_output", props=[], verify=False,
          note="whether an attached step produces the path as a regular output (database read)")
class is_regular_output_assumed:
    result = ty.Bool
    modifies = []


@contract("stepup/core/finalize.py::_report_missing_targets", props=["C19"])
class report_missing_targets:
    """Only the WARNING bit, never FAILED or PENDING."""

    args = dict(workflow=_wf, reporter=ty.Make(Reporter))
    ensures = lambda result: wrap_bool(only_bits(result, {RC.WARNING}))
    result = ty.FlagOf(ReturnCode)
    modifies = []


GlobViolation = common.wfmod.GlobViolation
ViolationRec = ty.Rec(GlobViolation, dict(step_label=ty.Str, pattern=ty.Str, path=ty.Str,
                                          state=ty.Opt(ty.EnumOf(FileState))))
engine.CLASS_SPECS[GlobViolation] = ViolationRec
STATIC_STATES = common.enums.FILE_STATES_BY_ROLE[FileRole.STATIC]


def is_error_t(v) -> tm.T:
    """Spec (from the property: 'a glob pattern matched a file that a step builds'): the match has an attached
    node whose state is not in the STATIC role."""
    st = v.state
    isn = st.isnone if isinstance(st, sym.SymOpt) else tm.mk_bool(st is None)
    pay = st.payload if isinstance(st, sym.SymOpt) else st
    if pay is None:
        return tm.FALSE
    static = tm.Or(*[tm.Eq(I(pay), tm.mk_int(s.value)) for s in STATIC_STATES])
    return tm.And(tm.Not(isn), tm.Not(static))


@contract("stepup/core/workflow.py::GlobViolation.is_error", props=["C19"])
class violation_is_error:
    args = dict(self=ViolationRec)
    # UNDECLARED has no role: such a node is always detached, so it never is the state of an attached node
    requires = lambda self: wrap_bool(tm.Or(self.state.isnone, tm.Ne(I(self.state.payload), tm.mk_int(FileState.UNDECLARED.value)))
                                      if isinstance(self.state, sym.SymOpt) else tm.TRUE)
    may_raise = {}
    ensures = lambda self, result: wrap_bool(tm.Iff(B(result), is_error_t(self)))
    result = ty.Bool
    modifies = []


def _violations(wf):
    c = cur()
    q = ty.SeqOf(ViolationRec, invariant=lambda v: wrap_bool(tm.Or(
        v.state.isnone, tm.Ne(I(v.state.payload), tm.mk_int(FileState.UNDECLARED.value))))).fresh("violations")
    c.data["violations"] = q
    return q


@contract("stepup/core/workflow.py::Workflow.find_glob_violations", props=[], verify=False,
          note="returns the recorded glob matches that no static declaration justifies (database read)")
class find_glob_violations_assumed:
    result = lambda self: ty.Make(lambda n: _violations(self))
    modifies = []


def _glob_post(workflow, result):
    """FAILED exactly when some violation is an error; WARNING exactly when some violation is not."""
    c = cur()
    q = c.data.get("violations")
    if q is None:
        return False
    j = c.fresh(c.fresh_name("j"), INT)  # an arbitrary violation
    inr = tm.And(tm.Le(tm.mk_int(0), j), tm.Lt(j, q.length))
    v = q.elem(j)
    err = is_error_t(v)
    return wrap_bool(tm.And(
        tm.Implies(tm.And(inr, err), flag(result, RC.FAILED)),
        tm.Implies(tm.And(inr, tm.Not(err)), flag(result, RC.WARNING)),
        tm.Implies(tm.Eq(q.length, tm.mk_int(0)), only_bits(result, set())),
        only_bits(result, {RC.FAILED, RC.WARNING})))


def _glob_post_converse(workflow, result):
    """Conversely the bits are set only with a witness: if no violation is an error, FAILED is not set."""
    c = cur()
    q = c.data.get("violations")
    if q is None:
        return False
    jv = tm.Var("jq", INT)
    n0 = len(c.pc)
    v = q.elem(jv)
    side = c.pc[n0:]
    del c.pc[n0:]
    inr = tm.And(tm.Le(tm.mk_int(0), jv), tm.Lt(jv, q.length))
    no_error = tm.ForAll([("jq", INT)], tm.Implies(tm.And(inr, *side), tm.Not(is_error_t(v))))
    no_warn = tm.ForAll([("jq", INT)], tm.Implies(tm.And(inr, *side), is_error_t(v)))
    return wrap_bool(tm.And(tm.Implies(no_error, tm.Not(flag(result, RC.FAILED))),
                            tm.Implies(no_warn, tm.Not(flag(result, RC.WARNING)))))


@contract("stepup/core/finalize.py::_report_glob_violations", props=["C19"])
class report_glob_violations:
    args = dict(workflow=_wf, reporter=ty.Make(Reporter))
    env = dict(_format_glob_violation_pages=lambda v: ["page"])
    ensures_named = dict(bits_follow_violations=_glob_post, bits_need_a_witness=_glob_post_converse)
    result = ty.FlagOf(ReturnCode)
    modifies = []
