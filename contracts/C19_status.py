"""C19: exit status and report tell the truth — flag logic of report_unbuilt and its helpers, the TUI's
translation of the director's wait status, classification of glob violations."""

from __future__ import annotations

from contracts import common, trusted
from contracts.common import FileRole, FileState, StepState, Workflow
from contracts.trusted import DbStub, PathStr, Reporter
from vc import engine, extract, sqlfront, sym
from vc import terms as tm
from vc import types as ty
from vc.engine import LoopSpec, contract
from vc.report import bounded, lemma, structural
from vc.sym import B, I, S, SymFlag, cur, wrap_bool, wrap_int
from vc.terms import BOOL, INT, STR

finmod = extract.import_module("stepup/core/finalize.py")
ReturnCode = common.enums.ReturnCode
RC = ReturnCode


def flag(rc, member) -> tm.T:
    return SymFlag.of(ReturnCode, rc).bits[member]


def only_bits(rc, allowed) -> tm.T:
    f = SymFlag.of(ReturnCode, rc)
    return tm.And(*[tm.Not(t) for m, t in f.bits.items() if m not in allowed])


# ---------------------------------------------------------------- ghost facts of the workflow state


def ghost(wf, name, sort=BOOL):
    """A fact about the stored workflow at the time of the report (no statement in between writes it)."""
    return cur().decls.const("wf." + name, sort)


class _Summary:
    def __init__(self, ntotal):
        self.ntotal = ntotal


def _analyze_pending_stub(workflow):
    c = cur()
    n = ghost(workflow, "ntotal_pending", INT)
    c.pc.append(tm.Ge(n, tm.mk_int(0)))
    return _Summary(wrap_int(n))


def _some_rows(name):
    c = cur()
    return [("key", "detail", "1")] if c.fork(c.fresh(c.fresh_name(name + ".nonempty"), BOOL)) else []


FMT_ENV = dict(
    analyze_pending=_analyze_pending_stub,
    _format_input_rows=lambda s: _some_rows("input_rows"),
    _format_resource_rows=lambda s: _some_rows("resource_rows"),
    _format_table_lines=lambda rows, a, b: ["line"],
    _format_other_lines=lambda s: ["other"] if cur().fork(cur().fresh(cur().fresh_name("other_lines"), BOOL)) else [],
    _format_remedy_lines=lambda s: ["remedy"],
    max=lambda *a, **k: 0,
)


def _count_fact(row, args):
    """A COUNT(*) query returns a number that is a function of the statement text and its arguments; nothing
    relates it to the number of attached failed steps unless the statement is the one Workflow.steps issues."""
    c = cur()
    ev = [e for e in c.trace if e.kind == "sql"]
    import hashlib

    name = "wf.count." + hashlib.sha1(ev[-1].norm.encode()).hexdigest()[:10]
    n = c.decls.const(name, INT)
    return wrap_bool(tm.And(tm.Eq(I(row[0]), n), tm.Ge(n, tm.mk_int(0))))


def _wf(args):
    return ty.ObjOf(Workflow, dict(db=ty.Make(lambda n: DbStub(n, [("SELECT COUNT", ty.TupleOf(ty.Int), _count_fact)])),
                                   targets=ty.SetOf(PathStr),
                                   target_dirs=ty.SetOf(PathStr)), name="Workflow").fresh("workflow")


@contract("stepup/core/finalize.py::_report_pending_steps", props=["C19"])
class report_pending_steps:
    """PENDING exactly when a required step remained pending; no other bit."""

    args = dict(workflow=_wf, reporter=ty.Make(Reporter))
    env = FMT_ENV
    ensures = lambda workflow, result: wrap_bool(tm.And(
        tm.Iff(flag(result, RC.PENDING), tm.Gt(ghost(workflow, "ntotal_pending", INT), tm.mk_int(0))),
        only_bits(result, {RC.PENDING})))
    result = ty.FlagOf(ReturnCode)
    modifies = []


@contract("stepup/core/workflow.py::Workflow.is_regular_output", props=[], verify=False,
          note="whether an attached step produces the path as a regular output (database read)")
class is_regular_output_assumed:
    result = ty.Bool
    modifies = []


@contract("stepup/core/finalize.py::_report_missing_targets", props=["C19"])
class report_missing_targets:
    """Only the WARNING bit, never FAILED or PENDING."""

    args = dict(workflow=_wf, reporter=ty.Make(Reporter))
    ensures = lambda result: wrap_bool(only_bits(result, {RC.WARNING}))
    result = ty.FlagOf(ReturnCode)
    modifies = []


GlobViolation = common.wfmod.GlobViolation
ViolationRec = ty.Rec(GlobViolation, dict(step_label=ty.Str, pattern=ty.Str, path=ty.Str,
                                          state=ty.Opt(ty.EnumOf(FileState))))
engine.CLASS_SPECS[GlobViolation] = ViolationRec
STATIC_STATES = common.enums.FILE_STATES_BY_ROLE[FileRole.STATIC]


def is_error_t(v) -> tm.T:
    """Spec (from the property: 'a glob pattern matched a file that a step builds'): the match has an attached
    node whose state is not in the STATIC role."""
    st = v.state
    isn = st.isnone if isinstance(st, sym.SymOpt) else tm.mk_bool(st is None)
    pay = st.payload if isinstance(st, sym.SymOpt) else st
    if pay is None:
        return tm.FALSE
    static = tm.Or(*[tm.Eq(I(pay), tm.mk_int(s.value)) for s in STATIC_STATES])
    return tm.And(tm.Not(isn), tm.Not(static))


@contract("stepup/core/workflow.py::GlobViolation.is_error", props=["C19"])
class violation_is_error:
    args = dict(self=ViolationRec)
    # UNDECLARED has no role: such a node is always detached, so it never is the state of an attached node
    requires = lambda self: wrap_bool(tm.Or(self.state.isnone, tm.Ne(I(self.state.payload), tm.mk_int(FileState.UNDECLARED.value)))
                                      if isinstance(self.state, sym.SymOpt) else tm.TRUE)
    may_raise = {}
    ensures = lambda self, result: wrap_bool(tm.Iff(B(result), is_error_t(self)))
    returns = lambda self: wrap_bool(is_error_t(self))  # callers see the defining term (proved by `ensures`)
    result = ty.Bool
    modifies = []


def _violations(wf):
    c = cur()
    q = ty.SeqOf(ViolationRec, invariant=lambda v: wrap_bool(tm.Or(
        v.state.isnone, tm.Ne(I(v.state.payload), tm.mk_int(FileState.UNDECLARED.value))))).fresh("violations")
    c.data["violations"] = q
    return q


@contract("stepup/core/workflow.py::Workflow.find_glob_violations", props=[], verify=False,
          note="returns the recorded glob matches that no static declaration justifies (database read)")
class find_glob_violations_assumed:
    result = lambda self: ty.Make(lambda n: _violations(self))
    modifies = []


def _glob_post(workflow, result):
    """FAILED exactly when some violation is an error; WARNING exactly when some violation is not."""
    c = cur()
    q = c.data.get("violations")
    if q is None:
        return False
    j = c.fresh(c.fresh_name("j"), INT)  # an arbitrary violation
    inr = tm.And(tm.Le(tm.mk_int(0), j), tm.Lt(j, q.length))
    v = q.elem(j)
    err = is_error_t(v)
    return wrap_bool(tm.And(
        tm.Implies(tm.And(inr, err), flag(result, RC.FAILED)),
        tm.Implies(tm.And(inr, tm.Not(err)), flag(result, RC.WARNING)),
        tm.Implies(tm.Eq(q.length, tm.mk_int(0)), only_bits(result, set())),
        only_bits(result, {RC.FAILED, RC.WARNING})))


def _glob_post_converse(workflow, result):
    """Conversely the bits are set only with a witness: if no violation is an error, FAILED is not set."""
    c = cur()
    q = c.data.get("violations")
    if q is None:
        return False
    jv = tm.Var("jq", INT)
    n0 = len(c.pc)
    v = q.elem(jv)
    side = c.pc[n0:]
    del c.pc[n0:]
    inr = tm.And(tm.Le(tm.mk_int(0), jv), tm.Lt(jv, q.length))
    no_error = tm.ForAll([("jq", INT)], tm.Implies(tm.And(inr, *side), tm.Not(is_error_t(v))))
    no_warn = tm.ForAll([("jq", INT)], tm.Implies(tm.And(inr, *side), is_error_t(v)))
    return wrap_bool(tm.And(tm.Implies(no_error, tm.Not(flag(result, RC.FAILED))),
                            tm.Implies(no_warn, tm.Not(flag(result, RC.WARNING)))))


@contract("stepup/core/finalize.py::_report_glob_violations", props=["C19"])
class report_glob_violations:
    args = dict(workflow=_wf, reporter=ty.Make(Reporter))
    env = dict(_format_glob_violation_pages=lambda v: ["page"])
    ensures_named = dict(bits_follow_violations=_glob_post, bits_need_a_witness=_glob_post_converse)
    result = ty.FlagOf(ReturnCode)
    modifies = []


# ---------------------------------------------------------------- report_unbuilt


def _define_glob_ghosts(wf, q):
    """glob_error_exists / glob_warning_exists := some violation is / is not an error (definitional)."""
    c = cur()
    for name, pred in (("glob_error_exists", lambda v: is_error_t(v)), ("glob_warning_exists", lambda v: tm.Not(is_error_t(v)))):
        g = ghost(wf, name)
        w = c.decls.const("wf." + name + ".witness", INT)
        n0 = len(c.pc)
        vw = q.elem(w)
        side_w = c.pc[n0:]
        del c.pc[n0:]
        c.pc.append(tm.Implies(g, tm.And(tm.Le(tm.mk_int(0), w), tm.Lt(w, q.length), *side_w, pred(vw))))
        jv = tm.Var("jg", INT)
        n1 = len(c.pc)
        vj = q.elem(jv)
        side_j = c.pc[n1:]
        del c.pc[n1:]
        c.pc.append(tm.ForAll([("jg", INT)], tm.Implies(
            tm.And(tm.Le(tm.mk_int(0), jv), tm.Lt(jv, q.length), *side_j, pred(vj)), g)))


_orig_violations = _violations


def _violations_with_ghosts(wf):
    q = _orig_violations(wf)
    _define_glob_ghosts(wf, q)
    return q


find_glob_violations_assumed.result = lambda self: ty.Make(lambda n: _violations_with_ghosts(self))

report_glob_violations.ensures_named["exported"] = lambda workflow, result: wrap_bool(tm.And(
    tm.Iff(flag(result, RC.FAILED), ghost(workflow, "glob_error_exists")),
    tm.Iff(flag(result, RC.WARNING), ghost(workflow, "glob_warning_exists")),
    only_bits(result, {RC.FAILED, RC.WARNING})))
# the two trace-free clauses above it talk about the sequence created inside the function: not exported
report_glob_violations.ensures_named["bits_follow_violations"] = (
    lambda workflow, result, trace: _glob_post(workflow, result))
report_glob_violations.ensures_named["bits_need_a_witness"] = (
    lambda workflow, result, trace: _glob_post_converse(workflow, result))

report_missing_targets.ensures_named = dict(
    only_warning=lambda result: wrap_bool(only_bits(result, {RC.WARNING})),
)
report_missing_targets.ensures = None


class _Sched:
    def __init__(self, name):
        self.draining = sym.SymBool(cur().fresh(name + ".draining", BOOL))


@contract("stepup/core/workflow.py::Workflow.steps", props=[], verify=False,
          note="iterates over the attached steps in the given state (database read); their number is the ghost nfailed")
class steps_assumed:
    modifies = []

    @staticmethod
    def ensures(self, state, result):
        """A non-empty result has a witness: an attached step node whose stored state is the requested one."""
        from contracts import graphdb

        db = common.db_of(self)
        w = db.fact("steps.witness", sym.I(state), sort=INT)
        from vc import vcrt

        return wrap_bool(tm.Implies(tm.Ge(I(vcrt.v_len(result)), tm.mk_int(1)), tm.And(
            graphdb.exists(db, "node", w), tm.Not(graphdb.detached_at(db, w)), graphdb.exists(db, "step", w),
            tm.Eq(graphdb.val(db, "step", "state", w), sym.I(state)))))

    @staticmethod
    def result(self):
        class _S(ty.Spec):
            def fresh(s, name):
                c = cur()
                q = ty.SeqOf(ty.Int).fresh(name)
                c.pc.append(tm.Eq(q.length, ghost(self, "nfailed_attached_steps", INT)))
                return q

        return _S()


def _ru_ghosts(workflow, scheduler):
    nfailed = ghost(workflow, "nfailed_attached_steps", INT)
    ntotal = ghost(workflow, "ntotal_pending", INT)
    return (tm.Gt(nfailed, tm.mk_int(0)), tm.Gt(ntotal, tm.mk_int(0)), B(scheduler.draining),
            ghost(workflow, "glob_error_exists"), ghost(workflow, "glob_warning_exists"))


def _missing_warning(trace):
    calls = [e for e in trace if e.kind == "call" and e.callee == "_report_missing_targets"]
    return flag(calls[-1].result, RC.WARNING) if calls else tm.FALSE


def _clauses():
    def failed_sound(workflow, scheduler, result, trace):
        f, p, d, ge, gw = _ru_ghosts(workflow, scheduler)
        return wrap_bool(tm.Implies(flag(result, RC.FAILED), tm.Or(f, ge)))

    def failed_steps(workflow, scheduler, result, trace):
        f, p, d, ge, gw = _ru_ghosts(workflow, scheduler)
        return wrap_bool(tm.Implies(f, flag(result, RC.FAILED)))

    def glob_error_when_clean(workflow, scheduler, result, trace):
        # no failed step, not draining, nothing pending, no missing target: a glob error sets the failed bit
        f, p, d, ge, gw = _ru_ghosts(workflow, scheduler)
        clean = tm.And(tm.Not(f), tm.Not(d), tm.Not(p), tm.Not(_missing_warning(trace)))
        return wrap_bool(tm.Implies(tm.And(clean, ge), flag(result, RC.FAILED)))

    def glob_error_otherwise(workflow, scheduler, result, trace):
        # the property's sentence also covers builds that already went wrong (finding F5)
        f, p, d, ge, gw = _ru_ghosts(workflow, scheduler)
        clean = tm.And(tm.Not(f), tm.Not(d), tm.Not(p), tm.Not(_missing_warning(trace)))
        return wrap_bool(tm.Implies(tm.And(tm.Not(clean), ge), flag(result, RC.FAILED)))

    def pending_bit(workflow, scheduler, result, trace):
        f, p, d, ge, gw = _ru_ghosts(workflow, scheduler)
        return wrap_bool(tm.Iff(flag(result, RC.PENDING), tm.And(tm.Not(d), p)))

    def drained_bit(workflow, scheduler, result, trace):
        f, p, d, ge, gw = _ru_ghosts(workflow, scheduler)
        return wrap_bool(tm.Iff(flag(result, RC.DRAINED), d))

    def zero_only_if_clean(workflow, scheduler, result, trace):
        f, p, d, ge, gw = _ru_ghosts(workflow, scheduler)
        zero = only_bits(result, set())
        return wrap_bool(tm.Implies(zero, tm.And(tm.Not(f), tm.Not(d), tm.Not(p), tm.Not(ge), tm.Not(gw),
                                                 tm.Not(_missing_warning(trace)))))

    def never_internal(workflow, scheduler, result, trace):
        return wrap_bool(tm.And(tm.Not(flag(result, RC.INTERNAL)), tm.Not(flag(result, RC.INTERRUPTED))))

    return dict(failed_bit_sound=failed_sound, failed_bit_for_failed_steps=failed_steps,
                failed_bit_for_glob_error_in_clean_build=glob_error_when_clean,
                failed_bit_for_glob_error_in_unclean_build=glob_error_otherwise,
                pending_bit=pending_bit, drained_bit=drained_bit, zero_only_if_clean=zero_only_if_clean,
                never_internal_bits=never_internal)


@contract("stepup/core/finalize.py::report_unbuilt", props=["C19"])
class report_unbuilt:
    args = dict(workflow=_wf, scheduler=ty.Make(_Sched), reporter=ty.Make(Reporter))
    ensures_named = _clauses()
    result = ty.FlagOf(ReturnCode)
    modifies = []


from vc.report import replayer  # noqa: E402


@replayer("C19/report_unbuilt/post.failed_bit_for_glob_error_in_unclean_build")
def replay_f5(o):
    """The counter-model is "a glob error exists and the build is not clean (pending steps)": the committed
    history specs/replay/F5_glob_error_with_pending.py reaches exactly that state through the Workflow API."""
    import os
    import subprocess

    from vc.report import VERIF, model_of

    script = os.path.join(VERIF, "specs", "replay", "F5_glob_error_with_pending.py")
    r = subprocess.run(["/venv/bin/python", script], cwd=extract.REPO, capture_output=True, text=True,
                       env={"PYTHONPATH": extract.REPO, "PATH": "/usr/bin:/bin"})
    m = model_of(o, ["wf.ntotal_pending", "wf.nfailed_attached_steps", "wf.glob_error_exists"]) or {}
    return dict(reproduced=r.returncode == 1, python=open(script).read(), output=(r.stdout + r.stderr)[-1500:],
                witness=dict(model=m, history="sub-plan recycled under a glob that matches its output, plus a "
                                              "step pending on an undeclared input",
                             claim="glob error exists, failed bit not set"))


# ---------------------------------------------------------------- the TUI's translation of the wait status

tuimod = extract.import_module("stepup/core/tui.py")


class _SignalStub:
    class _S:
        name = "SIGNAL"

    def Signals(self, n):  # noqa: N802
        return _SignalStub._S()


def _tws_post(self, wait_status, result):
    """A non-negative status keeps every bit the director reported and gains INTERRUPTED iff a terminal signal
    was received; a negative status (killed by a signal) becomes INTERNAL (plus INTERRUPTED under the same rule)."""
    r, w = I(result), I(wait_status)
    sig = tm.Not(self.sig.isnone) if isinstance(self.sig, sym.SymOpt) else tm.mk_bool(self.sig is not None)
    base = tm.Ite(tm.Lt(w, tm.mk_int(0)), tm.mk_int(RC.INTERNAL.value), w)
    goals = []
    k = 1
    while k < 256:
        want = sym.bit_t(base, k)
        if k == RC.INTERRUPTED.value:
            want = tm.Or(want, sig)
        goals.append(tm.Iff(sym.bit_t(r, k), want))
        k <<= 1
    goals.append(tm.And(tm.Ge(r, tm.mk_int(0)), tm.Lt(r, tm.mk_int(256))))
    return wrap_bool(tm.And(*goals))


@contract("stepup/core/tui.py::TerminalSignalHandler.translate_wait_status", props=["C19"])
class translate_wait_status:
    args = dict(self=lambda a: ty.ObjOf(tuimod.TerminalSignalHandler, dict(
        sig=ty.Opt(ty.Int), reporter_handler=ty.Make(Reporter)), name="TerminalSignalHandler").fresh("self"),
        wait_status=ty.Int)
    env = dict(signal=_SignalStub())
    requires = lambda wait_status: (wait_status > -65) & (wait_status < 256)
    ensures = _tws_post
    result = ty.Int
    modifies = []


@structural("C19/scan/serve_returncode", props=["C19"],
            note="director.serve: an invalid target (GraphError from reconcile_targets) returns FAILED; otherwise the "
                 "code stored by Builder.finalize is returned")
def serve_returncode():
    import ast

    _, node = extract.find_def("stepup/core/director.py", "serve")
    out = []
    ok_handler = False
    for n in ast.walk(node):
        if isinstance(n, ast.Try):
            calls = [c for b in n.body for c in ast.walk(b) if isinstance(c, ast.Call)
                     and isinstance(c.func, ast.Attribute) and c.func.attr == "reconcile_targets"]
            if not calls:
                continue
            for h in n.handlers:
                if getattr(h.type, "id", "") != "GraphError":
                    continue
                rets = [r for b in h.body for r in ast.walk(b) if isinstance(r, ast.Return)]
                for r in rets:
                    src = ast.unparse(r.value)
                    if "ServeResult" in src and "returncode=ReturnCode.FAILED" in src:
                        ok_handler = True
    out.append(("scan/serve_returncode/invalid_target_is_failed", ok_handler,
                "except GraphError around reconcile_targets returns ServeResult(returncode=ReturnCode.FAILED)"))
    # the targets are judged against the graph of THIS run: reconcile_targets comes after the boot / resume step (which
    # makes the steps of a changed plan, changed inputs, variables and failed steps PENDING: a forbidden-state target is
    # tolerated only if a PENDING step sits in its creator chain) and before the build starts
    def first_line(name):
        lines = [c.lineno for c in ast.walk(node) if isinstance(c, ast.Call)
                 and (getattr(c.func, "attr", None) == name or getattr(c.func, "id", None) == name)]
        return min(lines) if lines else None

    rec, boot, resume, run = (first_line(n) for n in ("reconcile_targets", "initialize_boot", "resume_from_db", "_run_tasks"))
    ok_order = None not in (rec, boot, resume, run) and boot < rec and resume < rec < run
    out.append(("scan/serve_returncode/targets_are_reconciled_after_resume", ok_order,
                f"lines in serve(): initialize_boot {boot}, resume_from_db {resume}, reconcile_targets {rec}, _run_tasks {run}"))
    last = [s for s in node.body if isinstance(s, ast.Return)]
    ok_last = bool(last) and "returncode=handler.builder.returncode" in ast.unparse(last[-1].value)
    out.append(("scan/serve_returncode/builder_code_is_returned", ok_last, "final return passes handler.builder.returncode"))
    _, am = extract.find_def("stepup/core/director.py", "async_main")
    ok_val = any(isinstance(r, ast.Return) and "serve_result.returncode.value" in ast.unparse(r.value) for r in ast.walk(am) if isinstance(r, ast.Return) and r.value is not None)
    out.append(("scan/serve_returncode/exit_status_is_flag_value", ok_val, "async_main returns serve_result.returncode.value"))
    return out


@structural("C19/scan/pend_blocker_partition", props=["C19"],
            note="pend_blocker gets exactly one row per pending step: the top-ranked candidate (ROW_NUMBER = 1 per "
                 "dst_step) and, for steps without any candidate, the RUNNABLE row (complement by NOT IN)")
def pend_blocker_partition():
    pend = "stepup/core/pending.py"
    a = sqlfront.normalize(extract.module_constant(pend, "_INSERT_PEND_BLOCKER"))
    b = sqlfront.normalize(extract.module_constant(pend, "_INSERT_PEND_BLOCKER_RUNNABLE"))
    out = [
        ("scan/pend_blocker_partition/one_per_step", "PARTITION BY dst_step" in a and a.rstrip().endswith("WHERE rn = 1")
         and "ROW_NUMBER ( ) OVER" in a, "ROW_NUMBER() OVER (PARTITION BY dst_step ...) ... WHERE rn = 1"),
        ("scan/pend_blocker_partition/complement", "FROM pend_step WHERE i NOT IN ( SELECT dst_step FROM pend_blocker )" in b,
         "runnable arm inserts exactly the steps that have no row yet"),
        ("scan/pend_blocker_partition/runnable_targets_same_table", b.startswith("INSERT INTO pend_blocker ( dst_step , kind , src )"),
         "both statements fill pend_blocker"),
    ]
    return out


@bounded("pending_partition", props=["C19"],
         bound="seeded random workflows of up to 12 steps (missing inputs, failed producers, deferred flags, dynamic "
               "cycles, unsatisfiable resources, optional steps) built through the Workflow API; quick 150, thorough "
               "2000 graphs; invariant: attributed totals + cyclic bucket = ntotal, every count non-negative")
def pending_partition(tier, seed):
    import asyncio
    import random

    pendmod = extract.import_module("stepup/core/pending.py")
    sched = extract.import_module("stepup/core/scheduler.py")
    sq = extract.import_module("stepup/core/sqlite3.py")
    hashmod = extract.import_module("stepup/core/hash.py")
    enums = common.enums
    Step = common.Step
    rnd = random.Random(seed)
    n = 150 if tier == "quick" else 2000
    failures = []

    async def one(k):
        r = random.Random(rnd.random())
        with sq.DBSession.open(":memory:") as db:
            wf = Workflow(db, dir_queue=asyncio.Queue())
            await wf.initialize()
            scheduler = sched.Scheduler(wf, db=db)
            await scheduler.initialize(r.choice([None, "cpu:2", "cpu:1,gpu:1"]))
            async with db:
                wf.declare_static_files(wf.root, ["plan.py"])
                wf.update_file_hashes({"plan.py": hashmod.FileHash(b"d" * 32, 0o644, 1.0, 1, 1)},
                                      cause=enums.HashUpdateCause.CONFIRMED)
                wf.define_step(wf.root, "./plan.py", inp_paths=["plan.py"], need=enums.Need.PLAN)
                plan = wf.find(Step, "./plan.py")
                plan.set_state(enums.StepState.SUCCEEDED)
                nsteps = r.randint(1, 12)
                files = [f"f{i}.txt" for i in range(nsteps + 3)]
                static = r.sample(files, r.randint(0, 2))
                if static:
                    wf.declare_static_files(plan, static)
                    present = [p for p in static if r.random() < 0.6]
                    wf.update_file_hashes({p: (hashmod.FileHash(b"s" * 32, 0o644, 1.0, 1, 1) if p in present
                                               else hashmod.FileHash.unknown()) for p in static},
                                          cause=enums.HashUpdateCause.CONFIRMED)
                steps = []
                for i in range(nsteps):
                    outs = [f"o{i}.txt"]
                    inps = r.sample(files + [f"o{j}.txt" for j in range(i)], r.randint(0, 3))
                    res = r.choice([None, None, {"cpu": r.randint(1, 3)}, {"gpu": 2}])
                    creator = plan if not steps or r.random() < 0.7 else r.choice(steps)
                    try:
                        wf.define_step(creator, f"cmd{i}", inp_paths=inps, out_paths=outs,
                                       need=r.choice([enums.Need.DEFAULT, enums.Need.DEFAULT, enums.Need.OPTIONAL]),
                                       resources=res)
                    except Exception:  # noqa: BLE001
                        continue
                    steps.append(wf.find(Step, f"cmd{i}"))
                for s in steps:
                    roll = r.random()
                    if roll < 0.15:
                        s.set_state(enums.StepState.FAILED)
                    elif roll < 0.25:
                        db.execute("UPDATE step SET deferred = 1 WHERE node = ?", (s.i,))
                scheduler._update_meta_safe()
                scheduler._update_meta_after()
                scheduler._update_meta_ready()
                try:
                    summary, totals = pendmod._analyze_pending(wf)
                except Exception as e:  # noqa: BLE001  (the real analysis failed on a reachable workflow)
                    failures.append(dict(graph=k, seed=seed, error=repr(e)))
                    return
            total = sum(totals.values()) + summary.cyclic.nblocked
            ok = total == summary.ntotal and all(v >= 0 for v in totals.values()) and summary.ntotal >= 0
            buckets = summary.failed.nblocked + summary.deferred.nblocked + summary.other.nblocked + summary.runnable.nblocked
            ok = ok and buckets + summary.cyclic.nblocked <= summary.ntotal
            if not ok:
                failures.append(dict(graph=k, seed=seed, ntotal=summary.ntotal, attributed=dict(totals),
                                     cyclic=summary.cyclic.nblocked))

    async def run_all():
        for k in range(n):
            await one(k)
            if len(failures) > 3:
                break

    asyncio.run(run_all())
    return dict(evaluations=n, failures=failures)
