"""C15: requests that change the workflow are applied atomically — the transaction contract of DBSession and the
structure of the request handlers."""

from __future__ import annotations

import ast

from contracts import common, trusted
from vc import callgraph, engine, extract, sqlfront, sym
from vc import terms as tm
from vc import types as ty
from vc.engine import LoopSpec, contract
from vc.report import lemma, replayer, structural
from vc.sym import B, I, S, cur, wrap_bool, wrap_int
from vc.terms import BOOL, INT, STR

sqmod = extract.import_module("stepup/core/sqlite3.py")
DBSession = sqmod.DBSession
_Held = sqmod._Held


class TaskId:
    """An asyncio task, identified by an integer."""

    def __init__(self, idt):
        self.id = idt

    def __symid__(self):
        return self.id


TaskH = ty.Handle(TaskId)


class ConStub:
    """sqlite3.Connection: BEGIN / commit / rollback are effects; in_transaction is a ghost flag."""

    def __init__(self, idt):
        self.id = idt
        c = cur()
        self.in_tx = c.fresh(c.fresh_name("con.in_transaction"), BOOL)

    def __symid__(self):
        return self.id

    @property
    def in_transaction(self):
        return sym.wrap_bool(self.in_tx)

    def execute(self, sql, args=()):
        c = cur()
        c.event("con.execute", sql=sql, con=self)
        if sql.strip().upper().startswith("BEGIN"):
            if c.fork(c.fresh(c.fresh_name("begin.fails"), BOOL)):
                raise sqmod.sqlite3.OperationalError("database is locked [contract of BEGIN IMMEDIATE]")
            self.in_tx = tm.TRUE
        return None

    def executemany(self, sql, args=()):
        cur().event("con.executemany", sql=sql, con=self)

    def commit(self):
        cur().event("con.commit", con=self, was_in_transaction=self.in_tx)
        self.in_tx = tm.FALSE

    def rollback(self):
        cur().event("con.rollback", con=self)
        self.in_tx = tm.FALSE


ConH = ty.Handle(ConStub)


class LockStub:
    """asyncio.Lock: `locked` is the ghost state; acquire() returns once the lock is free and takes it
    (assumed: mutual exclusion); other tasks run while waiting."""

    def __init__(self, name):
        self.locked = cur().fresh(name + ".locked", BOOL)

    def acquire(self):
        c = cur()
        c.event("lock.acquire")
        # while this task waits other tasks run; when acquire() returns, the lock was free and is now ours
        self.locked = tm.TRUE
        c.writes.append((self, "locked"))
        return True

    def release(self):
        c = cur()
        c.prove(c.fresh_name("lock.release_of_held_lock"), self.locked, kind="pre")
        self.locked = tm.FALSE
        c.writes.append((self, "locked"))
        c.event("lock.release")

    def __havoc__(self, label):
        self.locked = cur().fresh(cur().fresh_name(label + ".locked"), BOOL)

    def __snapshot__(self):
        s = LockStub.__new__(LockStub)
        s.locked = self.locked
        return s


HeldRec = ty.Rec(_Held, dict(task=TaskH, con=ConH, opened_transaction=ty.Bool), eq=["task", "con", "opened_transaction"])
engine.CLASS_SPECS[_Held] = HeldRec


def current_task():
    return TaskId(cur().decls.const("ghost.current_task", INT))


class _Asyncio:
    @staticmethod
    def current_task():
        return current_task()

    def __getattr__(self, name):
        return getattr(sqmod.asyncio, name)


def _session(args):
    return ty.ObjOf(DBSession, dict(_held=ty.Opt(HeldRec), _lock=ty.Make(LockStub), _con=ty.Opt(ConH),
                                    _transaction_i=ty.Int, sqllog=ty.NoneT), name="DBSession").fresh("self")


def none_t(v) -> tm.T:
    return v.isnone if isinstance(v, sym.SymOpt) else tm.mk_bool(v is None)


def inv(s) -> tm.T:
    """Data-structure invariant of a session between two calls: the lock is taken iff somebody holds."""
    held_none = s._held.isnone if isinstance(s._held, sym.SymOpt) else tm.mk_bool(s._held is None)
    return tm.Iff(s._lock.locked, tm.Not(held_none))


def held_by_current(s, transaction=None) -> tm.T:
    h = s._held
    if h is None:
        return tm.FALSE
    isn = h.isnone if isinstance(h, sym.SymOpt) else tm.FALSE
    p = h.payload if isinstance(h, sym.SymOpt) else h
    t = tm.And(tm.Not(isn), tm.Eq(p.task.id, current_task().id))
    if transaction is not None:
        t = tm.And(t, tm.Iff(B(p.opened_transaction), tm.mk_bool(transaction)) if isinstance(transaction, bool)
                   else tm.Iff(B(p.opened_transaction), B(transaction)))
    return t


def _await_lock_interference(args):
    """Rely: while a task waits for the lock, other tasks take and give up the session; whoever gives it up
    leaves `_held` None (DBSession._release is the only writer that frees the lock)."""
    c = cur()
    s = args["self"]
    hs = ty.Opt(HeldRec).fresh(c.fresh_name("held.after_wait"))
    s._fields["_held"] = hs
    # when acquire() returns the lock was free, hence nobody holds
    c.pc.append(hs.isnone)
    con = ty.Opt(ConH).fresh(c.fresh_name("con.after_wait"))
    s._fields["_con"] = con


ENV = dict(asyncio=_Asyncio())


@contract("stepup/core/sqlite3.py::DBSession._acquire", props=["C15", "C05"])
class acquire:
    args = dict(self=_session, opened_transaction=ty.Bool)
    env = ENV
    requires = lambda self: wrap_bool(inv(self))
    await_hook = _await_lock_interference
    may_raise = {RuntimeError: None}
    ensures_named = dict(
        holds=lambda self, opened_transaction: wrap_bool(tm.And(held_by_current(self, opened_transaction), self._lock.locked)),
        returns_the_connection=lambda self, result: wrap_bool(tm.And(
            tm.Not(self._con.isnone if isinstance(self._con, sym.SymOpt) else tm.mk_bool(self._con is None)),
            tm.Eq(result.id, (self._con.payload if isinstance(self._con, sym.SymOpt) else self._con).id),
            tm.Eq(sym.resolve(self._held).con.id if False else (self._held.payload if isinstance(self._held, sym.SymOpt) else self._held).con.id, result.id))),
    )
    result = ConH
    modifies = ["self._held", "self._lock"]

    @staticmethod
    def finish(c, outcome, args, old):
        s = args["self"]
        if outcome[0] == "return":
            # a task that already holds the session never gets it a second time (it would wait for itself)
            c.prove("nested_use_is_rejected", tm.Not(held_by_current(old.self)), kind="post")
        if outcome[0] == "raise":
            # nested use is detected before waiting; a closed session gives the lock back
            acq = [e for e in c.trace if e.kind == "lock.acquire"]
            rel = [e for e in c.trace if e.kind == "lock.release"]
            c.prove("raise_leaves_lock_balanced", len(acq) == len(rel), kind="post")
            if not acq:
                c.prove("nested_use_detected_before_waiting", held_by_current(old.self), kind="post")


@contract("stepup/core/sqlite3.py::DBSession._release", props=["C15", "C05"])
class release:
    args = dict(self=_session)
    requires = lambda self: wrap_bool(self._lock.locked)
    ensures = lambda self: wrap_bool(tm.And(none_t(self._held), tm.Not(self._lock.locked)))
    modifies = ["self._held", "self._lock"]


@contract("stepup/core/sqlite3.py::DBSession._require_transaction_con", props=["C15"])
class require_transaction_con:
    """Only the task that opened the transaction may use it."""

    args = dict(self=_session)
    env = ENV
    raises = {RuntimeError: lambda self: wrap_bool(tm.Not(held_by_current(self, True)))}
    ensures = lambda self, result: wrap_bool(tm.Eq(result.id, self._held.payload.con.id
                                                   if isinstance(self._held, sym.SymOpt) else self._held.con.id))
    result = ConH
    modifies = []


def _aenter_finish(c, outcome, args, old):
    """BEGIN IMMEDIATE is issued after exclusive access was taken; if it fails the access is given back."""
    begins = [e for e in c.trace if e.kind == "con.execute" and e.sql.strip().upper() == "BEGIN IMMEDIATE"]
    acq = [e for e in c.trace if e.kind == "call" and e.callee == "DBSession._acquire"]
    rel = [e for e in c.trace if e.kind == "call" and e.callee == "DBSession._release"]
    if outcome[0] == "return":
        c.prove("begin_after_acquire", len(begins) == 1 and len(acq) == 1 and acq[0].index < begins[0].index, kind="post")
        c.prove("not_released", len(rel) == 0, kind="post")
        c.prove("transaction_counter_incremented", args["self"]._transaction_i == old.self._transaction_i + 1, kind="post")
    elif outcome[0] == "raise" and acq:
        c.prove("failed_begin_releases", len(rel) == 1, kind="post")


@contract("stepup/core/sqlite3.py::DBSession.__aenter__", props=["C15", "C05"])
class aenter:
    args = dict(self=_session)
    env = ENV
    requires = lambda self: wrap_bool(inv(self))
    may_raise = {RuntimeError: None, Exception: None}
    finish = _aenter_finish
    ensures = lambda self: wrap_bool(held_by_current(self, True))
    modifies = ["self._held", "self._lock", "self._transaction_i"]


def _aexit_finish(c, outcome, args, old):
    """Exactly one of commit (left without exception, still in a transaction) or rollback (left with an
    exception); the exclusive access is always given up; a transaction closed mid-context is an error and is
    not committed."""
    commits = [e for e in c.trace if e.kind == "con.commit"]
    rollbacks = [e for e in c.trace if e.kind == "con.rollback"]
    rel = [e for e in c.trace if e.kind == "call" and e.callee == "DBSession._release"]
    exc = args["exc"]
    has_exc = tm.Not(exc.isnone) if isinstance(exc, sym.SymOpt) else tm.mk_bool(exc is not None)
    req = [e for e in c.trace if e.kind == "call" and e.callee == "DBSession._require_transaction_con"]
    if outcome[0] in ("return", "raise") and req:
        c.prove("always_releases", len(rel) == 1, kind="post")
    if outcome[0] == "return":
        c.prove("commit_xor_rollback", len(commits) + len(rollbacks) == 1, kind="post")
        c.prove("commit_iff_no_exception", tm.Iff(tm.mk_bool(len(commits) == 1), tm.Not(has_exc)), kind="post")
        if commits and rel:
            c.prove("commit_before_release", commits[0].index < rel[0].index, kind="post")
        for e in commits:
            c.prove("commit_only_of_an_open_transaction", e.was_in_transaction, kind="post")
    if outcome[0] == "raise":
        c.prove("no_commit_when_raising", len(commits) == 0, kind="post")


class _ExcStub:
    def __init__(self, name):
        pass


@contract("stepup/core/sqlite3.py::DBSession.__aexit__", props=["C15", "C05"])
class aexit:
    args = dict(self=_session, exc_type=ty.Opt(ty.Opaque("ExcType")), exc=ty.Opt(ty.Make(_ExcStub)), tb=ty.NoneT)
    env = ENV
    requires = lambda self, exc_type, exc: wrap_bool(tm.And(
        self._lock.locked, tm.Iff(exc_type.isnone if isinstance(exc_type, sym.SymOpt) else tm.mk_bool(exc_type is None),
                                  exc.isnone if isinstance(exc, sym.SymOpt) else tm.mk_bool(exc is None))))
    may_raise = {RuntimeError: None}
    finish = _aexit_finish
    modifies = ["self._held", "self._lock"]


def _run_finish(c, outcome, args, old):
    runs = [e for e in c.trace if e.kind in ("con.execute", "con.executemany")]
    req = [e for e in c.trace if e.kind == "call" and e.callee == "DBSession._require_transaction_con"]
    if runs:
        c.prove("statement_runs_on_the_transaction_connection", len(req) == 1 and req[0].index < runs[0].index
                and runs[0].con is req[0].result, kind="post")


@contract("stepup/core/sqlite3.py::DBSession._run", props=["C15"])
class run:
    """A statement runs only on the connection of the calling task's open transaction."""

    args = dict(self=_session, query=lambda a: "SELECT 1", args=lambda a: (), many=ty.Bool)
    env = ENV
    may_raise = {RuntimeError: None}
    finish = _run_finish
    modifies = []


# ---------------------------------------------------------------- structure of the request handlers

CORE = "stepup/core/"
GRAPH_MODULES = ["workflow.py", "trellis.py", "step.py", "file.py", "static_tree.py", "scheduler.py", "nglob.py"]
ASYNC_MODULES = ["director.py", "builder.py", "executor.py", "startup.py", "watcher.py", "finalize.py"]
WRITE_WORDS = ("INSERT", "UPDATE", "DELETE", "REPLACE")


def _sql_writes(text: str) -> bool:
    t = text.strip().upper()
    t = t.split("\n", 1)[0] if t.startswith("--") else t
    words = t.replace("(", " ").split()
    if not words:
        return False
    if words[0] in WRITE_WORDS:
        return True
    if words[0] == "WITH":
        return any(w in WRITE_WORDS for w in words)
    return False


def _function_writes_directly(fn, modconsts):
    for n in ast.walk(fn):
        if isinstance(n, ast.Constant) and isinstance(n.value, str) and _sql_writes(n.value):
            return True
        if isinstance(n, ast.JoinedStr):
            head = "".join(v.value for v in n.values if isinstance(v, ast.Constant) and isinstance(v.value, str))
            if _sql_writes(head):
                return True
        if isinstance(n, ast.Name) and n.id in modconsts:
            return True
    return False


def mutating_names():
    """Names of synchronous methods / functions of the graph modules that (transitively, by name) execute a
    statement that writes.  Name-based, hence conservative: a method is mutating if any method of that name is."""
    fns = {}
    for m in GRAPH_MODULES:
        rel = CORE + m
        _, tree = extract.read_module(rel)
        mod = extract.import_module(rel)
        modconsts = {k for k, v in vars(mod).items() if isinstance(v, str) and k.isupper() and _sql_writes(v)}
        for node in ast.walk(tree):
            if isinstance(node, ast.FunctionDef):
                fns.setdefault(node.name, []).append((node, modconsts))
    mut = {name for name, lst in fns.items() if any(_function_writes_directly(f, mc) for f, mc in lst)}
    changed = True
    while changed:
        changed = False
        for name, lst in fns.items():
            if name in mut:
                continue
            for f, _ in lst:
                called = {c[1] for c in callgraph.calls_of(f)}
                if called & mut:
                    mut.add(name)
                    changed = True
                    break
    # reading helpers that happen to share a name with nothing: keep the set as computed
    return mut


def _db_blocks(fn):
    out = []
    for n in ast.walk(fn):
        if isinstance(n, ast.AsyncWith):
            for it in n.items:
                if ast.unparse(it.context_expr) in ("self.db", "db", "self.workflow.db", "workflow.db"):
                    out.append(n)
    return out


def _inside(node, block):
    return any(node is x for b in block.body for x in ast.walk(b))


def transaction_openers(mut):
    """Async functions (by name) that open a transaction of their own in which they write, directly or through an
    awaited callee."""
    fns = {}
    for m in ASYNC_MODULES:
        _, tree = extract.read_module(CORE + m)
        for node in ast.walk(tree):
            if isinstance(node, ast.AsyncFunctionDef):
                fns.setdefault(node.name, []).append(node)
    opener = set()
    for name, lst in fns.items():
        for f in lst:
            for b in _db_blocks(f):
                calls = {c[1] for x in b.body for c in callgraph.calls_of(x)}
                if calls & mut:
                    opener.add(name)
    changed = True
    while changed:
        changed = False
        for name, lst in fns.items():
            if name in opener:
                continue
            for f in lst:
                awaited = {ast.unparse(a.value.func).split(".")[-1] for a in ast.walk(f)
                           if isinstance(a, ast.Await) and isinstance(a.value, ast.Call)}
                inner = {ast.unparse(c.func).split(".")[-1] for a in ast.walk(f) if isinstance(a, ast.Await)
                         for c in ast.walk(a.value) if isinstance(c, ast.Call)}
                if (awaited | inner) & opener:
                    opener.add(name)
                    changed = True
                    break
    return opener


def rpc_handlers():
    _, cls = extract.find_def(CORE + "director.py", "DirectorHandler")
    out = []
    for n in cls.body:
        if isinstance(n, ast.AsyncFunctionDef) and any(ast.unparse(d) == "allow_rpc" for d in n.decorator_list):
            out.append(n)
    return out


@structural("C15/handlers/one_transaction_per_request", props=["C15"],
            note="for every @allow_rpc method of DirectorHandler (discovered by decorator): every mutating call lies inside "
                 "an `async with self.db` span, no span contains an await, and the request opens at most one writing "
                 "transaction (its own spans that write plus awaited callees that open writing transactions)")
def one_transaction_per_request():
    mut = mutating_names()
    openers = transaction_openers(mut)
    out = [("handlers/discovered", len(rpc_handlers()) >= 10, f"{len(rpc_handlers())} handlers; {len(mut)} mutating names")]
    for h in rpc_handlers():
        blocks = _db_blocks(h)
        mcalls = [n for n in ast.walk(h) if isinstance(n, ast.Call) and isinstance(n.func, ast.Attribute)
                  and n.func.attr in mut]
        outside = [ast.unparse(c.func) for c in mcalls if not any(_inside(c, b) for b in blocks)]
        out.append((f"handlers/{h.name}/mutations_inside_a_transaction", not outside, f"outside: {outside}"))
        awaits_in = [ast.unparse(a)[:60] for b in blocks for x in b.body for a in ast.walk(x) if isinstance(a, ast.Await)]
        out.append((f"handlers/{h.name}/no_await_inside_a_transaction", not awaits_in, f"awaits: {awaits_in}"))
        writing_blocks = [b for b in blocks if any(_inside(c, b) for c in mcalls)]
        awaited_openers = [ast.unparse(c.func) for a in ast.walk(h) if isinstance(a, ast.Await)
                           for c in ast.walk(a.value) if isinstance(c, ast.Call)
                           and ast.unparse(c.func).split(".")[-1] in openers]
        n = len(writing_blocks) + len(awaited_openers)
        out.append((f"handlers/{h.name}/at_most_one_writing_transaction", n <= 1,
                    f"{len(writing_blocks)} own writing span(s) + awaited {awaited_openers}"))
        # a span inside a loop (or a comprehension) is opened once per iteration: several transactions for one request
        loops = [l for l in ast.walk(h) if isinstance(l, (ast.For, ast.AsyncFor, ast.While))]
        looped = [b.lineno - h.lineno for b in writing_blocks
                  if any(any(b is x for st in l.body + l.orelse for x in ast.walk(st)) for l in loops)]
        looped_openers = [ast.unparse(c.func) for l in loops for st in l.body + l.orelse for a in ast.walk(st)
                          if isinstance(a, ast.Await) for c in ast.walk(a.value) if isinstance(c, ast.Call)
                          and ast.unparse(c.func).split(".")[-1] in openers]
        out.append((f"handlers/{h.name}/no_writing_transaction_inside_a_loop", not looped and not looped_openers,
                    f"writing span(s) at relative line(s) {looped} / awaited {looped_openers} inside a loop of the handler"))
        # what the writing span relies on was read inside it: a span that ends before the writing one starts (validate,
        # release the lock, then write) lets another request change the graph in between, and the two are applied
        # although neither serial order accepts both
        earlier = [b.lineno - h.lineno for w in writing_blocks for b in blocks if b is not w and b.lineno < w.lineno]
        out.append((f"handlers/{h.name}/nothing_is_read_in_an_earlier_transaction", not earlier,
                    f"span(s) at relative line(s) {earlier} end before the writing span starts"))
        # a rejection has to leave the span as an exception: DBSession.__aexit__ rolls back only then.  An except clause
        # (or contextlib.suppress) inside the span that ends without raising lets the span commit what was written
        # before the rejection
        sw = [f"+{ln - h.lineno} {what}" for b in writing_blocks for ln, what in _swallowed(b, mut)]
        out.append((f"handlers/{h.name}/a_rejection_leaves_the_transaction_as_an_exception", not sw,
                    f"inside a writing span, around mutating calls: {sw}"))
    # the same below the handlers: no function of the graph modules catches the rejection of a mutating callee and
    # carries on (it would be committed half-applied by the handler's span)
    sw = []
    for m in GRAPH_MODULES:
        _, tree = extract.read_module(CORE + m)
        for fn in ast.walk(tree):
            if isinstance(fn, (ast.FunctionDef, ast.AsyncFunctionDef)):
                sw += [f"{m}:{fn.name}:{ln} {what}" for ln, what in _swallowed(fn, mut)]
    out.append(("handlers/graph_functions_do_not_swallow_rejections", not sw, f"swallowing: {sw}"))
    return out


GRAPH_MODULES = ["workflow.py", "trellis.py", "step.py", "file.py", "nglob.py", "static_tree.py", "scheduler.py"]


def _swallowed(root, mut):
    """(line, description) of every except clause / suppress block below `root` that can end without raising although
    its protected statements contain a mutating call."""
    found = []
    for t in ast.walk(root):
        if isinstance(t, ast.Try) and t.handlers:
            calls = [c.func.attr for b in t.body for c in ast.walk(b)
                     if isinstance(c, ast.Call) and isinstance(c.func, ast.Attribute) and c.func.attr in mut]
            if not calls:
                continue
            for hd in t.handlers:
                if not (hd.body and isinstance(hd.body[-1], ast.Raise)):
                    found.append((hd.lineno, f"except {ast.unparse(hd.type) if hd.type else ''} around {sorted(set(calls))}"))
        if isinstance(t, (ast.With, ast.AsyncWith)) and any("suppress" in ast.unparse(it.context_expr) for it in t.items):
            calls = [c.func.attr for b in t.body for c in ast.walk(b)
                     if isinstance(c, ast.Call) and isinstance(c.func, ast.Attribute) and c.func.attr in mut]
            if calls:
                found.append((t.lineno, f"suppress around {sorted(set(calls))}"))
    return found


@replayer("C15/handlers/amend_step/at_most_one_writing_transaction")
def replay_f6(o):
    """The committed history specs/replay/F6_amend_commits_then_fails.py sends one amend_step request whose promoted
    hash job fails after the amendment was committed."""
    import os
    import subprocess

    from vc.report import VERIF

    script = os.path.join(VERIF, "specs", "replay", "F6_amend_commits_then_fails.py")
    r = subprocess.run(["/venv/bin/python", script], cwd=extract.REPO, capture_output=True, text=True,
                       env={"PYTHONPATH": extract.REPO, "PATH": "/usr/bin:/bin"})
    return dict(reproduced=r.returncode == 1, python=open(script).read(), output=(r.stdout + r.stderr)[-1500:],
                witness=dict(request="amend_step(job, ['tree/sub'], ...) with tree/ a static tree and tree/sub a directory",
                             claim="the request fails (HashFailedError) after its first transaction was committed"))
