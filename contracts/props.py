"""Registry of claimed properties: which contract modules serve them, and the decided /
undecided clauses that go into the evidence files."""

import importlib

PROPS = {
    "C13": dict(
        modules=["contracts.C13_hash", "contracts.C13_lemmas", "contracts.C13_bounded", "contracts.C13_label"],
        decided=[
            "the byte stream digested for a step's input hash equals the spec stream INP(label, shell, "
            "sorted inputs, sorted variables, sorted overrides); the output digest equals FILES(sorted outputs)",
            "the spec stream is injective on valid configurations (token and record self-delimitation lemmas)",
            "refreshed(): unknown on stat failure, self when (mode, mtime, size, inode) are unchanged, "
            "otherwise the digest of the current content with the current stat fields",
        ],
        undecided=["the structural induction over the number of records (lemmas H1/H3 imply injectivity of the whole "
                   "stream) is a meta-step unless the Lean check is present",
                   "wiring of the ingredients in executor.py (_compute_inp_step_hash, _compute_full_step_hash): only the source of "
                   "the tracked environment values is pinned (structural obligation C04/scan/hash_env_source)"],
        assumptions=["SHA-256 collision resistance", "UTF-8 facts", "os.stat reports st_mode != 0 for an existing file"],
        level="Contracts on the real hash.py / step.py functions pin the digested byte streams to spec streams for all "
              "inputs and all iteration counts (loop invariants), prove refreshed()/compute_file_digest() against the "
              "property's change-detection sentence, and injectivity of the spec streams is proved as solver lemmas; "
              "the JSON round trip is a bounded stand-in.",
        note="Trusted: hashlib/SHA-256 collision resistance, UTF-8 facts, os.stat/open contracts, attrs-generated "
             "__init__/__eq__, the induction schema, the solvers, pyvc itself.",
    ),
    "C18": dict(
        modules=["contracts.C18_under"],
        decided=["every selection site (range, substr, prefix pattern, startswith) is equivalent to "
                 "under(d, l) := d ends with '/' and l starts with d"],
        undecided=[],
        assumptions=["SQLite LIKE/GLOB/substr/length/BINARY collation as documented", "UTF-8 order facts"],
        level="Every directory-selection site (range comparison, substr, GLOB/LIKE prefix pattern, Python startswith) "
              "in the real functions and SQL constants is proved equivalent to one spec predicate under(d, l) for all "
              "strings; the range lemma is proved in an array encoding; the SQL pattern operators' assumed contracts "
              "are validated exhaustively on small strings against the SQLite library.",
        note="Trusted: SQLite operator semantics (validated bounded), posixpath.join contract, code point order facts, "
             "assumed contracts of Trellis.create / Node.creator / declare_static_files, the solvers, pyvc itself.",
    ),
}

PROPS["C06"] = dict(
    modules=["contracts.C06_clean", "contracts.C19_status"],
    decided=["every path through the deleting functions that reaches remove/rmdir/DELETE satisfies the ownership guard "
             "(state-free, so it holds for every database content and therefore every history)"],
    undecided=["time of check / time of use between refreshed() and remove() (a concurrent writer is outside the model)"],
    assumptions=["Path.remove/rmdir/iterdir and os.stat behave as documented"],
    level="Guard-dominance contracts on the real functions: every effect that deletes (Path.remove, Path.rmdir, remove_p, "
          "DELETE FROM node, writes to Workflow.to_be_deleted) is proved, on every path, to be dominated by the ownership "
          "condition the property states; SQL selections (SELECT_OUTPUTS, optional_to_be_deleted) are proved equivalent "
          "to their spec predicates.",
    note="Trusted: file-system primitives, SQLite statement semantics, FileHash.from_json (bounded in C13), solvers, pyvc.",
)

PROPS["C16"] = dict(
    modules=["contracts.C16_rpc", "contracts.C13_lemmas"],
    decided=["framing: the k-th message of a concatenation of encodings is returned as (id_k, body_k) for every "
             "fragmentation of the byte stream by recv", "pairing by call id on client and server", "only "
             "@allow_rpc methods are callable", "failure mapping usage/non-usage",
             "a peer that vanishes at any byte offset is reported as gone (None), never as an error of the reading loop",
             "one asyncio task per connection, no shared task group; the reply queue is unbounded"],
    undecided=["'exactly one reply' and 'never blocks' under arbitrary asyncio task interleavings and disconnects",
               "payload pickling (external)"],
    assumptions=["socket.recv / StreamReader.readexactly return bytes of the stream in order"],
    level="Contracts on the real framing functions (encode, decode, readexactly loop with an invariant over the ghost "
          "byte stream) prove that a message is read back exactly for every fragmentation; pairing, exposure and "
          "failure mapping are proved per function on map/guard contracts.",
    note="Trusted: socket/asyncio stream primitives, pickle, inspect.signature.bind, asyncio scheduling, solvers, pyvc.",
)

PROPS["C19"] = dict(
    modules=["contracts.C19_status", "contracts.C11_need", "contracts.C19_targets", "contracts.C06_clean", "contracts.C04_noop", "contracts.C03_inputs"],
    decided=["flag logic of report_unbuilt and its helpers (FAILED, PENDING, DRAINED, WARNING bits) against the "
             "property's sentence", "Builder.finalize stores the code", "TUI status translation keeps every reported bit",
             "classification of glob violations",
             "an invalid requested target: reconcile_targets raises exactly for an attached static / volatile target without pending creator chain (with _creator_chain_pending, find_attached, is_regular_output verified)",
             "a step refused at launch ends FAILED (_new_run: hashes stored before the completion)",
             "reset_interrupted_steps leaves no step RUNNING / CHECKING without a job"],
    undecided=["that step states in the final database are what the build history should have produced",
               "the recursive attribution walk of the pending summary (assumed closure; partition checked bounded)"],
    assumptions=["ReturnCode is a 6-flag bit set", "exit statuses are below 256"],
    level="The real report_unbuilt / _report_* functions and translate_wait_status are executed symbolically with "
          "ReturnCode as a vector of booleans; the postconditions are the property's sentence bit by bit.",
    note="Trusted: analyze_pending's count (bounded partition check), find_glob_violations, SQLite, solvers, pyvc.",
)

PROPS["C20"] = dict(
    modules=["contracts.C20_paths", "contracts.C13_label"],
    decided=["translate / translate_back designate the same file (lexical resolution) for relative and absolute paths and "
             "work directories; results are normalised; a normalised root-relative path is unchanged; affixes are "
             "extracted and re-applied exactly; command_and_workdir inverts adjust_label",
             "get_info and getenv(back=True) hand paths back through translate_back, the latter keeping the affixes (scan)"],
    undecided=["symbolic links in directories crossed by '..' (lexical resolution only)"],
    assumptions=["posixpath contracts POSIX_AXIOMS (validated bounded)", "the director's working directory is the project root"],
    level="The real translate / translate_back / get_affixes / apply_affixes are executed symbolically; path algebra "
          "is expressed through an uninterpreted resolution function with the assumed contracts of posixpath, each of "
          "which is validated exhaustively on small paths against CPython.",
    note="Trusted: posixpath contracts (bounded validation), path.Path delegating to posixpath, solvers, pyvc.",
)

PROPS["C12"] = dict(
    modules=["contracts.sched_sql", "contracts.C12_limits", "contracts.C10_meta", "contracts.C09_setters", "contracts.C11_need"],
    decided=["a step is moved to RUNNING only if it is safe (including holds) and every required resource is defined and "
             "not over-committed by RUNNING steps (SQL, exact)", "the invariant used <= available is preserved by the "
             "dispatch transaction", "job_loop starts a job only below the job limit", "hold/release counter contracts",
             "a fully recycled step gets the resource requirements of its new declaration on every path of "
             "Step.after_recycle"],
    undecided=["'at no instant' across real time: commands are OS processes; the model ends at the launch event"],
    assumptions=["SUM of units does not overflow 64 bits", "CHECK constraints of the step table"],
    level="The dispatch query and its resource subquery are proved equivalent to the property's predicates for all rows; "
          "the job limit is a guard-dominance obligation on the real job_loop; hold counters are function contracts.",
    note="Trusted: SQLite statement semantics, asyncio single-threadedness between awaits, solvers, pyvc.",
)

PROPS["C15"] = dict(
    modules=["contracts.C15_atomic", "contracts.C16_rpc"],
    decided=["DBSession: BEGIN IMMEDIATE after exclusive access, exactly one of commit / rollback at exit, access always "
             "given up, statements only on the caller's own transaction, nested use rejected",
             "every @allow_rpc handler performs its mutations inside one `async with self.db` span that contains no await",
             "the server's receive loop cancels calls in flight only on the exception path and waits for them otherwise",
             "no handler swallows a rejection inside its transaction, reads in an earlier transaction what it writes in a later one, or opens a writing transaction per loop iteration",
             "the loop that sends replies never cancels a call in flight"],
    undecided=["in-memory state outside the database (to_be_deleted, dir_queue, hash_queue) is not rolled back",
               "client death at an arbitrary byte offset (covered through the framing contracts of C16 only)"],
    assumptions=["asyncio.Lock mutual exclusion", "SQLite rollback restores the stored tables"],
    level="Function contracts on the real DBSession methods (effects: BEGIN, commit, rollback, lock) and a structural "
          "obligation, generated from the AST of every @allow_rpc handler, that all mutating calls lie in one "
          "transaction span without awaits.",
    note="Trusted: asyncio.Lock, SQLite transactions, the name-based classification of mutating callees, solvers, pyvc.",
)

PROPS["C10"] = dict(
    modules=["contracts.sched_sql", "contracts.C12_limits", "contracts.C10_dispatch", "contracts.C09_setters", "contracts.C10_meta", "contracts.C10_bounded"],
    decided=["the dispatch query is exact over the cached columns (both directions)", "coherence of _ready / _has_hash: "
             "every row event in the read footprint has a trigger flagging the affected steps; only the recomputation "
             "clears the flag; recomputation precedes selection in the same transaction",
             "local equations of _safe / _implied_need", "phase end: job_loop returns only after an empty answer with both "
             "task tables empty and no await in between", "termination: accepted defers strictly increase defer_count up to the cap",
             "mark_completed wakes the consumers of every output it flips back to BUILT",
             "the three refreshers of the cached columns execute the stated statements in order, skipped exactly when no step is flagged; the triggers that flag _check_after / _check_ready / _check_safe cover the row events their definitions read"],
    undecided=["that no wake-up of the job loop (asyncio event) is lost (interleaving property)", "the recursive propagation "
               "of _safe / _implied_need (assumed closures); agreement of the cached columns with their definitions after "
               "arbitrary histories and lost wake-ups in the stored graph: bounded stand-in dispatch_is_exact (every schedule "
               "of nine small worlds, eligibility from the base tables at every decision)"],
    assumptions=["SQLite fires per-row AFTER triggers as documented, recursive triggers off"],
    level="SQL text of the dispatch query, triggers and recomputation statements is parsed from the working tree and "
          "proved against spec predicates / coverage tables; job_loop and mark_completed are executed symbolically.",
    note="Trusted: SQLite trigger semantics, the recursive closures, asyncio scheduling between awaits, solvers, pyvc.",
)

PROPS["C03"] = dict(
    modules=["contracts.sched_sql", "contracts.C12_limits", "contracts.C10_dispatch", "contracts.C03_inputs", "contracts.C03_rerun", "contracts.C09_setters", "contracts.C13_hash"],
    decided=["a selected step is ready, and ready means every initial input attached and BUILT/CONFIRMED, no attached "
             "dynamic input PLANNED/OUTDATED, no VOLATILE input", "_derive_job sanity checks", "a hash is recorded only "
             "if no input changed unexpectedly, no amended input was unavailable or unfresh and the run succeeded",
             "ran_concurrently: overlap iff both times exist and start <= stop", "completion writes in one transaction; "
             "input re-hash before the command and full re-hash after it; drain on unexpected input changes",
             "mark_completed: accepted defer keeps the step PENDING, capped",
             "the refusal at launch (_new_run), the drain for unexpected input changes, the re-hash of every input after the command (scan), the stop-time record inside the completion"],
    undecided=["'for all interleavings': a producer finishing between a consumer's read and its amend relies on "
               "monotonic clock readings taken in other tasks (assumed)"],
    assumptions=["a file whose (mode, size, digest) is unchanged has unchanged content (SHA-256)"],
    level="SQL predicates of dispatch readiness proved against the property's notion of an available input; the "
          "executor's classification and completion functions executed symbolically with effect traces.",
    note="Trusted: monotonic clocks, SQLite, hash contracts of C13, solvers, pyvc.",
)

PROPS["C08"] = dict(
    modules=["contracts.C06_clean", "contracts.C03_inputs", "contracts.C08_claims", "contracts.C20_paths", "contracts.C08_bounded"],
    decided=["the claim lookup (_existing_claim) and the guard (_check_declaration) are exact against the stored tables: "
             "new iff no attached file node has the label, no-op iff the same creator holds it in the same role, rejected "
             "for every other claim", "_raise_if_step_exists rejects exactly an attached step with the label",
             "_find_owning_static_tree returns None exactly when no attached tree covers the path",
             "_declare_file creates the node only for a declarable (state, path, creator) and exactly once; its "
             "preconditions (path unclaimed; a product is matched by no registered glob) are proved at every call site "
             "in declare_static_files, define_step and amend_step, across the writes of the earlier iterations",
             "declare_static_files hands a path over only to a covering tree of the same creator, declares only "
             "unclaimed paths, leaves claims on other paths unchanged, and every requested path that is claimed afterwards "
             "is claimed as static", "_raise_if_glob_match: returns only if no attached registration matches any product "
             "path, raises only if one does", "register_nglob: no recorded match is an attached product or under .stepup/, "
             "the registration is stored exactly once", "register_static_tree installs the tree only if no attached tree "
             "covers it or lies below it and every attached file below it is the creator's own static file"],
    undecided=["full recycling (Trellis.try_recycle / Node.reattach): assumed to leave an unknown view; covered only by "
               "the bounded histories (finding F8)", "the text of the error messages (their order independence)",
               "Trellis.create's effect on the view is an assumed contract", "whether convert_nglob_to_regex renders the "
               "pattern's meaning (C17)"],
    assumptions=["relational reading of SELECT statements (contracts/graphdb.py)", "schema facts: UNIQUE(kind, label), "
                 "foreign keys, CHECK constraints of node, triggers keeping UNDECLARED files detached",
                 "re.fullmatch is a function of (regex, path)"],
    level="Function contracts over a ghost relational view of the stored graph (one uninterpreted function per table "
          "column and database version, SELECT statements of the real code read mechanically into it) and an abstract "
          "view of the declarations (claimed / role / creator per path, step labels, covering trees, glob matches) whose "
          "frames are proved through every loop that writes.  The property's sentence is the postcondition or the guard "
          "of each declaring function; the two arrival orders are the two functions that meet the same conflict "
          "predicate.  Recycling histories are a bounded stand-in on the real code.",
    note="Trusted: SQLite statement semantics as read by contracts/graphdb.py, schema constraints and triggers, the "
         "assumed view effects of Trellis.create / Step.add_nglob / Node.add_source / _supply_files, the regular "
         "expression engine, solvers, pyvc.  Known findings F3 and F8 (see known_findings.json).",
)

PROPS["C09"] = dict(
    modules=["contracts.C10_dispatch", "contracts.C08_claims", "contracts.C09_invariants", "contracts.C09_hashes", "contracts.C03_rerun", "contracts.C19_targets", "contracts.C09_setters", "contracts.C09_bounded"],
    decided=["Workflow.update_file_hashes applies the transition table record by record (scoped: requests of two paths; every "
             "combination of cause, old state and hash-known-ness): refusal exactly outside the table, the table's new state and "
             "the given hash written, exactly the table's follow-up on the record's own file, writes before follow-ups; "
             "handle_updated_file / handle_deleted_file mark the producer of an output that is no longer BUILT pending; "
             "Step.reset_for_rerun detaches what the step created, drops what it announced and outdates its BUILT outputs",
             "Node.detach, Node.reattach and Trellis.create (new node, re-created node with its former products detached "
             "in a loop) preserve, for every node: detached iff no creator or detached creator; creator rows exist; the "
             "root is its own attached creator and no other node creates itself; a file is no creator; an UNDECLARED "
             "file is detached", "Node.reattach never meets an attached old creator (its ConsistencyError is unreachable "
             "from a well-formed graph)", "Node.add_source inserts an edge only if the sink does not reach the source, "
             "unless the caller vouches for it", "_HASH_TRANSITIONS (complete enumeration): role preserved, hashed states "
             "only with a known hash, new state a function of (cause, role, hash known)", "CHECK constraints and aborting "
             "triggers the invariants lean on are present with the expected conditions",
             "change_is_relevant, mark_consuming_steps_pending (detached consumers included), Node.products / _dependencies, a successful skip stores the found output hashes"],
    undecided=["'after every committed change, for any sequence': decided for the listed functions only; the other mutating "
               "functions (delete_detached, reset_for_rerun, mark_completed, update_file_hashes, register_static_tree's "
               "handover) and the composition are covered by the bounded stand-in", "equivalence of the local form of "
               "'detached' with reachability from the root needs well-founded creator chains (observed by the bounded "
               "stand-in, checked by the code's own _check_consistency)", "'no internal error for any request': bounded only"],
    assumptions=["relational reading of SQLite statements (contracts/graphdb.py)", "the recursive statements compute the "
                 "closures they are named after (texts pinned in specs/sql)", "creators are attached steps or None in "
                 "Trellis.create"],
    level="Inductive invariants over the relational ghost view: each of the three functions that write creator links is "
          "executed symbolically with its UPDATE / INSERT statements read into per-column versions of the tables, the "
          "recursive flag propagation as an assumed closure, and the invariant as a universally quantified pre- and "
          "postcondition (the loop of Trellis.create carries it with the products of the re-created node exempt).  "
          "Finite tables and schema texts are enumerated.  Whole histories are a bounded stand-in: every sequence of "
          "nine director-level operations up to length 4 (quick) / 6 (thorough) on the real code with the real "
          "scheduler, checking every committed state.",
    note="Trusted: SQLite statement, constraint and trigger semantics as read by contracts/graphdb.py, the closure "
         "statements, graph theory of edge insertion, solvers, pyvc.",
)

PROPS["C04"] = dict(
    modules=["contracts.sched_sql", "contracts.C12_limits", "contracts.C10_dispatch", "contracts.C03_inputs", "contracts.C13_hash", "contracts.C04_noop", "contracts.C04_watcher", "contracts.C19_targets", "contracts.C09_setters", "contracts.C11_need", "contracts.C04_bounded"],
    decided=["reset_interrupted_steps changes no step state and marks nothing pending when no step is RUNNING, CHECKING or "
             "FAILED", "Executor._run_hash_job applies a recomputed file hash only if it differs from the stored one or the "
             "cause is CONFIRMED", "FileHash.refreshed returns the stored hash when mode, mtime, size and inode are unchanged "
             "(C13)", "the dispatch query selects only PENDING steps (C10), so a workflow whose steps all SUCCEEDED "
             "dispatches nothing", "Executor.try_skip_job never launches a command and completes a step only when both "
             "digests equal the stored ones (C03)", "Step.after_recycle keeps state and stored hash (only FAILED becomes "
             "PENDING)", "the stored step hash is dropped only in the four places the property allows (scan)",
             "no command is launched outside run jobs (C12 scan)"],
    undecided=["that every history ending in a successful build reaches the quiescent state (bounded stand-in)",
               "sentence 2: after editing sources only the cone of the edit reruns (not decided)", "rescan_files, "
               "rescan_env_vars, rescan_nglobs and the watcher are covered by the bounded stand-in only"],
    assumptions=["os.stat reports changed mode, mtime, size or inode for a changed file", "relational reading of SQLite"],
    level="Sentence 1 is reduced to per-function contracts on the real start-up, hash-job, dispatch and recycle functions, "
          "each proved from a quiescent entry state or as an only-if guard on the effect that would rerun something; the "
          "composition over whole histories is a bounded stand-in on the real Workflow and Scheduler.",
    note="Trusted: SQLite, os.stat, the executor stand-ins of C03, solvers, pyvc.",
)

PROPS["C05"] = dict(
    modules=["contracts.sched_sql", "contracts.C12_limits", "contracts.C10_dispatch", "contracts.C03_inputs", "contracts.C04_noop", "contracts.C15_atomic", "contracts.C05_crash", "contracts.C09_setters", "contracts.C19_targets", "contracts.C05_bounded"],
    decided=["reset_interrupted_steps leaves no step RUNNING or CHECKING, changes no other step state except to PENDING, and "
             "hands every attached FAILED step (formerly FAILED or RUNNING) to mark_step_pending", "mark_step_pending "
             "outdates the BUILT outputs of the step (C03)", "a step is dispatched to RUNNING only without a stored hash, "
             "and _has_hash mirrors step_hash (C10), so an interrupted step is never skipped",
             "the completion of a step (output hashes, mark_completed, outcome) is one transaction without await, also on "
             "the skip path (C03)", "DBSession commits or rolls back exactly once per span (C15)",
             "rescan_files re-hashes every attached file that is neither PLANNED nor VOLATILE, an UNCONFIRMED one with the "
             "cause CONFIRMED, all others as EXTERNAL",
             "initialize_boot resumes exactly when the boot nodes are there (whatever the boot step's state)",
             "execute_job withdraws the additions of the earlier run before every launch",
             "the hash-transition table has a row for every external change the start-up scan can find",
             "the small writers (set_state, set_hash, delete_hash, _reset_step_to_pending, _finalize_failed_run) do what the contracts of their callers assume"],
    undecided=["sentence 1 for every crash point (bounded stand-in: every commit of every short history of the C09 world)",
               "files on disk: leftovers of an interrupted step, the watch phase", "power loss (WAL with synchronous=OFF)"],
    assumptions=["SQLite commits a transaction atomically with respect to a killed process"],
    level="The second sentence of the property and the atomic-commit structure are contracts on the real start-up, dispatch "
          "and completion functions; the first sentence is a bounded stand-in that kills the real code after every committed "
          "transaction of every short history and compares the restarted build with the uninterrupted one.",
    note="Trusted: SQLite atomic commit, the executor stand-ins of C03, solvers, pyvc.",
)

PROPS["C07"] = dict(
    modules=["contracts.C06_clean", "contracts.C19_status", "contracts.C07_orphans", "contracts.C07_bounded"],
    decided=["Trellis.delete_detached stops only after a pass in which the selecting query (detached, no product, no sink) "
             "returned no row; every deleted node went through before_delete (C06)", "Workflow.delete_detached detaches a "
             "static-tree file exactly when nothing consumes it, then runs the generic loop once",
             "File.before_delete queues the file with its recorded hash and its parent directory (C06)",
             "Step.before_delete / mark_dir_to_be_deleted queue the working directory, never the project root, and change "
             "nothing else in the queue", "revert_optional_steps resets exactly the attached steps whose implied need is "
             "OPTIONAL and queues their outputs (C06)", "remove_deletable_files removes only what the queue holds with an "
             "unchanged hash (C06)"],
    undecided=["that every history of plan edits leaves the orphan detached in the first place (bounded stand-in)",
               "detached cycles of creator and dependency edges (documented fixed point of the loop)", "files on disk"],
    assumptions=["relational reading of SQLite", "Path primitives"],
    level="Completeness of the deletion loop at its fixed point and the contents of the removal queue are contracts on the "
          "real functions (shared with C06); that plan edits actually detach what they drop is a bounded stand-in over all "
          "short histories of plan edits and builds on the real code.",
    note="Trusted: SQLite, file-system primitives, solvers, pyvc.",
)

PROPS["C11"] = dict(
    modules=["contracts.sched_sql", "contracts.C12_limits", "contracts.C10_dispatch", "contracts.C06_clean", "contracts.C18_under", "contracts.C11_need", "contracts.C19_targets", "contracts.C10_meta", "contracts.C11_bounded"],
    decided=["the recomputation statement sets the cached need to max(declared need, TARGET elevation, needs of the attached "
             "consuming steps), with the elevation exactly as the property states (exact file target on a regular output; "
             "DEFAULT step with a regular output under a directory target)", "the dispatch query requires the cached need "
             "above the threshold; need_threshold is OPTIONAL without targets and DEFAULT with file or directory targets",
             "a file target that would be static or volatile is refused", "_normalize_targets classifies by the trailing "
             "separator only and stores normalised root-relative paths", "revert_optional_steps resets exactly the attached "
             "steps whose cached need is OPTIONAL and queues their outputs (C06)", "flag sites of the incremental "
             "recomputation are present (scan)"],
    undecided=["that the cached need equals the fixed point over the whole graph after every history (bounded stand-in)",
               "the recursive propagation statements (assumed closures)"],
    assumptions=["SQLite MAX / CASE / EXISTS semantics as read by vc/sqlfront.py", "posixpath functions"],
    level="The local need equation and the dispatch predicate are SQL-text lemmas, the threshold, target refusal and target "
          "classification are function contracts, the flag sites are a scan; the global fixed point under incremental "
          "recomputation is a bounded stand-in comparing the cached need with a from-scratch computation at every dispatch "
          "decision of every short history on the real code.",
    note="Trusted: SQLite, posixpath, solvers, pyvc.",
)

PROPS["C17"] = dict(
    modules=["contracts.C18_under", "contracts.C08_claims", "contracts.C04_noop", "contracts.C17_results", "contracts.C19_targets", "contracts.C17_bounded"],
    decided=["rescan_nglobs persists a registration only if the fresh scan of its own pattern and substitutions differs from "
             "its recorded matches (match sets as an abstract sort with extensionality)", "_raise_if_glob_match tests every "
             "attached registration's stored regular expression with fullmatch against every product path (C08)",
             "register_nglob records the registration exactly once and only when no recorded match is an attached product "
             "(C08)", "NamedGlob.extend / reduce / will_change against the abstract recorded set, with the representation "
             "invariant of the dict of sets, for every dict, path list and regular expression: an incremental update "
             "records (recorded union accepted added) minus deleted, None iff that is no change, original untouched"],
    undecided=["the two compilers (convert_nglob_to_regex, convert_nglob_to_glob) and NamedGlob.glob: bounded stand-in only",
               "NamedGlob.files / matches (enumeration of the dict)", "the regular expression engine"],
    assumptions=["glob.iglob, re"],
    level="The wiring of glob registrations into the workflow (C08, C04) and the match-set algebra are under contract; the pattern compilers, which are "
          "string automata with stateful merging, are outside the VC generator and are compared exhaustively on small "
          "patterns and trees with the standard glob, with a reference matcher written from the property, and with a "
          "rescan after incremental updates (bounded, on the real code and the real file system).",
    note="Trusted: glob, re, os, solvers, pyvc.  Finding F7 known; F9 fixed.",
)

PROPS["C02"] = dict(
    modules=["contracts.C09_setters", "contracts.C08_claims", "contracts.C08_bounded", "contracts.C02_order", "contracts.C02_bounded"],
    decided=["every list argument of define_step, amend_step and declare_static_files is used only through "
             "sorted(set(argument)) (dataflow scan)", "node enumerations are ordered by the unique key (kind, label)",
             "acceptance of two conflicting declarations is decided by the same conflict predicate in both arrival orders "
             "(C08 contracts; findings F3, F8)"],
    undecided=["sentences 1 and 2: identical final graph and identical success for every job count, duration and completion "
               "order (bounded stand-in: every schedule of four small worlds)", "the texts of the conflict messages: "
               "bounded (exhaustive over roles, flags and order types of the creators)", "resumed versus fresh databases "
               "(C04 / C05 stand-ins)"],
    assumptions=["one transaction per RPC request, serialised by the DBSession lock (C15)"],
    level="The order-normalising mechanisms are structural obligations on the real source; acceptance symmetry is the "
          "contract work of C08; the statements that quantify over schedules are a bounded stand-in exploring every schedule "
          "of small worlds on the real scheduler, with run-time amendments and deferrals.",
    note="Trusted: SQLite ORDER BY, solvers, pyvc.",
)

NOT_BUILT = {}

_loaded = False
for _p, _i in PROPS.items():
    for _m in _i["modules"]:
        importlib.import_module(_m)
