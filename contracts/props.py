"""Registry of claimed properties: which contract modules serve them, and the decided /
undecided clauses that go into the evidence files."""

import importlib

PROPS = {
    "C13": dict(
        modules=["contracts.C13_hash", "contracts.C13_lemmas", "contracts.C13_bounded", "contracts.C13_label"],
        decided=[
            "the byte stream digested for a step's input hash equals the spec stream INP(label, shell, "
            "sorted inputs, sorted variables, sorted overrides); the output digest equals FILES(sorted outputs)",
            "the spec stream is injective on valid configurations (token and record self-delimitation lemmas)",
            "refreshed(): unknown on stat failure, self when (mode, mtime, size, inode) are unchanged, "
            "otherwise the digest of the current content with the current stat fields",
        ],
        undecided=[],
        assumptions=["SHA-256 collision resistance", "UTF-8 facts", "os.stat reports st_mode != 0 for an existing file"],
    ),
}

_loaded = False
for _p, _i in PROPS.items():
    for _m in _i["modules"]:
        importlib.import_module(_m)
