"""C04: rebuilding with nothing changed does nothing (scoped: the start-up and dispatch functions are proved to have
no effect from a quiescent state, and a stored result is dropped only where the property allows it).

Sentence 1 is reduced to a state predicate and per-function contracts:
  reset_interrupted_steps   no RUNNING / CHECKING / FAILED step  =>  no step state changes, nothing is marked pending
  Executor._run_hash_job    the new hash is applied only if it differs from the old one or the cause is CONFIRMED
  FileHash.refreshed        (C13) returns the old hash when mode, mtime, size and inode are unchanged
  SELECT_NEXT_STEP          (C10) selects only PENDING steps, so a fully SUCCEEDED workflow dispatches nothing
  Executor.try_skip_job     (C03) never launches a command and completes only on equal digests
  Step.after_recycle        keeps state and hash (FAILED becomes PENDING)
and a scan: the stored step hash is deleted only by the listed callers.
Sentence 2 (only the cone reruns) and "every history ending in a successful build is quiescent" are the bounded
stand-in C04/bounded/rebuild_is_a_noop."""

from __future__ import annotations

import ast

from contracts import common, graphdb, trusted
from contracts.common import FileState, StepState, db_of
from contracts.trusted import DbStub, Reporter
from vc import engine, extract, sqlfront, sym
from vc import terms as tm
from vc import types as ty
from vc.engine import LoopSpec, contract
from vc.report import structural
from vc.sym import B, I, S, cur, wrap_bool
from vc.terms import BOOL, INT, STR

startup = extract.import_module("stepup/core/startup.py")
INTERRUPTED = (StepState.RUNNING, StepState.CHECKING, StepState.FAILED)


def sstate(db, k):
    return graphdb.val(db, "step", "state", k)


def _forall(fn, name="k"):
    from vc import vcrt

    c = cur()
    v = tm.Var(c.fresh_name(name + "!bound"), INT)
    return vcrt.quantified([(v.s, INT)], lambda: fn(v))


def no_interrupted_step(db) -> tm.T:
    """Part of the quiescent state: no stored step is RUNNING, CHECKING or FAILED."""
    return _forall(lambda k: tm.Implies(graphdb.exists(db, "step", k),
                                        tm.And(*[tm.Ne(sstate(db, k), tm.mk_int(s.value)) for s in INTERRUPTED])))


def _ris_workflow(args):
    db = DbStub("db", [])
    db.write_reader = graphdb.read_write
    wf = ty.ObjOf(common.Workflow, dict(), name="Workflow").fresh("workflow")
    wf._fields["db"] = db
    return wf


def _ris_finish(c, outcome, args, old):
    marks = [e for e in c.trace if e.kind in ("mark_step_pending", "call.mark_step_pending")]
    reports = [e for e in c.trace if e.kind == "report"]
    c.prove("nothing_marked_pending", tm.mk_bool(len(marks) == 0), kind="trace")
    c.prove("nothing_reported", tm.mk_bool(len(reports) == 0), kind="trace")


@contract("stepup/core/startup.py::reset_interrupted_steps", props=["C04", "C05"])
class reset_interrupted_steps:
    """From a state without interrupted steps the function changes no step state and marks nothing pending."""

    args = dict(workflow=_ris_workflow, reporter=ty.Make(Reporter))
    entry = lambda workflow: wrap_bool(no_interrupted_step(db_of(workflow)))
    ensures = lambda workflow, old: wrap_bool(_forall(lambda k: tm.Eq(sstate(db_of(workflow), k), sstate(db_of(old.workflow), k))))
    finish = _ris_finish
    modifies = []


# ---------------------------------------------------------------- Executor._run_hash_job: unchanged hashes are not applied

from contracts import C03_inputs  # noqa: E402  (executor stand-ins)
from contracts.C13_hash import FileHashRec  # noqa: E402

execmod = extract.import_module("stepup/core/executor.py")
hqmod = extract.import_module("stepup/core/hash_queue.py")
HashUpdateCause = common.enums.HashUpdateCause
HashCancelledError = execmod.HashCancelledError


class _Future:
    def cancel(self):
        cur().event("future.cancel")

    def done(self):
        c = cur()
        return sym.SymBool(c.fresh(c.fresh_name("future.done"), BOOL))

    def set_result(self, r):
        cur().event("future.set_result", result=r)

    def set_exception(self, e):
        cur().event("future.set_exception")


def _hash_job(args):
    j = ty.ObjOf(hqmod.HashJob, dict(path=ty.Str, old_hash=FileHashRec, cause=ty.EnumOf(HashUpdateCause), job_i=ty.Int),
                 name="HashJob").fresh("hash_job")
    j._fields["future"] = _Future()
    j._fields["worker"] = None
    return j


class _ThreadWorker:
    """Runs `work` in a thread: the result (or the exception) of work() comes back from run_in_thread()."""

    def __init__(self, work, job_i):
        self.work = work

    def run_in_thread(self):
        from vc import vcrt

        return vcrt.Coro(lambda: self.work(), "run_in_thread")


class _NullCtx:
    def __enter__(self):
        return None

    def __exit__(self, *a):
        return False


contract("stepup/core/executor.py::Executor._track_running", props=[], verify=False, impl=lambda self, job: _NullCtx(),
         note="registers the job in Executor.running for the duration of the block")(type("_track", (), dict(modifies=[])))
contract("stepup/core/executor.py::Executor._format_provenance", props=[], verify=False,
         impl=lambda self, path: C03_inputs._ev("format_provenance") or [],
         note="formats where a path came from (reads)")(type("_prov", (), dict(modifies=[])))


def _rhj_update_guard(e, self, hash_job, trace):
    """The new hash reaches update_file_hashes only if it differs from the old one or the cause is CONFIRMED, and
    then for this path, with this cause."""
    c = cur()
    old = hash_job.old_hash
    hashes = e.hashes
    new = hashes[hash_job.path] if isinstance(hashes, dict) else None
    if new is None:
        return False
    same = B(sym.sym_eq(new, old))
    return wrap_bool(tm.And(tm.Or(tm.Not(same), tm.Eq(I(hash_job.cause), tm.mk_int(HashUpdateCause.CONFIRMED.value))),
                            tm.Eq(I(e.cause), I(hash_job.cause)), tm.mk_bool(len(hashes) == 1)))


def _rhj_finish(c, outcome, args, old):
    ups = [e for e in c.trace if e.kind == "update_file_hashes"]
    c.prove("at_most_one_update", tm.mk_bool(len(ups) <= 1), kind="trace")


@contract("stepup/core/executor.py::Executor._run_hash_job", props=["C04"])
class run_hash_job:
    args = dict(self=C03_inputs._job_executor, hash_job=_hash_job)
    env = dict(ThreadWorker=_ThreadWorker)
    events = {"update_file_hashes": _rhj_update_guard}
    finish = _rhj_finish
    modifies = ["hash_job.worker", "self.scheduler"]
