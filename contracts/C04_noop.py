"""C04: rebuilding with nothing changed does nothing (scoped: the start-up and dispatch functions are proved to have
no effect from a quiescent state, and a stored result is dropped only where the property allows it).

Sentence 1 is reduced to a state predicate and per-function contracts:
  reset_interrupted_steps   no RUNNING / CHECKING / FAILED step  =>  no step state changes, nothing is marked pending
  Executor._run_hash_job    the new hash is applied only if it differs from the old one or the cause is CONFIRMED
  FileHash.refreshed        (C13) returns the old hash when mode, mtime, size and inode are unchanged
  SELECT_NEXT_STEP          (C10) selects only PENDING steps, so a fully SUCCEEDED workflow dispatches nothing
  Executor.try_skip_job     (C03) never launches a command and completes only on equal digests
  Step.after_recycle        keeps state and hash (FAILED becomes PENDING)
and a scan: the stored step hash is deleted only by the listed callers.
Sentence 2 (only the cone reruns) and "every history ending in a successful build is quiescent" are the bounded
stand-in C04/bounded/rebuild_is_a_noop."""

from __future__ import annotations

import ast

from contracts import common, graphdb, trusted
from contracts.common import FileState, StepState, db_of
from contracts.trusted import DbStub, Reporter
from vc import engine, extract, sqlfront, sym
from vc import terms as tm
from vc import types as ty
from vc.engine import LoopSpec, contract
from vc.report import structural
from vc.sym import B, I, S, cur, wrap_bool
from vc.terms import BOOL, INT, STR

startup = extract.import_module("stepup/core/startup.py")
INTERRUPTED = (StepState.RUNNING, StepState.CHECKING, StepState.FAILED)


def sstate(db, k):
    return graphdb.val(db, "step", "state", k)


def _forall(fn, name="k"):
    from vc import vcrt

    c = cur()
    v = tm.Var(c.fresh_name(name + "!bound"), INT)
    return vcrt.quantified([(v.s, INT)], lambda: fn(v))


def no_interrupted_step(db) -> tm.T:
    """Part of the quiescent state: no stored step is RUNNING, CHECKING or FAILED."""
    return _forall(lambda k: tm.Implies(graphdb.exists(db, "step", k),
                                        tm.And(*[tm.Ne(sstate(db, k), tm.mk_int(s.value)) for s in INTERRUPTED])))


def _ris_workflow(args):
    db = DbStub("db", [])
    db.write_reader = graphdb.read_write
    wf = ty.ObjOf(common.Workflow, dict(), name="Workflow").fresh("workflow")
    wf._fields["db"] = db
    return wf


def _ris_finish(c, outcome, args, old):
    """C04: from a state without interrupted steps nothing is marked pending and nothing is reported.
    C05: whatever the state, the steps handed to mark_step_pending are exactly the attached FAILED ones (formerly
    FAILED or RUNNING), each once."""
    if outcome[0] != "return":
        return
    marks = [e for e in c.trace if e.kind == "mark_step_pending"]
    reports = [e for e in c.trace if e.kind == "report"]
    quiet = no_interrupted_step(db_of(old.workflow))
    c.prove("quiescent.nothing_marked_pending", tm.Implies(quiet, tm.mk_bool(len(marks) == 0)), kind="trace")
    c.prove("quiescent.nothing_reported", tm.Implies(quiet, tm.mk_bool(len(reports) == 0)), kind="trace")


def _ris_post(workflow, old):
    db, db0 = db_of(workflow), db_of(old.workflow)
    run, chk, fail, pend = (tm.mk_int(s.value) for s in (StepState.RUNNING, StepState.CHECKING, StepState.FAILED, StepState.PENDING))
    return wrap_bool(tm.And(
        # C04: a quiescent state is left as it is
        tm.Implies(no_interrupted_step(db0), _forall(lambda k: tm.Eq(sstate(db, k), sstate(db0, k)))),
        # C05: no step is left RUNNING or CHECKING, and a step changes state only out of RUNNING / CHECKING / FAILED
        _forall(lambda k: tm.Implies(graphdb.exists(db, "step", k), tm.And(tm.Ne(sstate(db, k), run), tm.Ne(sstate(db, k), chk)))),
        _forall(lambda k: tm.Implies(tm.And(graphdb.exists(db0, "step", k), tm.Ne(sstate(db, k), sstate(db0, k))),
                                     tm.Or(*[tm.Eq(sstate(db0, k), x) for x in (run, chk, fail)],
                                           tm.Eq(sstate(db, k), pend))))))


def _ris_loop_inv(e):
    """While the failed steps are marked pending: no RUNNING / CHECKING row exists."""
    db, db0 = db_of(e.workflow), db_of(e.old.workflow)
    run, chk, fail, pend = (tm.mk_int(s.value) for s in (StepState.RUNNING, StepState.CHECKING, StepState.FAILED, StepState.PENDING))
    return [_forall(lambda k: tm.Implies(graphdb.exists(db, "step", k), tm.And(tm.Ne(sstate(db, k), run), tm.Ne(sstate(db, k), chk)))),
            _forall(lambda k: tm.Implies(tm.And(graphdb.exists(db0, "step", k), tm.Ne(sstate(db, k), sstate(db0, k))),
                                         tm.Or(*[tm.Eq(sstate(db0, k), x) for x in (run, chk, fail)], tm.Eq(sstate(db, k), pend)))),
            _forall(lambda k: tm.Iff(graphdb.exists(db, "step", k), graphdb.exists(db0, "step", k))),
            # there was something to reset: the loop is not entered from a quiescent state
            tm.Not(no_interrupted_step(db0))]


@contract("stepup/core/startup.py::reset_interrupted_steps", props=["C04", "C05", "C19"])
class reset_interrupted_steps:
    """C04: from a state without interrupted steps the function changes no step state and marks nothing pending.
    C05: afterwards no step is RUNNING or CHECKING; RUNNING steps were made FAILED and every attached FAILED step was
    handed to mark_step_pending."""

    args = dict(workflow=_ris_workflow, reporter=ty.Make(Reporter))
    ensures = _ris_post
    finish = _ris_finish
    modifies = []
    loops = {0: LoopSpec(invariant=_ris_loop_inv, havoc=("workflow",), modifies={"workflow": ["db"]})}


# ---------------------------------------------------------------- Executor._run_hash_job: unchanged hashes are not applied

from contracts import C03_inputs  # noqa: E402  (executor stand-ins)
from contracts.C13_hash import FileHashRec  # noqa: E402

execmod = extract.import_module("stepup/core/executor.py")
hqmod = extract.import_module("stepup/core/hash_queue.py")
HashUpdateCause = common.enums.HashUpdateCause
HashCancelledError = execmod.HashCancelledError


class _Future:
    def cancel(self):
        cur().event("future.cancel")

    def done(self):
        c = cur()
        return sym.SymBool(c.fresh(c.fresh_name("future.done"), BOOL))

    def set_result(self, r):
        cur().event("future.set_result", result=r)

    def set_exception(self, e):
        cur().event("future.set_exception")


def _hash_job(args):
    j = ty.ObjOf(hqmod.HashJob, dict(path=ty.Str, old_hash=FileHashRec, cause=ty.EnumOf(HashUpdateCause), job_i=ty.Int),
                 name="HashJob").fresh("hash_job")
    j._fields["future"] = _Future()
    j._fields["worker"] = None
    return j


class _ThreadWorker:
    """Runs `work` in a thread: the result (or the exception) of work() comes back from run_in_thread()."""

    def __init__(self, work, job_i):
        self.work = work

    def run_in_thread(self):
        from vc import vcrt

        return vcrt.Coro(lambda: self.work(), (), {})


class _NullCtx:
    def __enter__(self):
        return None

    def __exit__(self, *a):
        return False


contract("stepup/core/executor.py::Executor._track_running", props=[], verify=False, impl=lambda self, job: _NullCtx(),
         note="registers the job in Executor.running for the duration of the block")(type("_track", (), dict(modifies=[])))
contract("stepup/core/executor.py::Executor._format_provenance", props=[], verify=False,
         impl=lambda self, path: C03_inputs._ev("format_provenance") or [],
         note="formats where a path came from (reads)")(type("_prov", (), dict(modifies=[])))


def _rhj_update_guard(e, self, hash_job, trace):
    """The new hash reaches update_file_hashes only if it differs from the old one or the cause is CONFIRMED, and
    then for this path, with this cause."""
    c = cur()
    from vc import vcrt

    old = hash_job.old_hash
    hashes = e.hashes
    if not isinstance(hashes, sym.SymMap):
        return False
    new = hashes[hash_job.path]
    same = B(sym.sym_eq(new, old))
    return wrap_bool(tm.And(B(hashes.__contains__(hash_job.path)),
                            tm.Or(tm.Not(same), tm.Eq(I(hash_job.cause), tm.mk_int(HashUpdateCause.CONFIRMED.value))),
                            tm.Eq(I(e.cause), I(hash_job.cause)), tm.Eq(I(vcrt.v_len(hashes)), tm.mk_int(1))))


def _rhj_finish(c, outcome, args, old):
    ups = [e for e in c.trace if e.kind == "update_file_hashes"]
    c.prove("at_most_one_update", tm.mk_bool(len(ups) <= 1), kind="trace")


@contract("stepup/core/executor.py::Executor._run_hash_job", props=["C04"])
class run_hash_job:
    args = dict(self=C03_inputs._job_executor, hash_job=_hash_job)
    env = dict(ThreadWorker=_ThreadWorker)
    events = {"update_file_hashes": _rhj_update_guard}
    finish = _rhj_finish
    modifies = ["hash_job.worker", "self.scheduler"]


# ---------------------------------------------------------------- where a stored result is dropped (scan)

ALLOWED_HASH_DROPS = {
    ("stepup/core/executor.py", "Executor._reset_step_to_pending"): "the inputs or outputs of a checked step changed",
    ("stepup/core/step.py", "Step.after_lost_product"): "a detached step lost a product",
    ("stepup/core/step.py", "Step.mark_completed"): "the step failed or was deferred",
    ("stepup/core/workflow.py", "Workflow.persist_nglob_matches"): "the matches of a glob pattern of the step changed",
    ("stepup/core/step.py", "Step.delete_hash"): "the primitive itself (DELETE FROM step_hash)",
}


@structural("C04/scan/hash_drops", props=["C04"],
            note="the stored step hash is deleted only by Step.delete_hash, and delete_hash is called only from the "
                 "functions the property allows (generated from the AST of every module of stepup/core)")
def hash_drops():
    import glob
    import os

    out = []
    found = set()
    for path in sorted(glob.glob(os.path.join(extract.REPO, "stepup", "core", "*.py"))):
        rel = os.path.relpath(path, extract.REPO)
        tree = ast.parse(open(path).read())

        class V(ast.NodeVisitor):
            def __init__(self):
                self.stack = []

            def visit_ClassDef(self, node):
                self.stack.append(node.name)
                self.generic_visit(node)
                self.stack.pop()

            def visit_FunctionDef(self, node):
                self.stack.append(node.name)
                self.generic_visit(node)
                self.stack.pop()

            visit_AsyncFunctionDef = visit_FunctionDef

            def visit_Call(self, node):
                if isinstance(node.func, ast.Attribute) and node.func.attr == "delete_hash":
                    found.add((rel, ".".join(self.stack)))
                self.generic_visit(node)

            def visit_Constant(self, node):
                if isinstance(node.value, str) and "DELETE FROM STEP_HASH" in " ".join(node.value.upper().split()):
                    found.add((rel, ".".join(self.stack)))

        V().visit(tree)
    for site in sorted(found):
        out.append((f"scan/hash_drop/{site[0]}::{site[1]}", site in ALLOWED_HASH_DROPS,
                    f"the stored hash is dropped in {site}, which is not one of {sorted(ALLOWED_HASH_DROPS)}"))
    for site in ALLOWED_HASH_DROPS:
        if site not in found:
            out.append((f"scan/hash_drop_listed/{site[0]}::{site[1]}", False, f"listed site {site} no longer drops the hash (stale list)"))
    return out


@structural("C04/scan/hash_env_source", props=["C04", "C13"],
            note="every step hash computed by the executor (before the command, for the skip decision, and after it, for "
                 "storing) takes the values of the tracked environment variables from Executor.base_env, the "
                 "environment the command itself is started with (generated from the AST of executor.py)")
def hash_env_source():
    rel = "stepup/core/executor.py"
    src, tree = extract.read_module(rel)
    out = []
    sites = 0
    for fn in ast.walk(tree):
        if not isinstance(fn, (ast.FunctionDef, ast.AsyncFunctionDef)):
            continue
        # local aliases of self.base_env in this function
        aliases = {t.id for n in ast.walk(fn) if isinstance(n, ast.Assign) and ast.unparse(n.value) == "self.base_env"
                   for t in n.targets if isinstance(t, ast.Name)}

        def from_base_env(e, names):
            """e is {k: <base_env>.get(k) for k in ...} (or a local bound to such a dict)."""
            if isinstance(e, ast.Name) and e.id in names:
                return all(from_base_env(v, {}) for v in names[e.id])
            if not (isinstance(e, ast.DictComp) and isinstance(e.value, ast.Call) and isinstance(e.value.func, ast.Attribute)
                    and e.value.func.attr == "get" and len(e.value.args) == 1):
                return False
            recv = e.value.func.value
            ok_recv = ast.unparse(recv) == "self.base_env" or (isinstance(recv, ast.Name) and recv.id in aliases)
            return ok_recv and ast.unparse(e.value.args[0]) == ast.unparse(e.key)

        bound = {}
        for n in ast.walk(fn):
            if isinstance(n, ast.Assign) and len(n.targets) == 1 and isinstance(n.targets[0], ast.Name):
                bound.setdefault(n.targets[0].id, []).append(n.value)
        for n in ast.walk(fn):
            if isinstance(n, ast.Call) and ast.unparse(n.func).endswith("StepHash.from_inp"):
                sites += 1
                arg = n.args[2] if len(n.args) > 2 else next((k.value for k in n.keywords if k.arg in ("env_values", "env_var_values", "env_vars")), None)
                ok = arg is not None and from_base_env(arg, bound)
                out.append((f"scan/hash_env_source/{fn.name}:{n.lineno - fn.lineno}", ok,
                            f"StepHash.from_inp in {fn.name} reads the tracked variables from "
                            f"{ast.unparse(arg) if arg is not None else '?'} instead of self.base_env"))
    out.append(("scan/hash_env_source/sites", sites >= 2, f"{sites} call(s) of StepHash.from_inp found in executor.py (expected the "
                                                           "pre-run and the post-run computation)"))
    _, rc = extract.find_def(rel, "Executor._run_command")
    child = any(isinstance(n, ast.Assign) and ast.unparse(n.value) in ("dict(self.base_env)", "self.base_env.copy()", "{**self.base_env}")
                for n in ast.walk(rc))
    out.append(("scan/hash_env_source/command_env", child, "the environment of the command is a copy of self.base_env"))
    return out


@structural("C04/scan/recycle_compares_every_declared_ingredient", props=["C04", "C08"],
            note="a detached step is recycled with its stored hash only if its declared (non-dynamic) inputs, environment "
                 "variables, outputs and volatile outputs all equal those of the new declaration: Step.can_recycle compares "
                 "each of the four parameters, sorted, with the stored non-dynamic list of the same kind, and returns False on "
                 "the first difference (generated from the AST of Step.can_recycle)")
def recycle_compares_every_declared_ingredient():
    _, fn = extract.find_def("stepup/core/step.py", "Step.can_recycle")
    out = []
    # locals bound to sorted(<something built from self.<method>(dynamic=False)>)
    stored = {}
    for n in ast.walk(fn):
        if isinstance(n, ast.Assign) and len(n.targets) == 1 and isinstance(n.targets[0], ast.Name):
            calls = [c for c in ast.walk(n.value) if isinstance(c, ast.Call) and isinstance(c.func, ast.Attribute)
                     and isinstance(c.func.value, ast.Name) and c.func.value.id == "self"]
            for c in calls:
                nondyn = any(k.arg == "dynamic" and isinstance(k.value, ast.Constant) and k.value.value is False for k in c.keywords)
                is_sorted = isinstance(n.value, ast.Call) and ast.unparse(n.value.func) == "sorted"
                if nondyn and is_sorted:
                    stored[n.targets[0].id] = c.func.attr
    compared = {}
    for n in ast.walk(fn):
        if isinstance(n, ast.Compare) and len(n.ops) == 1 and isinstance(n.ops[0], (ast.Eq, ast.NotEq)):
            sides = [n.left, n.comparators[0]]
            names = [x.id for x in sides if isinstance(x, ast.Name) and x.id in stored]
            params = [ast.unparse(x.args[0]) for x in sides if isinstance(x, ast.Call) and ast.unparse(x.func) == "sorted"
                      and len(x.args) == 1 and isinstance(x.args[0], ast.Name)]
            if len(names) == 1 and len(params) == 1:
                compared[params[0]] = stored[names[0]]
    want = dict(inp_paths="inp_paths", env_deps="env_deps", out_paths="out_paths", vol_paths="vol_paths")
    for param, method in want.items():
        out.append((f"scan/recycle_compares/{param}", compared.get(param) == method,
                    f"parameter {param} is compared with self.{compared.get(param)}(dynamic=False)" if param in compared
                    else f"parameter {param} is not compared with the stored list"))
    # a difference means False: every `!=` comparison guards `return False`, and the function ends in a comparison
    guards = [n for n in ast.walk(fn) if isinstance(n, ast.If) and isinstance(n.test, ast.Compare)
              and isinstance(n.test.ops[0], ast.NotEq)]
    ok_guards = all(len(g.body) == 1 and isinstance(g.body[0], ast.Return) and isinstance(g.body[0].value, ast.Constant)
                    and g.body[0].value.value is False for g in guards)
    out.append(("scan/recycle_compares/a_difference_refuses", ok_guards, f"{len(guards)} guarded comparison(s)"))
    return out


# ---------------------------------------------------------------- Step.after_recycle keeps state and hash

stepmod = common.stepmod


def _ar_self(args):
    db = DbStub("db", [graphdb.query("SELECT state FROM step WHERE node", ty.TupleOf(ty.Int),
                                     none_keys=lambda a: [dict(step=I(a[0]))])])
    db.write_reader = graphdb.read_write
    g = ty.ObjOf(common.Workflow, dict(), name="Workflow").fresh("graph")
    g._fields["db"] = db
    return common.fresh_node(common.Step, g, "self")


def _RES_SORT():
    cur().decls.sort("Resources")
    return "Resources"


def _ar_finish(c, outcome, args, old):
    if outcome[0] != "return":
        return
    t = c.trace
    c.prove("hash_is_kept", tm.mk_bool(not any(e.kind == "delete_hash" for e in t)), kind="trace")
    db, db0 = db_of(args["self"]), db_of(old.self)
    n = I(args["self"].i)
    marks = [e for e in t if e.kind == "mark_step_pending"]
    failed = tm.Eq(sstate(db0, n), tm.mk_int(StepState.FAILED.value))
    c.prove("pending_only_if_it_had_failed", tm.Implies(tm.mk_bool(len(marks) > 0), failed), kind="trace")
    # C05 / C19: FAILED is the one state that is not carried over.  Nothing else takes a recycled FAILED step out of that
    # state within the build (reset_interrupted_steps and the start of a build phase only see attached steps, and the
    # step was detached then), so it would never be retried and the build would end "failed" without having run it
    c.prove("a_failed_step_is_made_pending", tm.Implies(failed, tm.mk_bool(len(marks) == 1 and marks[0].step is args["self"])), kind="trace")
    # C12: the resource requirements of the new declaration replace the stored ones on every recycle, whether or not
    # the step still has a hash (a failed hash check sends it through the resource gate with these rows)
    sets = [e for e in t if e.kind in ("call", "inline") and e.callee.endswith("Step.set_resources")]

    def arg_of(e):
        a = e.args
        if isinstance(a, dict):
            return a.get("resources", "?")
        return a[1] if len(a) > 1 else "?"

    c.prove("declared_resources_are_rewritten", tm.mk_bool(len(sets) == 1 and arg_of(sets[0]) is args["resources"]), kind="trace",
            detail=f"{len(sets)} call(s) of Step.set_resources on this path")
    for e in t:
        if e.kind == "sql" and e.norm.upper().startswith("UPDATE STEP"):
            cols = set(x.split("=")[0].strip() for x in e.norm.split(" SET ", 1)[1].split(" WHERE ")[0].split(","))
            c.prove("update_leaves_state_and_hash_alone", tm.mk_bool(not ({"state", "deferred"} & cols)), kind="trace",
                    detail=f"columns set: {sorted(cols)}")


@contract("stepup/core/step.py::Step.set_duration", props=[], verify=False, note="stores the duration estimate of the step")
class set_duration:
    modifies = []


@contract("stepup/core/step.py::Step.after_recycle", props=["C04"])
class after_recycle:
    """A fully recycled step keeps its state and its stored hash; only a FAILED step is made pending."""

    args = dict(self=_ar_self, need=ty.EnumOf(common.Need), shell=ty.Bool,
                resources=lambda a: sym.SymOpaque(cur().decls.const("declared.resources", _RES_SORT())),
                env_overrides=lambda a: None, duration=lambda a: None)
    entry = lambda self: wrap_bool(graphdb.exists(db_of(self), "step", I(self.i)))
    finish = _ar_finish
    modifies = []
    partial_props = {"C12": ["declared_resources_are_rewritten"], "C05": ["a_failed_step_is_made_pending"]}


# ---------------------------------------------------------------- rescan_nglobs: a registration is persisted only if ITS match set changed

MS = "MatchSet"


def fsglob(pattern, subs) -> tm.T:
    """The set of existing paths that NamedGlob(pattern, subs).glob() finds: a function of the pattern, its
    substitutions and the file system (which does not change during the scan)."""
    d = cur().decls
    d.sort(MS)
    d.sort("Subs")
    return d.fun("fs.glob", [STR, "Subs"], MS)(S(pattern), subs.t)


class _MSet:
    """A set of paths as rescan_nglobs uses it: difference, truth value, accumulation."""

    def __init__(self, t):
        self.t = t

    def __sub__(self, other):
        d = cur().decls
        _ms_axiom(self.t, other.t)
        return _MSet(d.fun("ms.diff", [MS, MS], MS)(self.t, other.t))

    def __symtruth__(self):
        return tm.Not(cur().decls.fun("ms.empty", [MS], BOOL)(self.t))

    def __bool__(self):
        return cur().fork(self.__symtruth__())

    def update(self, other):
        return None

    def __havoc__(self, label):
        self.t = cur().fresh(cur().fresh_name(label), MS)


def _ms_axiom(a: tm.T, b: tm.T):
    """Extensionality: two sets are equal iff both differences are empty."""
    d = cur().decls
    diff, empty = d.fun("ms.diff", [MS, MS], MS), d.fun("ms.empty", [MS], BOOL)
    cur().pc.append(tm.Iff(tm.Eq(a, b), tm.And(empty(diff(a, b)), empty(diff(b, a)))))


class _FreshGlob:
    """NamedGlob(pattern, subs) built for a fresh scan."""

    def __init__(self, pattern, subs=None):
        if subs is None:  # the default of NamedGlob: no substitutions
            cur().decls.sort("Subs")
            subs = sym.SymOpaque(cur().decls.const("subs.none", "Subs"))
        self.pattern, self.subs = pattern, subs
        self.mset = None

    def glob(self):
        self.mset = fsglob(self.pattern, self.subs)
        cur().event("fs.scan", pattern=self.pattern, subs=self.subs)

    def files(self):
        q = ty.SeqOf(ty.Str).fresh(cur().fresh_name("scan.files"))
        q.mset = self.mset
        return q


def _rn_set(*a):
    if not a:
        return _MSet(cur().fresh(cur().fresh_name("acc"), MS))
    q = a[0]
    if getattr(q, "mset", None) is None:
        raise sym.Unsupported("set() of a path list whose match set is unknown")
    return _MSet(q.mset)


class _FreshSpec(ty.Rec):
    """_FreshGlob objects stored in a list: pattern, substitutions and scanned match set."""

    def make(self, values):
        g = _FreshGlob(values["pattern"], values["subs"])
        g.mset = values["mset"].t if isinstance(values["mset"], sym.SymOpaque) else values["mset"]
        return g

    def arr_store(self, state, kt, value):
        vals = dict(pattern=value.pattern, subs=value.subs, mset=sym.SymOpaque(value.mset))
        return {f: sp.arr_store(state[f], kt, vals[f]) for f, sp in self.fields.items()}


FreshRec = _FreshSpec(_FreshGlob, dict(pattern=ty.Str, subs=ty.Opaque("Subs"), mset=ty.Opaque(MS)), name="NamedGlob")
ChangedSeq = ty.SeqOf(ty.TupleOf(ty.Int, ty.Opaque("StepRef"), FreshRec))


def _reg_facts(nglob_i):
    d = cur().decls
    return (d.fun("nglob.pattern_of", [INT], STR)(nglob_i), d.fun("nglob.subs_of", [INT], "Subs")(nglob_i),
            d.fun("nglob.recorded_of", [INT], MS)(nglob_i))


def _rn_inv(e):
    """Every entry queued for persisting carries the fresh scan of its own registration, and that scan differs from
    the recorded match set."""
    q = e.changed_nglobs
    if not isinstance(q, sym.SymSeq):
        return True
    k = I(e.q.k)
    nglob_i, _step, ng = q.elem(k)
    reg = _rn_reg_of(e, nglob_i)
    pat, subs, rec = _reg_facts(reg)
    ms = ng.mset.t if isinstance(ng.mset, sym.SymOpaque) else ng.mset
    return wrap_bool(tm.Implies(tm.And(tm.Le(tm.mk_int(0), k), tm.Lt(k, q.length)),
                                tm.And(tm.Eq(ms, cur().decls.fun("fs.glob", [STR, "Subs"], MS)(pat, subs)), tm.Ne(ms, rec))))


def _rn_reg_of(e, nglob_i):
    """The registration (row) an nglob id belongs to: ids identify registrations (assumed key of the listing)."""
    return cur().decls.fun("nglob.reg_of_id", [INT], INT)(I(nglob_i))


def _rn_persist_guard(e, workflow):
    nglob_i, ng = e.nglob_i, e.ng
    reg = cur().decls.fun("nglob.reg_of_id", [INT], INT)(I(nglob_i))
    pat, subs, rec = _reg_facts(reg)
    ms = ng.mset.t if isinstance(ng.mset, sym.SymOpaque) else ng.mset
    return wrap_bool(tm.And(tm.Eq(ms, cur().decls.fun("fs.glob", [STR, "Subs"], MS)(pat, subs)), tm.Ne(ms, rec)))


@contract("stepup/core/workflow.py::Workflow.persist_nglob_matches", props=[], verify=False,
          note="stores the new matches of a registration, deletes the hash of its step and marks it pending")
class persist_nglob_matches:
    modifies = []

    @staticmethod
    def ensures(self, nglob_i, step, ng):
        cur().event("persist_nglob", nglob_i=nglob_i, step=step, ng=ng)
        return True


def _rn_workflow(args):
    cur().decls.sort(MS)
    cur().decls.sort("Subs")
    wf = ty.ObjOf(common.Workflow, dict(), name="Workflow").fresh("workflow")
    wf._fields["db"] = DbStub("db", [])
    return wf


def _rn_listing_facts(e):
    """Facts of the listing (assumed contract of nglob_registrations): the id of a listed registration identifies it."""
    regs = e.registrations if hasattr(e, "registrations") else None
    return []


def _rn_loop0_facts(e):
    # the j-th listed registration is the one its id names
    j = I(e.i)
    nglob_i, old_ng, _step = e.seq.elem(j)
    return [wrap_bool(tm.Eq(cur().decls.fun("nglob.reg_of_id", [INT], INT)(I(nglob_i)), old_ng.reg))]


@contract("stepup/core/startup.py::rescan_nglobs", props=["C04", "C17"])
class rescan_nglobs:
    """A registration's matches are persisted (its step's hash dropped, the step made pending) only if a fresh scan of
    that registration's own pattern and substitutions differs from its recorded matches."""

    args = dict(workflow=_rn_workflow, reporter=ty.Make(Reporter))
    env = dict(NamedGlob=_FreshGlob, set=_rn_set, sorted=lambda x: [], list=lambda x: x, tuple=lambda x: x)
    events = {"persist_nglob": _rn_persist_guard}
    modifies = []
    loops = {0: LoopSpec(locals=dict(changed_nglobs=ChangedSeq), forall=dict(k=ty.Int), invariant=_rn_inv),
             1: LoopSpec(), 2: LoopSpec(),
             3: LoopSpec(forall=dict(k=ty.Int), invariant=_rn_inv, havoc=("workflow",), modifies={"workflow": ["db"]})}
