"""C11: exactly the needed steps are executed (scoped: the local need equation, the dispatch threshold, the target
classification and the flag sites of the incremental recomputation; the fixed point over whole graphs and histories
is the bounded stand-in contracts/C11_bounded.py).

Shared obligations tagged C11 elsewhere: sched/sql/UPDATE_CHECK_AFTER.need_equation and SELECT_NEXT_STEP.exact
(contracts/sched_sql.py), revert_optional_steps (contracts/C06_clean.py), has_regular_output_under / dir_range_upper
(contracts/C18_under.py)."""

from __future__ import annotations

import ast
import os

from contracts import common, trusted
from contracts.common import FileState, Need, workflow_spec
from contracts.trusted import PathStr, SymPath
from vc import engine, extract, sqlfront, sym
from vc import terms as tm
from vc import types as ty
from vc.engine import LoopSpec, contract
from vc.report import structural
from vc.sym import B, I, S, cur, wrap_bool
from vc.terms import BOOL, INT, STR

tuimod = extract.import_module("stepup/core/tui.py")
ROLE = common.enums.FILE_ROLE_BY_STATE
FileRole = common.FileRole


# ---------------------------------------------------------------- need_threshold / _raise_if_forbidden_target


def _wf_targets(args):
    return workflow_spec([], targets=ty.SetOf(ty.Str), target_dirs=ty.SetOf(ty.Str)).fresh("workflow")


def _nonempty(s) -> tm.T:
    from vc import vcrt

    return tm.Gt(I(vcrt.v_len(s)), tm.mk_int(0))


@contract("stepup/core/workflow.py::Workflow.need_threshold", props=["C11"])
class need_threshold:
    """Without targets every step above OPTIONAL is required; with file or directory targets only steps above DEFAULT."""

    args = dict(self=_wf_targets)
    ensures = lambda self, result: wrap_bool(tm.Eq(I(result), tm.Ite(
        tm.Or(_nonempty(self.targets), _nonempty(self.target_dirs)), tm.mk_int(Need.DEFAULT.value), tm.mk_int(Need.OPTIONAL.value))))
    result = ty.EnumOf(Need)
    modifies = []


FORBIDDEN = tuple(s for s in FileState if ROLE.get(s) in (FileRole.STATIC, FileRole.VOLATILE))


@contract("stepup/core/workflow.py::Workflow._raise_if_forbidden_target", props=["C11", "C08"])
class raise_if_forbidden_target:
    """A named file target is refused exactly when the file would be static or volatile."""

    args = dict(self=_wf_targets, path=ty.Str, state=ty.EnumOf(FileState))
    raises = {common.GraphError: lambda self, path, state: wrap_bool(tm.And(
        B(self.targets.__contains__(path)), tm.Or(*[tm.Eq(I(state), tm.mk_int(s.value)) for s in FORBIDDEN])))}
    modifies = []


# ---------------------------------------------------------------- tui._normalize_targets


def _abs(p):
    return SymPath(trusted._path_fun("posix.abspath", S(p)))


class _TuiPath(SymPath):
    """path.Path as _normalize_targets uses it: absolute(), relpath(root), normpath(), / ''."""

    def absolute(self):
        return _TuiPath(trusted._path_fun("posix.abspath", self.t))

    def relpath(self, root):
        return _TuiPath(cur().decls.fun("posix.relpath", [STR, STR], STR)(self.t, S(root)))

    def normpath(self):
        return _TuiPath(trusted._path_fun("posix.normpath", self.t))

    def __truediv__(self, other):
        return _TuiPath(trusted._join_t(self.t, S(other)))


def norm_rel(raw, root) -> tm.T:
    d = cur().decls
    return trusted._path_fun("posix.normpath", d.fun("posix.relpath", [STR, STR], STR)(trusted._path_fun("posix.abspath", S(raw)), S(root)))


def _nt_inv(e):
    """After i arguments: the two lists together hold i entries; the j-th argument went to the directory list iff it
    ends with the separator."""
    from vc import vcrt

    if not isinstance(e.targets, sym.SymSeq) or not isinstance(e.target_dirs, sym.SymSeq):
        return True
    return [tm.Eq(tm.Add(e.targets.length, e.target_dirs.length), I(e.i))]


def _nt_step(e):
    raw = e.current
    isdir = tm.SuffixOf(tm.mk_str("/"), S(raw))
    t0, d0 = e.iter_pre.targets, e.iter_pre.target_dirs
    t1, d1 = e.targets, e.target_dirs
    n = norm_rel(raw, e.stepup_root)
    grew_dir = tm.And(tm.Eq(d1.length, tm.Add(d0.length, tm.mk_int(1))), tm.Eq(t1.length, t0.length),
                      tm.Eq(S(d1.elem(d0.length)), trusted._join_t(n, tm.mk_str(""))))
    grew_file = tm.And(tm.Eq(t1.length, tm.Add(t0.length, tm.mk_int(1))), tm.Eq(d1.length, d0.length),
                       tm.Eq(S(t1.elem(t0.length)), n))
    return wrap_bool(tm.Ite(isdir, grew_dir, grew_file))


@contract("stepup/core/tui.py::_normalize_targets", props=["C11"])
class normalize_targets:
    """A raw target is a directory target exactly when it ends with the separator (the file system is not consulted);
    it is stored root-relative and normalised, a directory with its trailing separator."""

    args = dict(raw_targets=ty.SeqOf(ty.Str), stepup_root=PathStr)
    env = dict(Path=lambda p: _TuiPath(S(p)))
    may_raise = {tuimod.ToolError: None}
    modifies = []
    loops = {0: LoopSpec(locals=dict(targets=ty.SeqOf(PathStr), target_dirs=ty.SeqOf(PathStr)), invariant=_nt_inv,
                         step_post=_nt_step)}


# ---------------------------------------------------------------- where the incremental recomputation is flagged (scan)


def _calls_in(relpath, qual):
    src, node = extract.find_def(relpath, qual)
    names = []
    for n in ast.walk(node):
        if isinstance(n, ast.Call):
            f = n.func
            names.append(f.attr if isinstance(f, ast.Attribute) else getattr(f, "id", ""))
            for a in n.args:
                if isinstance(a, ast.Name):
                    names.append("arg:" + a.id)
    return names


@structural("C11/scan/need_flags", props=["C11", "C10", "C07", "C04", "C12"],
            note="the cached need (_implied_need) is recomputed only for steps flagged _check_after; the graph operations "
                 "that change a step's consumers or attachment must flag: Step.detach / Step.reattach flag the step and its "
                 "products, Step.detach also the source steps of the detached subtree; the first metadata pass writes every "
                 "seeded row (:first); reconcile_targets flags stale TARGET values and producers of targets")
def need_flags():
    out = []
    det = _calls_in("stepup/core/step.py", "Step.detach")
    out.append(("scan/need_flags/Step.detach.flags_products", "_flag_checks_with_products" in det, str(det)))
    out.append(("scan/need_flags/Step.detach.flags_sources", "arg:RECURSIVE_CHECK_AFTER_SOURCES" in det, str(det)))
    rea = _calls_in("stepup/core/step.py", "Step.reattach")
    out.append(("scan/need_flags/Step.reattach.flags_products", "_flag_checks_with_products" in rea, str(rea)))
    # the two recursive flagging statements are assumed closures: pinned to the text the assumption was written for
    from vc.report import VERIF

    for const in ("RECURSIVE_CHECK_WITH_PRODUCTS", "RECURSIVE_CHECK_AFTER_SOURCES"):
        try:
            now = sqlfront.normalize(extract.module_constant("stepup/core/step.py", const))
        except extract.ExtractError as e:
            out.append((f"scan/need_flags/closure_text/{const}", False, str(e)))
            continue
        with open(os.path.join(VERIF, "specs", "sql", const.lower() + ".sql")) as fh:
            want = sqlfront.normalize(fh.read())
        out.append((f"scan/need_flags/closure_text/{const}", now == want, f"{const} differs from specs/sql/{const.lower()}.sql"))
    flag = sqlfront.normalize(extract.module_constant("stepup/core/step.py", "RECURSIVE_CHECK_WITH_PRODUCTS"))
    out.append(("scan/need_flags/products_statement_sets_check_after", "_check_after = 1" in flag or "_check_after = TRUE" in flag, flag[-200:]))
    # the same statement flags the subtree for the recomputation of _safe (C12: a recycled step gets a creator again,
    # which may be holding; while detached it had none and counted as safe)
    out.append(("scan/need_flags/products_statement_sets_check_safe", "_check_safe = 1" in flag or "_check_safe = TRUE" in flag, flag[-200:]))
    upd = sqlfront.normalize(extract.module_constant("stepup/core/scheduler.py", "UPDATE_CHECK_AFTER"))
    out.append(("scan/need_flags/first_pass_writes_every_row",
                "WHERE :first OR ( new_implied_need != old_implied_need OR new_tail_time != old_tail_time )" in upd, upd[-300:]))
    seed = sqlfront.normalize(extract.module_constant("stepup/core/scheduler.py", "SEED_CHECK_AFTER"))
    out.append(("scan/need_flags/seed_is_flagged_attached_steps",
                seed == "INSERT INTO check_after ( i ) SELECT step . node FROM step JOIN node ON step . node = node . i "
                        "WHERE NOT node . detached AND step . _check_after", seed))
    # row events that change what the need of a step is computed from, and the steps that must be flagged for it
    # (unconditionally: no WHEN clause).  A new or removed edge file -> step changes the need of the *producers* of the
    # file: they are reached only by propagation from the consuming step (insert: both ends are flagged, the sink
    # seeds the propagation) or, once the edge is gone, directly (delete: the sources of the old source; F11)
    from contracts.C10_dispatch import all_triggers

    trg = all_triggers()
    wanted = [
        ("dependency.INSERT.both_ends", "INSERT", "dependency", None,
         ["UPDATE step SET _check_after = 1 WHERE node IN ( NEW . source , NEW . sink ) ;",
          "UPDATE step SET _check_after = 1 WHERE node IN ( NEW . sink , NEW . source ) ;"]),
        ("dependency.DELETE.both_ends", "DELETE", "dependency", None,
         ["UPDATE step SET _check_after = 1 WHERE node IN ( OLD . source , OLD . sink ) ;",
          "UPDATE step SET _check_after = 1 WHERE node IN ( OLD . sink , OLD . source ) ;"]),
        ("dependency.DELETE.producers_of_the_dropped_input", "DELETE", "dependency", None,
         ["UPDATE step SET _check_after = 1 WHERE node IN ( SELECT source FROM dependency WHERE sink = OLD . source ) ;"]),
        ("step.UPDATE.duration", "UPDATE", "step", "duration", ["UPDATE step SET _check_after = 1 WHERE node = NEW . node ;"]),
    ]
    for name, ev, table, col, stmts in wanted:
        hit = [n for n, (e, t, c_, when, body) in trg.items() if e == ev and t == table and (col is None or c_ == col)
               and when is None and any(st in body for st in stmts)]
        out.append((f"scan/need_flags/trigger/{name}", bool(hit), f"triggers: {hit}"))
    # (what reconcile_targets flags -- the stale TARGET values first, the producers of valid targets, the directory
    # targets last -- is stated by its function contract: contracts/C19_targets.py)
    return out
