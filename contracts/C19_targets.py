"""Workflow.reconcile_targets: when a requested target is invalid (C19) and which producers are flagged (C11).

C19 makes the failed bit depend on "a requested target was invalid".  For a database-resumed build with an unchanged
plan the only place that decides this is `reconcile_targets` (director.serve turns its GraphError into FAILED:
C19/scan/serve_returncode).  The contract, over an arbitrary graph seen through four functions of the target path
(attached(p), state(p), creator_is_step(p), chain_pending(p)):

  * GraphError is raised only for a target that is attached, in a state a target may not have (static or volatile)
    and without a PENDING step in its creator chain;
  * a normal return means that no target (the arbitrary p0) is such a file -- whatever creates it (a step, a static
    tree, the root);
  * per target (arbitrary iteration): the producer is flagged (`UPDATE step SET _check_after = 1 WHERE node = ?` with
    the creator's row) exactly when the target is attached, in an allowed state and created by a step; nothing else
    is written;
  * before the loop the stale TARGET values are flagged, after it the directory targets are reconciled.

`find_attached` and `_creator_chain_pending` are assumed (functions of the path / of the file); the callee
`_raise_if_forbidden_target` is used through its verified contract (C11_need)."""

from __future__ import annotations

from contracts import common
from contracts.C11_need import FORBIDDEN
from contracts.common import FileState, GraphError, Step, workflow_spec
from vc import extract, sqlfront, sym
from vc import terms as tm
from vc import types as ty
from vc.engine import LoopSpec, contract
from vc.sym import B, I, S, cur, wrap_bool

Need = common.enums.Need
STR, INT, BOOL = tm.STR, tm.INT, tm.BOOL


def _f(name, path, sort):
    return cur().decls.fun("rt." + name, [STR], sort)(S(path))


def attached(p) -> tm.T:
    return _f("attached", p, BOOL)


def state_t(p) -> tm.T:
    return _f("state", p, INT)


def creator_is_step(p) -> tm.T:
    return _f("creator_is_step", p, BOOL)


def creator_i(p) -> tm.T:
    return _f("creator_i", p, INT)


def chain_pending(p) -> tm.T:
    return _f("chain_pending", p, BOOL)


def forbidden(p) -> tm.T:
    return tm.Or(*[tm.Eq(state_t(p), tm.mk_int(s.value)) for s in FORBIDDEN])


def invalid(p) -> tm.T:
    """Spec: the target names a current (attached) static or volatile file that nothing is going to re-declare."""
    return tm.And(attached(p), forbidden(p), tm.Not(chain_pending(p)))


class _RtFile:
    """The attached file node of a target path: state, creator and creator chain are functions of the path."""

    def __init__(self, path):
        self.path = path

    def get_state(self):
        c = cur()
        st = ty.EnumOf(FileState).fresh(c.fresh_name("rt.state"))
        c.pc.append(tm.Eq(I(st), state_t(self.path)))
        return st

    def creator(self):
        c = cur()
        if c.fork(creator_is_step(self.path)):
            k = c.fresh_name("rt.creator")
            i = ty.Int.fresh(k + ".i")
            c.pc.append(tm.Eq(I(i), creator_i(self.path)))
            return sym.SymObj(Step, dict(graph=None, i=i, label=ty.Str.fresh(k + ".label")), name="Step", frozen=True,
                              eq_fields=("graph", "i", "label"))
        return common.fresh_node(common.StaticTree, None, "rt.tree")


def _find_attached(self, node_type, label):
    c = cur()
    c.event("rt.find_attached", node_type=node_type, label=label)
    return _RtFile(label) if c.fork(attached(label)) else None


def _chain_pending(self, node):
    cur().event("rt.chain_pending", node=node)
    return sym.SymBool(chain_pending(node.path)) if isinstance(node, _RtFile) else sym.SymBool(cur().fresh("rt.any", BOOL))


contract("stepup/core/trellis.py::Trellis.find_attached", props=[], verify=False, impl=_find_attached,
         note="assumed: the attached node of that class and label, or None (one SELECT on node; the label is unique "
              "among attached nodes: schema index)")(type("_find_attached_assumed", (), dict(modifies=[])))
contract("stepup/core/workflow.py::Workflow._creator_chain_pending", props=[], verify=False, impl=_chain_pending,
         note="assumed: whether a PENDING step sits in the creator chain of the node (a walk over Node.creator())")(type("_chain_pending_assumed", (), dict(modifies=[])))


def _member(targets, p) -> tm.T:
    return B(sym.resolve(targets).__contains__(p))


def _inv(e):
    """No target before position i of the sorted targets is invalid (p0 arbitrary)."""
    from vc import vcrt

    p0 = e.ghost.p0
    idx = vcrt.index_of(e.entry.self.targets, p0)
    return wrap_bool(tm.Implies(tm.And(_member(e.entry.self.targets, p0), tm.Lt(idx, I(e.i))), tm.Not(invalid(p0))))


FLAG_PRODUCER = "UPDATE step SET _check_after = 1 WHERE node = ?"


def _iteration(e):
    """The producer of a valid, attached target is flagged; nothing else is written for this target."""
    p = e.current
    writes = [ev for ev in e.iter_trace if ev.kind in ("sql", "sql.many")]
    finds = [ev for ev in e.iter_trace if ev.kind == "rt.find_attached"]
    if len(finds) != 1 or finds[0].node_type is not common.File and getattr(finds[0].node_type, "__name__", "") != "File":
        return False
    looked_up = tm.Eq(S(finds[0].label), S(p))
    want = tm.And(attached(p), tm.Not(forbidden(p)), creator_is_step(p))
    if not writes:
        return wrap_bool(tm.And(looked_up, tm.Not(want)))
    if len(writes) != 1 or writes[0].kind != "sql" or sqlfront.match_key(writes[0].sql) != sqlfront.match_key(FLAG_PRODUCER):
        return False
    a = writes[0].args
    if not isinstance(a, tuple) or len(a) != 1:
        return False
    return wrap_bool(tm.And(looked_up, want, tm.Eq(I(a[0]), creator_i(p))))


def _raise_cond(self):
    lp = cur().data.get("loops", {})
    if 0 not in lp:
        return False
    p = lp[0].current
    return wrap_bool(tm.And(_member(self.targets, p), invalid(p)))


def _finish(c, outcome, args, old):
    if outcome[0] != "return":
        return
    wmod = extract.import_module("stepup/core/workflow.py")
    stmts = [e for e in c.trace if e.kind == "sql"]
    keys = [sqlfront.match_key(e.sql) for e in stmts]
    stale = sqlfront.match_key(f"UPDATE step SET _check_after = 1 WHERE _implied_need = {Need.TARGET.value}")
    dirs = sqlfront.match_key(extract.module_constant("stepup/core/workflow.py", "RECONCILE_TARGET_DIRS"))
    c.prove("stale_target_values_are_flagged_first", tm.mk_bool(bool(keys) and keys[0] == stale), kind="sql", detail=str(keys[:1]))
    c.prove("directory_targets_are_reconciled_last", tm.mk_bool(len(keys) >= 2 and keys[-1] == dirs), kind="sql", detail=str(keys[-1:]))
    del wmod


@contract("stepup/core/workflow.py::Workflow.reconcile_targets", props=["C19", "C11"])
class reconcile_targets:
    """See the module text."""

    args = dict(self=lambda a: workflow_spec([], targets=ty.SetOf(ty.Str), target_dirs=ty.SetOf(ty.Str)).fresh("workflow"))
    ghost = dict(p0=ty.Str)
    may_raise = {GraphError: _raise_cond}
    finish = _finish
    modifies = []
    loops = {0: LoopSpec(invariant=_inv, step_post=_iteration)}

    @staticmethod
    def ensures(self, ghost):
        from vc import vcrt

        vcrt.index_of(self.targets, ghost.p0)
        return wrap_bool(tm.Implies(_member(self.targets, ghost.p0), tm.Not(invalid(ghost.p0))))
