"""Workflow.reconcile_targets: when a requested target is invalid (C19) and which producers are flagged (C11).

C19 makes the failed bit depend on "a requested target was invalid".  For a database-resumed build with an unchanged
plan the only place that decides this is `reconcile_targets` (director.serve turns its GraphError into FAILED:
C19/scan/serve_returncode).  The contract, over an arbitrary graph seen through four functions of the target path
(attached(p), state(p), creator_is_step(p), chain_pending(p)):

  * GraphError is raised only for a target that is attached, in a state a target may not have (static or volatile)
    and without a PENDING step in its creator chain;
  * a normal return means that no target (the arbitrary p0) is such a file -- whatever creates it (a step, a static
    tree, the root);
  * per target (arbitrary iteration): the producer is flagged (`UPDATE step SET _check_after = 1 WHERE node = ?` with
    the creator's row) exactly when the target is attached, in an allowed state and created by a step; nothing else
    is written;
  * before the loop the stale TARGET values are flagged, after it the directory targets are reconciled.

`find_attached` is assumed (a function of the path); `_creator_chain_pending` is verified below against the recursive
definition of "a PENDING step in the creator chain" and used by the caller as a function of the file; the callee
`_raise_if_forbidden_target` is used through its verified contract (C11_need)."""

from __future__ import annotations

from contracts import common
from contracts.C11_need import FORBIDDEN
from contracts.common import FileState, GraphError, Step, workflow_spec
from vc import extract, sqlfront, sym
from vc import terms as tm
from vc import types as ty
from vc.engine import LoopSpec, contract
from vc.sym import B, I, S, cur, wrap_bool

Need = common.enums.Need
STR, INT, BOOL = tm.STR, tm.INT, tm.BOOL


def _f(name, path, sort):
    return cur().decls.fun("rt." + name, [STR], sort)(S(path))


def attached(p) -> tm.T:
    return _f("attached", p, BOOL)


def state_t(p) -> tm.T:
    return _f("state", p, INT)


def creator_is_step(p) -> tm.T:
    return _f("creator_is_step", p, BOOL)


def creator_i(p) -> tm.T:
    return _f("creator_i", p, INT)


def chain_pending(p) -> tm.T:
    return _f("chain_pending", p, BOOL)


def forbidden(p) -> tm.T:
    return tm.Or(*[tm.Eq(state_t(p), tm.mk_int(s.value)) for s in FORBIDDEN])


def invalid(p) -> tm.T:
    """Spec: the target names a current (attached) static or volatile file that nothing is going to re-declare."""
    return tm.And(attached(p), forbidden(p), tm.Not(chain_pending(p)))


class _RtFile:
    """The attached file node of a target path: state, creator and creator chain are functions of the path."""

    def __init__(self, path):
        self.path = path

    def get_state(self):
        c = cur()
        st = ty.EnumOf(FileState).fresh(c.fresh_name("rt.state"))
        c.pc.append(tm.Eq(I(st), state_t(self.path)))
        return st

    def creator(self):
        c = cur()
        if c.fork(creator_is_step(self.path)):
            k = c.fresh_name("rt.creator")
            i = ty.Int.fresh(k + ".i")
            c.pc.append(tm.Eq(I(i), creator_i(self.path)))
            return sym.SymObj(Step, dict(graph=None, i=i, label=ty.Str.fresh(k + ".label")), name="Step", frozen=True,
                              eq_fields=("graph", "i", "label"))
        return common.fresh_node(common.StaticTree, None, "rt.tree")


class _RtStep:
    """The attached step node of a label: its state is a function of the label."""

    def __init__(self, label):
        self.label = label
        self.path = label

    def get_state(self):
        c = cur()
        st = ty.EnumOf(common.enums.StepState).fresh(c.fresh_name("rt.step_state"))
        c.pc.append(tm.Eq(I(st), _f("step_state", self.label, INT)))
        return st


def _find_attached(self, node_type, label):
    c = cur()
    c.event("rt.find_attached", node_type=node_type, label=label)
    if not c.fork(attached(label)):
        return None
    return _RtStep(label) if getattr(node_type, "__name__", "") == "Step" else _RtFile(label)


def _chain_pending(self, node):
    cur().event("rt.chain_pending", node=node)
    return sym.SymBool(chain_pending(node.path)) if isinstance(node, _RtFile) else sym.SymBool(cur().fresh("rt.any", BOOL))


class _Kind:
    """A node class as find_attached uses it: kind() names the rows, calling it builds the node object."""

    def __init__(self, name):
        self.k = ty.Str.fresh(name + ".kind")

    def kind(self):
        return self.k

    def __call__(self, graph, i, label):
        cur().event("rt.node_built", graph=graph, i=i, label=label)
        return sym.SymObj(common.Node, dict(graph=graph, i=i, label=label), name="Node", frozen=True,
                          eq_fields=("graph", "i", "label"))


FIND_ATTACHED = "SELECT i FROM node WHERE kind = ? AND label = ? AND NOT detached"


def _fa_finish(c, outcome, args, old):
    """One statement: the attached rows of that kind and label; None exactly when it has no row, otherwise the node of
    the row found (its i, the label asked for).  That at most one such row exists is the schema's unique index."""
    if outcome[0] != "return":
        return
    stmts = [e for e in c.trace if e.kind == "sql"]
    ok_sql = len(stmts) == 1 and sqlfront.match_key(stmts[0].sql) == sqlfront.match_key(FIND_ATTACHED) \
        and isinstance(stmts[0].args, tuple) and len(stmts[0].args) == 2
    c.prove("selects_attached_rows_of_kind_and_label", tm.And(tm.mk_bool(ok_sql), *(
        [tm.Eq(S(stmts[0].args[0]), S(args["node_type"].k)), tm.Eq(S(stmts[0].args[1]), S(args["label"]))] if ok_sql else [])),
        kind="sql", detail=str([e.sql for e in stmts]))
    fetch = [e for e in c.trace if e.kind == "sql.fetchone"]
    built = [e for e in c.trace if e.kind == "rt.node_built"]
    res = outcome[1]
    none = res is None
    c.prove("none_exactly_without_row", tm.mk_bool(len(fetch) == 1) if not fetch else
            tm.And(tm.mk_bool(len(fetch) == 1), tm.Iff(tm.mk_bool(none), fetch[0].isnone)), kind="post")
    if not none:
        c.prove("node_of_the_row_found", tm.mk_bool(len(built) == 1 and built[0].graph is args["self"]) if len(built) != 1 else
                tm.And(tm.mk_bool(built[0].graph is args["self"]), tm.Eq(S(built[0].label), S(args["label"]))), kind="post")


@contract("stepup/core/trellis.py::Trellis.find_attached", props=["C19", "C11", "C09"], impl=_find_attached)
class find_attached:
    """Callers use it as a function of the label (attached or None)."""

    args = dict(self=lambda a: workflow_spec([(FIND_ATTACHED, ty.TupleOf(ty.Int))]).fresh("workflow"),
                node_type=ty.Make(_Kind), label=ty.Str)
    finish = _fa_finish
    modifies = []
# ---- Workflow._creator_chain_pending, verified against the recursive reading of "a PENDING step in the creator chain"
#
# The graph is seen through functions of the node id: cr(n) the creator, kind(n) in {none, root, step, other}, st(n) the
# step state.  CP(n) is the specification, defined by recursion along cr (well-defined for the finite creator chains
# the schema guarantees: creator references an older row or the root):
#     CP(n)  <=>  kind(cr n) not in {none, root}  and  ((kind(cr n) = step and st(cr n) = PENDING)  or  CP(cr n))
# The definition is unfolded where the code follows an edge (creator()).  Loop invariant: CP(entry node) <=> CP(node).
# Termination of the walk is not proved.

K_NONE, K_ROOT, K_STEP, K_OTHER = range(4)
StepState = common.enums.StepState


def _g(name, n, sort):
    return cur().decls.fun("chain." + name, [INT], sort)(I(n))


def CP(n) -> tm.T:
    return _g("CP", n, BOOL)


def _unfold(n):
    c = cur()
    m = _g("cr", n, INT)
    k = _g("kind", m, INT)
    c.pc.append(tm.And(tm.Le(tm.mk_int(0), k), tm.Le(k, tm.mk_int(3))))
    c.pc.append(tm.Iff(CP(n), tm.And(tm.Not(tm.Eq(k, tm.mk_int(K_NONE))), tm.Not(tm.Eq(k, tm.mk_int(K_ROOT))), tm.Or(
        tm.And(tm.Eq(k, tm.mk_int(K_STEP)), tm.Eq(_g("st", m, INT), tm.mk_int(StepState.PENDING.value))), CP(m)))))
    return m, k


class _ChainNode:
    def __init__(self, name):
        self.id = ty.Int.fresh(name + ".id") if isinstance(name, str) else name

    def creator(self):
        c = cur()
        m, k = _unfold(self.id)
        for kind, cls in ((K_NONE, None), (K_ROOT, _ChainRoot), (K_STEP, _ChainStep)):
            if c.fork(tm.Eq(k, tm.mk_int(kind))):
                return None if cls is None else cls(sym.SymInt(m))
        return _ChainNode(sym.SymInt(m))


class _ChainRoot(_ChainNode):
    pass


class _ChainStep(_ChainNode):
    def get_state(self):
        c = cur()
        st = ty.EnumOf(StepState).fresh(c.fresh_name("chain.state"))
        c.pc.append(tm.Eq(I(st), _g("st", self.id, INT)))
        return st


def _cp_inv(e):
    # the node the walk stands on: the loop-carried local of the node class (whatever it is called)
    here = [v for k, v in vars(e).items() if isinstance(v, _ChainNode) and v is not e.entry.node and k != "entry"]
    if not here:
        here = [e.entry.node]  # loop entry: the walk stands on the node it was given
    if len({id(v) for v in here}) != 1:
        return False
    return wrap_bool(tm.Iff(CP(e.entry.node.id), CP(here[0].id)))


@contract("stepup/core/workflow.py::Workflow._creator_chain_pending", props=["C19", "C11"], impl=_chain_pending)
class creator_chain_pending:
    """True exactly when a PENDING step sits in the creator chain of the node (CP above).  Callers use it as a
    function of the node."""

    args = dict(self=lambda a: workflow_spec([]).fresh("workflow"), node=ty.Make(_ChainNode))
    env = dict(Root=_ChainRoot, Step=_ChainStep)
    ensures = lambda node, result, old: wrap_bool(tm.Iff(B(result), CP(old.node.id)))
    result = ty.Bool
    modifies = []
    loops = {0: LoopSpec(invariant=_cp_inv, locals={"@_ChainNode": ty.Make(_ChainNode)})}


def _member(targets, p) -> tm.T:
    return B(sym.resolve(targets).__contains__(p))


def _inv(e):
    """No target before position i of the sorted targets is invalid (p0 arbitrary)."""
    from vc import vcrt

    p0 = e.ghost.p0
    idx = vcrt.index_of(e.entry.self.targets, p0)
    return wrap_bool(tm.Implies(tm.And(_member(e.entry.self.targets, p0), tm.Lt(idx, I(e.i))), tm.Not(invalid(p0))))


FLAG_PRODUCER = "UPDATE step SET _check_after = 1 WHERE node = ?"


def _iteration(e):
    """The producer of a valid, attached target is flagged; nothing else is written for this target."""
    p = e.current
    writes = [ev for ev in e.iter_trace if ev.kind in ("sql", "sql.many")]
    finds = [ev for ev in e.iter_trace if ev.kind == "rt.find_attached"]
    if len(finds) != 1 or finds[0].node_type is not common.File and getattr(finds[0].node_type, "__name__", "") != "File":
        return False
    looked_up = tm.Eq(S(finds[0].label), S(p))
    want = tm.And(attached(p), tm.Not(forbidden(p)), creator_is_step(p))
    if not writes:
        return wrap_bool(tm.And(looked_up, tm.Not(want)))
    if len(writes) != 1 or writes[0].kind != "sql" or sqlfront.match_key(writes[0].sql) != sqlfront.match_key(FLAG_PRODUCER):
        return False
    a = writes[0].args
    if not isinstance(a, tuple) or len(a) != 1:
        return False
    return wrap_bool(tm.And(looked_up, want, tm.Eq(I(a[0]), creator_i(p))))


def _raise_cond(self):
    lp = cur().data.get("loops", {})
    if 0 not in lp:
        return False
    p = lp[0].current
    return wrap_bool(tm.And(_member(self.targets, p), invalid(p)))


def _finish(c, outcome, args, old):
    if outcome[0] != "return":
        return
    wmod = extract.import_module("stepup/core/workflow.py")
    stmts = [e for e in c.trace if e.kind == "sql"]
    keys = [sqlfront.match_key(e.sql) for e in stmts]
    stale = sqlfront.match_key(f"UPDATE step SET _check_after = 1 WHERE _implied_need = {Need.TARGET.value}")
    dirs = sqlfront.match_key(extract.module_constant("stepup/core/workflow.py", "RECONCILE_TARGET_DIRS"))
    c.prove("stale_target_values_are_flagged_first", tm.mk_bool(bool(keys) and keys[0] == stale), kind="sql", detail=str(keys[:1]))
    c.prove("directory_targets_are_reconciled_last", tm.mk_bool(len(keys) >= 2 and keys[-1] == dirs), kind="sql", detail=str(keys[-1:]))
    del wmod


@contract("stepup/core/workflow.py::Workflow.reconcile_targets", props=["C19", "C11"])
class reconcile_targets:
    """See the module text."""

    args = dict(self=lambda a: workflow_spec([], targets=ty.SetOf(ty.Str), target_dirs=ty.SetOf(ty.Str)).fresh("workflow"))
    ghost = dict(p0=ty.Str)
    may_raise = {GraphError: _raise_cond}
    finish = _finish
    modifies = []
    loops = {0: LoopSpec(invariant=_inv, step_post=_iteration)}

    @staticmethod
    def ensures(self, ghost):
        from vc import vcrt

        vcrt.index_of(self.targets, ghost.p0)
        return wrap_bool(tm.Implies(_member(self.targets, ghost.p0), tm.Not(invalid(ghost.p0))))


# ---- Workflow.is_regular_output (what "not produced by any step" in the end-of-build report is judged by)

from contracts import C19_status  # noqa: E402,F401  (declares the contract the reporting functions call)
from vc import engine  # noqa: E402

OUTPUT_STATES = tuple(common.enums.FILE_STATES_BY_ROLE[common.FileRole.OUTPUT])


def _iro_post(self, path, result):
    """True exactly for a path that an attached file node claims, created by a step, in a state of a regular output."""
    return wrap_bool(tm.Iff(B(result), tm.And(attached(path), creator_is_step(path),
                                              tm.Or(*[tm.Eq(state_t(path), tm.mk_int(s.value)) for s in OUTPUT_STATES]))))


_iro = engine.REGISTRY["stepup/core/workflow.py::Workflow.is_regular_output"]
_iro.verify = True
_iro.props = ["C19", "C11"]
_iro.note = ""
_iro.args = dict(self=lambda a: workflow_spec([]).fresh("workflow"), path=ty.Str)
_iro.ensures = _iro_post


# ---- Workflow.change_is_relevant (which external changes the watcher records: C04, C17; C09: a change to a detached
#      memory of a file -- e.g. an UNDECLARED input -- is not news, and a hash job for it would be rejected)

from contracts.C08_claims import View, db_of  # noqa: E402
from contracts import C08_claims  # noqa: E402

wfmod = extract.import_module("stepup/core/workflow.py")


def _cir_post(self, path, during_build, result):
    """An attached file node decides by its state (during a build only CONFIRMED / MISSING, otherwise everything but
    PLANNED / VOLATILE); a path without attached file node is relevant exactly when an attached registration matches it."""
    states = lambda fs: tm.Or(*[tm.Eq(state_t(path), tm.mk_int(s.value)) for s in sorted(fs)])  # noqa: E731
    by_state = tm.Ite(B(during_build), states(wfmod._RELEVANT_STATES_DURING_BUILD), states(wfmod._RELEVANT_STATES))
    return wrap_bool(tm.Iff(B(result), tm.Ite(attached(path), by_state, View(db_of(self)).globmatch(path))))


@contract("stepup/core/workflow.py::Workflow.change_is_relevant", props=["C04", "C17", "C09"])
class change_is_relevant:
    args = dict(self=lambda a: workflow_spec([C08_claims.MAG_QUERY]).fresh("workflow"), path=ty.Str, during_build=ty.Bool)
    ensures = _cir_post
    result = ty.Bool
    modifies = []


# ---- Workflow.steps: the statement behind "the attached steps in this state" (the witness clause stays assumed)

STEPS_SQL = "SELECT i, label FROM node JOIN step ON node.i = step.node WHERE state = ? AND NOT detached"


def _steps_finish(c, outcome, args, old):
    if outcome[0] != "return":
        return
    st = [e for e in c.trace if e.kind == "sql"]
    ok = len(st) == 1 and sqlfront.match_key(st[0].sql) == sqlfront.match_key(STEPS_SQL) and isinstance(st[0].args, tuple) \
        and len(st[0].args) == 1
    c.prove("selects_attached_steps_in_the_state_asked_for", tm.And(tm.mk_bool(ok), *(
        [tm.Eq(I(st[0].args[0]), I(args["state"]))] if ok else [])), kind="sql", detail=str([e.sql for e in st]))


_st = engine.REGISTRY["stepup/core/workflow.py::Workflow.steps"]
_st.assume_post, _st.ensures = _st.ensures, None
_st.verify = True
_st.props = ["C19", "C05", "C04"]
_st.note = "the witness clause (a non-empty result has an attached step row in that state) is assumed; the statement is verified"
_st.args = dict(self=lambda a: workflow_spec([(STEPS_SQL, ty.TupleOf(ty.Int, ty.Str))]).fresh("workflow"),
                state=ty.EnumOf(common.enums.StepState))
_st.finish = _steps_finish


# ---- Workflow.initialize_boot: resume or re-initialise (C05: what a killed build leaves is repaired by resume_from_db,
#      which serve() runs exactly when this function returns False)

PLAN_PY = wfmod.PLAN_PY


class _IbRoot:
    i = 0

    def products(self):
        cur().event("ib.root_products")
        return []


class _IbWorkflow:
    """The workflow as initialize_boot uses it: the lookups are functions of the label (find_attached's contract); the
    re-initialisation calls are recorded."""

    def __init__(self, name):
        self.root = _IbRoot()

    def find_attached(self, node_type, label):
        return _find_attached(self, node_type, label)

    def declare_static_files(self, creator, paths):
        cur().event("ib.declare_static_files", paths=list(paths))
        return {}

    def update_file_hashes(self, hashes, *, cause):
        cur().event("ib.update_file_hashes")

    def define_step(self, creator, command, **kw):
        cur().event("ib.define_step", command=command, kw=kw)


def _ib_finish(c, outcome, args, old):
    """Resume (False) exactly when plan.py is an attached CONFIRMED file and the boot step is attached -- whatever
    state that step is in: RUNNING / CHECKING / FAILED leftovers of a killed build are what resume_from_db repairs.
    Otherwise the boot nodes are declared again and True is returned."""
    if outcome[0] != "return":
        return
    cmd = args["command"]
    resume = tm.And(attached(PLAN_PY), attached(cmd), tm.Eq(state_t(PLAN_PY), tm.mk_int(FileState.CONFIRMED.value)))
    res = outcome[1]
    c.prove("resumes_iff_the_boot_nodes_are_there", tm.Iff(tm.Not(B(res)), resume), kind="post")
    made = [e for e in c.trace if e.kind in ("ib.declare_static_files", "ib.define_step")]
    c.prove("reinitialises_iff_it_says_so", tm.Iff(B(res), tm.mk_bool(
        [e.kind for e in made] == ["ib.declare_static_files", "ib.define_step"])), kind="post")


@contract("stepup/core/workflow.py::Workflow.initialize_boot", props=["C05", "C04", "C19"])
class initialize_boot:
    args = dict(self=ty.Make(_IbWorkflow), command=lambda a: "./plan.py")
    finish = _ib_finish
    modifies = []
    loops = {0: LoopSpec()}
