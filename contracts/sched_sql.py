"""SQL contracts of the dispatch decision (C03, C10, C11, C12): the real statement text against spec predicates."""

from __future__ import annotations

import re

from contracts import common, trusted
from contracts.common import FileState, Need, StepState
from contracts.sqlspec import Row
from vc import extract, sqlfront, sym
from vc import terms as tm
from vc.report import lemma, structural
from vc.sym import cur, wrap_bool
from vc.terms import BOOL, INT, STR

SCHED = "stepup/core/scheduler.py"
STEP = "stepup/core/step.py"


def const(rel, name):
    return extract.module_constant(rel, name)


def I_(v):
    return tm.mk_int(int(v))


def truthy(t):
    return tm.Ne(t, tm.mk_int(0))


def bool_col_hyps(row, cols):
    """CHECK constraints of the step table: flag columns hold 0 or 1 (trusted to SQLite)."""
    return [tm.Or(tm.Eq(row(a, n), tm.mk_int(0)), tm.Eq(row(a, n), tm.mk_int(1))) for a, n in cols]


# ---------------------------------------------------------------- SELECT_NEXT_STEP


def _subquery_resource(e, row, c):
    """NOT EXISTS (RESOURCE_UNAVAILABLE): the ghost predicate `resource_blocked` of the candidate step, provided
    the subquery text is the RESOURCE_UNAVAILABLE constant (which has a contract of its own)."""
    if e[0] != "exists":
        return None
    text = sqlfront.normalize(sqlfront.show(e[1]))
    want = sqlfront.normalize(const(SCHED, "RESOURCE_UNAVAILABLE"))
    if text == want:
        return sqlfront.Val(c.decls.const("ghost.resource_blocked", BOOL), "bool")
    return None


@lemma("sched/sql/SELECT_NEXT_STEP.exact", props=["C10", "C12", "C03", "C11", "C04"],
       note="the dispatch query selects a step iff the property's eligibility predicate holds, over the cached columns")
def select_next_step():
    c = cur()
    sql = const(SCHED, "SELECT_NEXT_STEP")
    e = sqlfront.where_of(sql)
    row = Row()
    threshold = c.decls.const("param.need_threshold", INT)
    tr = sqlfront.Translator(c.decls, row.col, lambda idx: sqlfront.Val(threshold, "int"),
                             subquery=lambda e_: _subquery_resource(e_, row, c))
    f = tr.holds(e)
    s = lambda n: row("step", n)  # noqa: E731
    flags = [("step", n) for n in ("_safe", "_has_hash", "_safe_ignoring_hold", "deferred", "_ready")] + [("node", "detached")]
    for h in bool_col_hyps(row, flags):
        c.pc.append(h)
    blocked = c.decls.const("ghost.resource_blocked", BOOL)
    spec = tm.And(
        tm.Eq(s("state"), I_(StepState.PENDING.value)),
        tm.Not(truthy(row("node", "detached"))),
        tm.Not(truthy(s("deferred"))),
        truthy(s("_ready")),
        tm.Gt(s("_implied_need"), tm.Max(I_(Need.OPTIONAL.value), threshold)),
        tm.Or(truthy(s("_safe")), tm.And(truthy(s("_has_hash")), truthy(s("_safe_ignoring_hold")))),
        tm.Or(truthy(s("_has_hash")), tm.Not(blocked)))
    c.prove("iff_spec", tm.Iff(f, spec), kind="sql")
    # consequences the properties name
    c.prove("running_implies_safe_including_hold",
            tm.Implies(tm.And(f, tm.Not(truthy(s("_has_hash")))), truthy(s("_safe"))), kind="sql")
    c.prove("running_implies_resources_free",
            tm.Implies(tm.And(f, tm.Not(truthy(s("_has_hash")))), tm.Not(blocked)), kind="sql")
    c.prove("only_pending_attached_ready", tm.Implies(f, tm.And(tm.Eq(s("state"), I_(StepState.PENDING.value)),
                                                              truthy(s("_ready")))), kind="sql")
    return None


@structural("sched/sql/step_dispatch_index", props=["C10"],
            note="INDEXED BY step_dispatch is sound: the index's WHERE clause is the STEP_DISPATCH_WHERE conjunct of the query")
def dispatch_index():
    schema = const(STEP, "STEP_SCHEMA")
    where = sqlfront.normalize(const(STEP, "STEP_DISPATCH_WHERE"))
    m = re.search(r"CREATE INDEX IF NOT EXISTS step_dispatch ON step\((.*?)\)\s*WHERE(.*?);", schema, re.S)
    out = []
    if not m:
        return [("sql/step_dispatch_index/found", False, "index definition not found")]
    idx_where = sqlfront.normalize(m.group(2))
    out.append(("sql/step_dispatch_index/where_is_dispatch_where", idx_where == where, idx_where[:120]))
    q = sqlfront.normalize(const(SCHED, "SELECT_NEXT_STEP"))
    out.append(("sql/step_dispatch_index/query_contains_where", where in q, "query WHERE contains the index predicate"))
    out.append(("sql/step_dispatch_index/limit_one", q.rstrip().endswith("LIMIT 1"), "a single row is selected"))
    return out


# ---------------------------------------------------------------- RESOURCE_UNAVAILABLE


@lemma("sched/sql/RESOURCE_UNAVAILABLE.exact", props=["C12"],
       note="a requirement row blocks iff the resource is undefined or available minus the units held by RUNNING steps "
            "is less than required")
def resource_unavailable():
    c = cur()
    sql = const(SCHED, "RESOURCE_UNAVAILABLE")
    e = sqlfront.where_of(sql)
    row = Row(nullable=[("avail", "name"), ("avail", "units")])
    used = c.decls.const("ghost.used_by_running", INT)
    used_null = c.decls.const("ghost.no_running_user", BOOL)

    def subq(e_, row_, c_):
        if e_[0] != "scalar_select":
            return None
        toks = e_[1]
        text = sqlfront.normalize(sqlfront.show(toks))
        w = sqlfront.where_of(toks)
        cj = {sqlfront.normalize(_show_expr(x)) for x in sqlfront.conjuncts(w)}
        ok = (text.startswith("SELECT SUM ( r2 . units ) FROM step_resource AS r2 JOIN step AS s2 ON s2 . node = r2 . node")
              and cj == {"r2 . name = req . name", f"s2 . state = {StepState.RUNNING.value}"})
        c_.prove("sum_is_over_running_users_of_the_same_resource", ok, kind="sql", detail=text[:160])
        return sqlfront.Val(used, "int", used_null)

    tr = sqlfront.Translator(c.decls, row.col, lambda i: None, subquery=lambda e_: subq(e_, row, c))
    f = tr.holds(e)
    # LEFT JOIN: the avail row is NULL-extended iff no available_resource row has that name
    undefined = row.isnull("avail", "name")
    c.pc.append(tm.Iff(undefined, row.isnull("avail", "units")))
    c.pc.append(tm.Implies(tm.Not(undefined), tm.Eq(row("avail", "name"), row("req", "name"))))
    this_step = tm.Eq(row("req", "node"), row("node", "i"))
    usedv = tm.Ite(used_null, tm.mk_int(0), used)
    spec = tm.And(this_step, tm.Or(undefined, tm.Lt(tm.Sub(row("avail", "units"), usedv), row("req", "units"))))
    c.prove("iff_spec", tm.Iff(f, spec), kind="sql")
    return None


def _show_expr(e):
    """Render an expression AST back to normalised SQL text (columns, comparisons, literals only)."""
    k = e[0]
    if k == "col":
        return f"{e[1]} . {e[2]}" if e[1] else e[2]
    if k == "num":
        return e[1]
    if k == "str":
        return "'" + e[1] + "'"
    if k == "cmp":
        return f"{_show_expr(e[2])} {e[1]} {_show_expr(e[3])}"
    if k == "param":
        return "?"
    return str(e)


@lemma("sched/lemma/resource_invariant_preserved", props=["C12"],
       note="if used(r) <= available(r) before the dispatch transaction and the step moved to RUNNING was not blocked "
            "on r, then used(r) + required(r) <= available(r) afterwards (SUM treated as a mathematical integer)")
def resource_invariant():
    c = cur()
    avail, used, req = (c.fresh(n, INT) for n in ("available", "used", "required"))
    c.assume(wrap_bool(tm.And(tm.Ge(used, tm.mk_int(0)), tm.Ge(req, tm.mk_int(0)), tm.Le(used, avail))))
    c.assume(wrap_bool(tm.Not(tm.Lt(tm.Sub(avail, used), req))))  # not blocked
    return wrap_bool(tm.Le(tm.Add(used, req), avail))


# ---------------------------------------------------------------- _ready (C03, C10)


@lemma("sched/sql/UNAVAILABLE_INPUT_WHERE.exact", props=["C03", "C10"],
       note="an input blocks a step iff it is VOLATILE, or dynamic, attached and PLANNED/OUTDATED, or initial and "
            "(detached or not BUILT/CONFIRMED): 'available' means built by a completed step or confirmed static")
def unavailable_input():
    c = cur()
    e = sqlfront.parse_expr(const(STEP, "UNAVAILABLE_INPUT_WHERE"))
    row = Row(nullable=[("dynamic_dep", "i")])
    tr = sqlfront.Translator(c.decls, row.col, lambda i: None)
    f = tr.holds(e)
    st = row("input_file", "state")
    det = truthy(row("input_node", "detached"))
    c.pc.append(tm.Or(tm.Eq(row("input_node", "detached"), tm.mk_int(0)), tm.Eq(row("input_node", "detached"), tm.mk_int(1))))
    dynamic = tm.Not(row.isnull("dynamic_dep", "i"))

    def is_(s):
        return tm.Eq(st, I_(s.value))

    available = tm.Or(is_(FileState.BUILT), is_(FileState.CONFIRMED))
    spec = tm.Or(is_(FileState.VOLATILE),
                 tm.And(dynamic, tm.Not(det), tm.Or(is_(FileState.PLANNED), is_(FileState.OUTDATED))),
                 tm.And(tm.Not(dynamic), tm.Or(det, tm.Not(available))))
    c.prove("iff_spec", tm.Iff(f, spec), kind="sql")
    # the property's first sentence: an initial input that does not block is attached and BUILT or CONFIRMED
    c.prove("nonblocking_initial_input_is_available",
            tm.Implies(tm.And(tm.Not(f), tm.Not(dynamic)), tm.And(tm.Not(det), available)), kind="sql")
    return None


@structural("sched/sql/RECOMPUTE_READY.shape", props=["C03", "C10"],
            note="_ready := NOT EXISTS(an input of this step that satisfies UNAVAILABLE_INPUT_WHERE); only flagged rows; "
                 "the flag is cleared in the same statement")
def recompute_ready_shape():
    sql = sqlfront.normalize(const(SCHED, "RECOMPUTE_READY"))
    sub = sqlfront.normalize(extract.import_module(STEP).unavailable_input_sql("step.node"))
    where_txt = sqlfront.normalize(const(STEP, "UNAVAILABLE_INPUT_WHERE"))
    out = [
        ("sql/RECOMPUTE_READY.shape/assignment", f"_ready = NOT EXISTS ( {sub} )" in sql, "assignment of _ready"),
        ("sql/RECOMPUTE_READY.shape/clears_flag", "_check_ready = 0" in sql and sql.rstrip().endswith("WHERE _check_ready"),
         "flag cleared, only flagged rows touched"),
        ("sql/RECOMPUTE_READY.shape/subquery_filters_this_step",
         f"WHERE dep . sink = step . node AND ( {where_txt} )" in sub, "inputs of this step that satisfy the predicate"),
        ("sql/RECOMPUTE_READY.shape/subquery_joins",
         "FROM dependency AS dep JOIN file AS input_file ON input_file . node = dep . source JOIN node AS input_node "
         "ON input_node . i = dep . source LEFT JOIN dynamic_dep ON dynamic_dep . i = dep . i" in sub, "join shape"),
    ]
    return out


# ---------------------------------------------------------------- _safe local equation (C10, C12)


@lemma("sched/sql/FILL_SAFE_UPDATE.seed_equation", props=["C10", "C12"],
       note="local equation of _safe: a step is safe iff it has no creator step, or its creator is safe, RUNNING or "
            "SUCCEEDED, and holds nothing; _safe_ignoring_hold is the same without the hold term")
def fill_safe_seed():
    c = cur()
    sql = const(SCHED, "FILL_SAFE_UPDATE")
    toks = sqlfront.tokenize(sql)
    # the seed SELECT of the recursive CTE: first SELECT after `AS (`
    txt = sqlfront.normalize(sql)
    start = txt.index("AS ( SELECT") + len("AS ( SELECT")
    end = txt.index("FROM step AS s", start)
    cols = _split_top_level(txt[start:end])
    c.prove("seed_has_five_columns", len(cols) == 5, kind="sql", detail=str(len(cols)))
    if len(cols) != 5:
        return None
    row = Row(nullable=[("creator_step", n) for n in ("_safe", "state", "_holding", "_safe_ignoring_hold")])
    tr = sqlfront.Translator(c.decls, row.col, lambda i: None)
    nocreator = row.isnull("creator_step", "state")
    for n in ("_safe", "_holding", "_safe_ignoring_hold"):
        c.pc.append(tm.Iff(row.isnull("creator_step", n), nocreator))
    for h in bool_col_hyps(row, [("creator_step", "_safe"), ("creator_step", "_safe_ignoring_hold")]):
        c.pc.append(h)
    c.pc.append(tm.Ge(row("creator_step", "_holding"), tm.mk_int(0)))
    # CHECK (_safe_ignoring_hold >= _safe) on the creator's row
    c.pc.append(tm.Ge(row("creator_step", "_safe_ignoring_hold"), row("creator_step", "_safe")))
    cs = lambda n: row("creator_step", n)  # noqa: E731
    active = tm.Or(tm.Eq(cs("state"), I_(StepState.RUNNING.value)), tm.Eq(cs("state"), I_(StepState.SUCCEEDED.value)))
    safe_spec = tm.Or(nocreator, tm.And(truthy(cs("_safe")), active, tm.Eq(cs("_holding"), tm.mk_int(0))))
    nh_spec = tm.Or(nocreator, tm.And(truthy(cs("_safe_ignoring_hold")), active))
    safe_v = tr.ev(sqlfront.parse_expr(cols[1]))
    nh_v = tr.ev(sqlfront.parse_expr(cols[3]))
    st, sn = tr.truth(safe_v)
    nt, nn = tr.truth(nh_v)
    c.prove("safe_equation", tm.And(tm.Not(sn), tm.Iff(st, safe_spec)), kind="sql")
    c.prove("safe_ignoring_hold_equation", tm.And(tm.Not(nn), tm.Iff(nt, nh_spec)), kind="sql")
    c.prove("hold_only_lowers_safe", tm.Implies(st, nt), kind="sql")
    return None


def _split_top_level(text):
    out, depth, cur_ = [], 0, []
    for tok in text.split(" "):
        if tok == "(":
            depth += 1
        elif tok == ")":
            depth -= 1
        if tok == "," and depth == 0:
            out.append(" ".join(cur_))
            cur_ = []
        else:
            cur_.append(tok)
    if cur_:
        out.append(" ".join(cur_))
    return [x.strip() for x in out if x.strip()]


# ---------------------------------------------------------------- _implied_need local equation (C11)


@lemma("sched/sql/UPDATE_CHECK_AFTER.need_equation", props=["C11", "C10"],
       note="new _implied_need = max(need, target elevation, max over attached consuming steps); elevation is TARGET for "
            "an exact target on a regular output, and for a DEFAULT step with a regular output under a directory target")
def implied_need_equation():
    c = cur()
    txt = sqlfront.normalize(const(SCHED, "UPDATE_CHECK_AFTER"))
    m = re.search(r"MAX \( (step \. need , .*?) \) AS new_implied_need", txt)
    c.prove("expression_found", m is not None, kind="sql")
    if not m:
        return None
    args = _split_top_level(m.group(1))
    c.prove("three_arguments", len(args) == 3, kind="sql", detail=str(args)[:200])
    if len(args) != 3:
        return None
    row = Row()
    exact = c.decls.const("ghost.has_regular_output_that_is_exact_target", BOOL)
    under = c.decls.const("ghost.has_regular_output_under_directory_target", BOOL)
    maxsink = c.decls.const("ghost.max_implied_need_of_attached_sink_steps", INT)
    nosink = c.decls.const("ghost.no_attached_sink_step", BOOL)
    regular = sqlfront.normalize(const("stepup/core/file.py", "REGULAR_OUTPUT_WHERE"))

    def subq(e_):
        if e_[0] == "exists":
            t = sqlfront.normalize(sqlfront.show(e_[1]))
            shape = ("FROM dependency AS depo JOIN node AS onode ON onode . i = depo . sink JOIN file AS ofile ON "
                     "ofile . node = depo . sink WHERE depo . source = check_after . i AND " + regular)
            if shape in t and t.endswith("AND onode . label IN ( SELECT path FROM target_path )"):
                return sqlfront.Val(exact, "bool")
            if shape in t and "FROM target_dir WHERE onode . label >= target_dir . path AND onode . label < target_dir . upper" in t:
                return sqlfront.Val(under, "bool")
        return None

    tr = sqlfront.Translator(c.decls, row.col, lambda i: None, subquery=subq)
    need = row("step", "need")
    c.pc.append(tm.Or(*[tm.Eq(need, I_(v.value)) for v in (Need.OPTIONAL, Need.DEFAULT, Need.PLAN)]))
    a0 = tr.ev(sqlfront.parse_expr(args[0]))
    a1 = tr.ev(sqlfront.parse_expr(args[1]))
    # third argument: COALESCE(MAX(sink_step._implied_need), OPTIONAL) — an aggregate over the joined sink steps
    a2ok = args[2] == f"COALESCE ( MAX ( sink_step . _implied_need ) , {Need.OPTIONAL.value} )"
    c.prove("sink_aggregate_shape", a2ok, kind="sql", detail=args[2])
    sinkmax = tm.Ite(nosink, I_(Need.OPTIONAL.value), maxsink)
    got = tm.Max(tm.Max(tr.as_int(a0), tr.as_int(a1)), sinkmax)
    elev = tm.Ite(tm.Or(exact, tm.And(tm.Eq(need, I_(Need.DEFAULT.value)), under)), I_(Need.TARGET.value), I_(Need.OPTIONAL.value))
    want = tm.Max(tm.Max(need, elev), sinkmax)
    c.prove("equation", tm.And(tm.Not(a0.null), tm.Not(a1.null), tm.Eq(got, want)), kind="sql")
    # the sink steps joined are the attached consumers of this step's outputs
    joins = ("LEFT JOIN dependency AS dep1 ON dep1 . source = check_after . i LEFT JOIN dependency AS dep2 ON "
             "dep2 . source = dep1 . sink LEFT JOIN node AS sink_node ON ( sink_node . i = dep2 . sink AND NOT "
             "sink_node . detached ) LEFT JOIN step AS sink_step ON ( sink_step . node = sink_node . i )")
    c.prove("sink_steps_are_attached_consumers", joins in txt, kind="sql")
    return None
