"""C20: a path means the same file to a step and to the director.

Spec: res(b, p) is the canonical absolute path that `p` designates when interpreted in directory `b`
(lexical resolution, no symbolic links).  posixpath.normpath / join / relpath / isabs are used by the code
through `path.Path`; their contracts in terms of res are ASSUMED (POSIX_AXIOMS below) and validated
exhaustively on small paths against CPython by the bounded stand-in `posix_axioms`.
"""

from __future__ import annotations

from contracts import common, trusted
from contracts.trusted import SymPath
from vc import engine, extract, sym
from vc import terms as tm
from vc import types as ty
from vc.engine import contract
from vc.report import bounded, lemma, replayer, structural
from vc.sym import B, S, SymStr, cur, wrap_bool, wrap_str
from vc.terms import BOOL, INT, STR

pathmod = extract.import_module("stepup/core/path.py")
PathError = common.excmod.PathError
SL = tm.mk_str("/")
DOT = tm.mk_str(".")


# ---------------------------------------------------------------- affixes (plain string reasoning)


def affixes_t(p: tm.T):
    trailing = tm.Ite(tm.SuffixOf(SL, p), SL, tm.mk_str(""))
    core = tm.Ite(tm.SuffixOf(SL, p), tm.Substr(p, tm.mk_int(0), tm.Sub(tm.Len(p), tm.mk_int(1))), p)
    leading = tm.Ite(tm.PrefixOf(tm.mk_str("./"), core), tm.mk_str("./"), tm.mk_str(""))
    return leading, trailing


@contract("stepup/core/path.py::get_affixes", props=["C20"])
class get_affixes:
    args = dict(path=ty.Str)
    env = dict(coerce_str=lambda p: p)
    ensures = lambda path, result: (result[0] == wrap_str(affixes_t(S(path))[0])) & (result[1] == wrap_str(affixes_t(S(path))[1]))
    result = ty.TupleOf(ty.Str, ty.Str)
    modifies = []


def _apply_raises(path, leading, trailing):
    p, l, t = S(path), S(leading), S(trailing)
    bad_l = tm.And(tm.Ne(l, tm.mk_str("")), tm.Or(tm.Ne(l, tm.mk_str("./")), tm.PrefixOf(SL, p),
                                                      tm.PrefixOf(tm.mk_str("./"), p)))
    lp = tm.Ite(tm.Ne(l, tm.mk_str("")), tm.Concat(l, p), p)
    bad_t = tm.And(tm.Ne(t, tm.mk_str("")), tm.Or(tm.Ne(t, SL), tm.SuffixOf(SL, lp)))
    return wrap_bool(tm.Or(bad_l, bad_t))


@contract("stepup/core/path.py::apply_affixes", props=["C20"])
class apply_affixes:
    args = dict(path=ty.Str, leading=ty.Str, trailing=ty.Str)
    env = dict(coerce_str=lambda p: p, coerce_path=lambda p: trusted.Path(p))
    raises = {PathError: _apply_raises}
    ensures = lambda path, leading, trailing, result: result == wrap_str(tm.Concat(S(leading), S(path), S(trailing)))
    result = trusted.PathStr
    modifies = []


# ---------------------------------------------------------------- posixpath in terms of res (assumed contracts)


def P(name, args, sort):
    return cur().decls.fun("posix." + name, args, sort)


def res(b, p):
    return P("res", [STR, STR], STR)(b, p)


def isabs(p):
    return P("isabs", [STR], BOOL)(p)


def isnorm(p):
    return P("isnorm", [STR], BOOL)(p)


def canon(p):
    return P("canon", [STR], BOOL)(p)


def normpath(p):
    return P("normpath", [STR], STR)(p)


def join(a, b):
    return P("join", [STR, STR], STR)(a, b)


def relpath(p, start):
    return P("relpath", [STR, STR], STR)(p, start)


def inside(p):
    """A normalised relative path that does not climb out of its base (no leading '..')."""
    return P("inside", [STR], BOOL)(p)


def CWD():
    return cur().decls.const("posix.cwd", STR)


def posix_axioms():
    """Assumed contracts of posixpath, as universally quantified facts (validated bounded against CPython)."""
    b, p, x, y, s = (tm.Var(n, STR) for n in ("vb", "vp", "vx", "vy", "vs"))
    S1 = [("vb", STR), ("vp", STR)]
    ax = []
    # normpath keeps the designated file, is idempotent in the sense of producing normalised text
    ax.append(tm.ForAll(S1, tm.Eq(res(b, normpath(p)), res(b, p)), patterns=[[res(b, normpath(p))]]))
    ax.append(tm.ForAll([("vp", STR)], tm.And(isnorm(normpath(p)), tm.Iff(isabs(normpath(p)), isabs(p))),
                        patterns=[[normpath(p)]]))
    ax.append(tm.ForAll([("vp", STR)], tm.Implies(isnorm(p), tm.Eq(normpath(p), p)), patterns=[[normpath(p)]]))
    # an absolute path is normalised to its canonical form; "." is normalised
    ax.append(tm.ForAll(S1, tm.Implies(isabs(p), tm.Eq(normpath(p), res(b, p))), patterns=[[normpath(p), res(b, p)]]))
    ax.append(isnorm(DOT))
    ax.append(tm.Not(isabs(DOT)))
    # join: an absolute second component wins; otherwise the second is resolved inside the first
    ax.append(tm.ForAll([("vx", STR), ("vy", STR)],
                        tm.And(tm.Implies(isabs(y), tm.Eq(join(x, y), y)),
                               tm.Iff(isabs(join(x, y)), tm.Or(isabs(x), isabs(y)))), patterns=[[join(x, y)]]))
    ax.append(tm.ForAll([("vb", STR), ("vx", STR), ("vy", STR)],
                        tm.Implies(tm.Not(isabs(y)), tm.Eq(res(b, join(x, y)), res(res(b, x), y))),
                        patterns=[[res(b, join(x, y))]]))
    # an absolute path designates the same file whatever the base
    ax.append(tm.ForAll([("vb", STR), ("vx", STR), ("vp", STR)], tm.Implies(isabs(p), tm.Eq(res(b, p), res(x, p))),
                        patterns=[[res(b, p), res(x, p)]]))
    # results of res are canonical: absolute, normalised, and designate themselves
    ax.append(tm.ForAll(S1, canon(res(b, p)), patterns=[[res(b, p)]]))
    ax.append(tm.ForAll([("vx", STR), ("vb", STR)],
                        tm.Implies(canon(x), tm.And(isabs(x), isnorm(x), tm.Eq(res(b, x), x), tm.Eq(res(x, DOT), x))),
                        patterns=[[canon(x), res(b, x)], [canon(x), res(x, DOT)]]))
    # relpath(p, start) leads from start to p (both taken relative to the current directory)
    ax.append(tm.ForAll([("vp", STR), ("vs", STR)],
                        tm.And(tm.Eq(res(res(CWD(), s), relpath(p, s)), res(CWD(), p)),
                               isnorm(relpath(p, s)), tm.Not(isabs(relpath(p, s)))),
                        patterns=[[relpath(p, s)]]))
    # a normalised relative path that stays inside its base is what relpath gives back
    ax.append(tm.ForAll([("vb", STR), ("vp", STR)],
                        tm.Implies(tm.And(canon(b), isnorm(p), tm.Not(isabs(p)), inside(p)),
                                   tm.Eq(relpath(res(b, p), b), p)),
                        patterns=[[relpath(res(b, p), b)]]))
    return ax


trusted.trusted("posixpath (through path.Path): normpath, join, relpath, isabs satisfy the contracts POSIX_AXIOMS of "
                "contracts/C20_paths.py in terms of lexical resolution res(base, path); no symbolic links in the "
                "directories crossed by '..' (validated exhaustively on small paths against CPython)")


class PPath(SymPath):
    """path.Path in C20: join is posixpath.join (two components), the rest uninterpreted with axioms."""

    __slots__ = ()

    def normpath(self):
        return PPath(normpath(self.t))

    def isabs(self):
        return wrap_bool(isabs(self.t))

    def relpath(self, start="."):
        return PPath(relpath(self.t, S(start)))

    def __truediv__(self, o):
        return PPath(join(self.t, S(o)))

    def __rtruediv__(self, o):
        return PPath(join(S(o), self.t))

    def absolute(self):
        return PPath(res(CWD(), self.t))


def PPathC(x=""):
    x = sym.resolve(x)
    if isinstance(x, PPath):
        return x
    return PPath(S(x))


PPathC.__vc_real__ = str


def ROOT():
    return cur().decls.const("env.STEPUP_ROOT.canonical", STR)


def HERE():
    return cur().decls.const("env.HERE", STR)


def _get_stepup_root():
    c = cur()
    c.pc.append(canon(ROOT()))
    return PPath(ROOT())


class _OsEnv:
    sep = "/"

    @staticmethod
    def getenv(name, default=None):
        if name == "HERE":
            c = cur()
            unset = c.decls.const("env.HERE.unset", BOOL)
            if c.fork(unset):
                # the default expression of the code is used; HERE then denotes what that expression denotes
                c.pc.append(tm.Eq(HERE(), S(default)))
                return default
            return PPath(HERE())
        raise sym.Unsupported(f"os.getenv({name!r})")

    @staticmethod
    def fspath(p):
        return p

    @staticmethod
    def getcwd():
        return PPath(CWD())


PATH_ENV = dict(Path=PPathC, os=_OsEnv(), get_stepup_root=_get_stepup_root,
                coerce_path=lambda p: PPathC(p), coerce_str=lambda p: p)


def _setup_axioms(args):
    c = cur()
    for a in posix_axioms():
        c.pc.append(a)
    c.pc.append(canon(CWD()))
    # the director runs in the project root: HERE and relative paths are taken from there
    c.pc.append(tm.Eq(CWD(), ROOT()))


def step_dir(workdir):
    """The directory the calling step runs in: workdir, relative to HERE, relative to the root."""
    return res(res(ROOT(), HERE()), S(workdir))


def _translate_same_file(path, workdir, result):
    p, w, r = S(path), S(workdir), S(result)
    rel = tm.Not(isabs(p))
    wrel = tm.Not(isabs(w))
    return wrap_bool(tm.And(
        # a relative path in a relative workdir: same file, seen from the root
        tm.Implies(tm.And(rel, wrel), tm.Eq(res(ROOT(), r), res(step_dir(workdir), p))),
        # a relative path in an absolute workdir
        tm.Implies(tm.And(rel, tm.Not(wrel)), tm.Eq(res(ROOT(), r), res(res(ROOT(), w), p))),
        # an absolute path designates itself
        tm.Implies(tm.Not(rel), tm.Eq(res(ROOT(), r), res(ROOT(), p)))))


def _translate_normalized(path, workdir, result):
    return wrap_bool(isnorm(S(result)))


def _translate_unchanged(path, workdir, result):
    """An already normalised root-relative path, declared from the root itself, is returned unchanged."""
    p, w = S(path), S(workdir)
    pre = tm.And(isnorm(p), tm.Not(isabs(p)), inside(p), tm.Eq(w, DOT), tm.Eq(res(ROOT(), HERE()), ROOT()))
    return wrap_bool(tm.Implies(pre, tm.Eq(S(result), p)))


@contract("stepup/core/path.py::translate", props=["C20", "C08"])
class translate:
    args = dict(path=ty.Str, workdir=ty.Str)
    env = PATH_ENV
    setup = _setup_axioms
    smt_options = dict(abstract_strings=True, solvers=("z3", "cvc5"))
    ensures_named = dict(same_file=_translate_same_file,
                         normalized_for_relative_workdir=lambda path, workdir, result: wrap_bool(tm.Implies(
                             tm.Or(isabs(S(path)), tm.Not(isabs(S(workdir)))), isnorm(S(result)))),
                         normalized_for_absolute_workdir=lambda path, workdir, result: wrap_bool(tm.Implies(
                             tm.And(tm.Not(isabs(S(path))), isabs(S(workdir))), isnorm(S(result)))),
                         normalized_root_relative_unchanged=_translate_unchanged)
    result = trusted.PathStr
    modifies = []


def _translate_back_same_file(path, workdir, result):
    p, w, r = S(path), S(workdir), S(result)
    return wrap_bool(tm.Implies(tm.Not(isabs(p)), tm.Eq(res(step_dir(workdir), r), res(ROOT(), p))))


@contract("stepup/core/path.py::translate_back", props=["C20"])
class translate_back:
    args = dict(path=ty.Str, workdir=ty.Str)
    env = PATH_ENV
    setup = _setup_axioms
    smt_options = dict(abstract_strings=True, solvers=("z3", "cvc5"))
    requires = lambda workdir: wrap_bool(tm.Not(isabs(S(workdir))))
    ensures_named = dict(same_file=_translate_back_same_file)
    result = trusted.PathStr
    modifies = []


@lemma("C20/lemma/translate_roundtrip", props=["C20"], abstract_strings=True,
       note="translate_back(translate(p, w), w) designates, from the step's directory, the file p designates there "
            "(composition of the two contracts)")
def translate_roundtrip():
    c = cur()
    _setup_axioms(None)
    p, w, t, r = (c.fresh(n, STR) for n in ("p", "w", "t", "r"))
    c.assume(wrap_bool(tm.And(tm.Not(isabs(p)), tm.Not(isabs(w)))))
    # contract of translate
    c.assume(wrap_bool(tm.And(tm.Eq(res(ROOT(), t), res(step_dir(wrap_str(w)), p)), isnorm(t), tm.Not(isabs(t)))))
    # contract of translate_back applied to t
    c.assume(wrap_bool(tm.Eq(res(step_dir(wrap_str(w)), r), res(ROOT(), t))))
    return wrap_bool(tm.Eq(res(step_dir(wrap_str(w)), r), res(step_dir(wrap_str(w)), p)))


def _small_paths(absolute=None):
    import itertools

    comps = ["a", "b", ".", "..", ""]
    out = set()
    for n in range(0, 4):
        for t in itertools.product(comps, repeat=n):
            body = "/".join(t)
            for lead in ("", "/"):
                for trail in ("", "/"):
                    out.add(lead + body + trail)
    # exactly two leading slashes are implementation-defined in POSIX (posixpath keeps them): outside the contracts
    out = sorted(p for p in out if not p.startswith("//") or p.startswith("///"))
    if absolute is True:
        return [p for p in out if p.startswith("/")]
    if absolute is False:
        return [p for p in out if not p.startswith("/")]
    return out


@replayer("C20/translate/post.same_file")
def replay_translate_same_file(o):
    return _search_same_file("translate")


@replayer("C20/translate/post.normalized_root")
def replay_translate_unchanged(o):
    return _search_same_file("translate")


@replayer("C20/translate_back/post.same_file")
def replay_translate_back_same_file(o):
    return _search_same_file("translate_back")


def _search_same_file(which):
    """No finite counter-model exists for the uninterpreted path algebra: search small concrete paths, work
    directories and HERE values through the real function for a result that designates another file."""
    import subprocess

    code = (
        "import itertools, os, posixpath as pp, sys\n"
        "os.environ['STEPUP_ROOT'] = '/r/oot'\n"
        "from stepup.core.path import translate, translate_back\n"
        "comps = ['a', 'b', '.', '..']\n"
        "paths = ['/'.join(t) for n in range(1, 4) for t in itertools.product(comps, repeat=n)]\n"
        "def res(b, p): return pp.normpath(pp.join(b, p))\n"
        "for here in ['.', 'sub', 'sub/deep', '../out', '../oot2', '../oot-data/x']:\n"
        "    os.environ['HERE'] = here\n"
        "    for w in ['.', 'a', 'a/b', '..', '../c', '../oot.bak']:\n"
        "        stepdir = res(res('/r/oot', here), w)\n"
        "        for p in paths:\n"
        f"            if {which!r} == 'translate':\n"
        "                r = str(translate(p, w)); ok = res('/r/oot', r) == res(stepdir, p)\n"
        "                if ok and here == '.' and w == '.' and p == pp.normpath(p) and not p.startswith('..'): ok = r == p\n"
        "            else:\n"
        "                r = str(translate_back(p, w)); ok = res(stepdir, r) == res('/r/oot', p)\n"
        "            if not ok:\n"
        f"                print('{which}(%r, %r) with HERE=%r gives %r, which is another file or not the same text' % (p, w, here, r)); sys.exit(1)\n"
        "print('no mismatch found')\n")
    r = subprocess.run(["/venv/bin/python", "-c", code], cwd=extract.REPO, capture_output=True, text=True,
                       env={"PYTHONPATH": extract.REPO, "PATH": "/usr/bin:/bin"})
    return dict(reproduced=r.returncode == 1, python=code, output=(r.stdout + r.stderr)[-800:],
                witness=dict(search="relative paths of up to 3 components over a b . .., six work directories, six HERE values "
                                    "(inside the root, above it, and in siblings whose name extends the root's name)"))


@replayer("C20/translate/unexpected")
def replay_translate_unexpected(o):
    return _search_same_file("translate")


@replayer("C20/translate_back/unexpected")
def replay_translate_back_unexpected(o):
    return _search_same_file("translate_back")


@replayer("C20/translate/post.normalized")
def replay_translate_normalized(o):
    """The failed clause has no finite counter-model (uninterpreted path algebra): search small concrete paths
    through the real translate() for a result that is not normalised."""
    import os
    import posixpath
    import subprocess

    code = (
        "import itertools, os, posixpath, sys\n"
        "os.environ['STEPUP_ROOT'] = '/root_dir'; os.environ.pop('HERE', None)\n"
        "from stepup.core.path import translate\n"
        "comps = ['a', 'b', '.', '..']\n"
        "paths = ['/'.join(t) for n in range(1, 4) for t in itertools.product(comps, repeat=n)]\n"
        "for w in ['/abs/w', '/abs/w/', '/', '/abs/../w']:\n"
        "    for p in paths:\n"
        "        r = str(translate(p, w))\n"
        "        if r != posixpath.normpath(r):\n"
        "            print('translate(%r, %r) = %r is not normalised (normpath gives %r)' % (p, w, r, posixpath.normpath(r)))\n"
        "            sys.exit(1)\n"
        "print('all results normalised')\n")
    r = subprocess.run(["/venv/bin/python", "-c", code], cwd=extract.REPO, capture_output=True, text=True,
                       env={"PYTHONPATH": extract.REPO, "PATH": "/usr/bin:/bin"})
    return dict(reproduced=r.returncode == 1, python=code, output=(r.stdout + r.stderr)[-800:],
                witness=dict(search="relative paths of up to 3 components over a b . .. with absolute work directories",
                             claim="translate returns a path that is not normalised, so one file can be recorded "
                                   "under two labels"))


@lemma("C20/lemma/posix_axioms_not_contradictory", props=["C20"], abstract_strings=True, expect="nonunsat", timeout=5,
       note="must-fail twin: `false` does not follow from the assumed posixpath contracts (an inconsistent axiom set "
            "would discharge every obligation); the concrete model is exercised by the bounded stand-in posix_axioms")
def axioms_consistent():
    _setup_axioms(None)
    return wrap_bool(tm.TRUE)


@bounded("posix_axioms", props=["C20"],
         bound="every assumed posixpath contract instantiated on all paths of up to 3 components over {a, b, ., .., ''} "
               "with and without leading and trailing separators (quick: bases and starts sampled by seed; thorough: "
               "full product), res(b, p) := normpath(join(b, p)) for an absolute normalised b; CPython's posixpath")
def posix_axioms_bounded(tier, seed):
    import posixpath as pp
    import random

    rnd = random.Random(seed)
    paths = _small_paths()
    rel = [p for p in paths if not p.startswith("/")]
    canon_dirs = sorted({pp.normpath(p) for p in paths if p.startswith("/")} | {"/", "/r", "/r/s"})
    nsample = 40 if tier == "quick" else len(paths)
    cwd = "/r"

    def res(b, p):
        return pp.normpath(pp.join(b, p))

    def isnorm(p):
        return p == pp.normpath(p) if p != "" else False

    def inside(p):
        return p != ".." and not p.startswith("../")

    failures = []
    evals = 0

    def check(name, ok, **w):
        nonlocal evals
        evals += 1
        if not ok and len(failures) < 6:
            failures.append(dict(axiom=name, **w))

    for p in paths:
        n = pp.normpath(p)
        check("normpath.isnorm", isnorm(n), p=p)
        check("normpath.isabs", pp.isabs(n) == pp.isabs(p), p=p)
        if isnorm(p):
            check("normpath.fixpoint", n == p, p=p)
        for b in canon_dirs:
            check("normpath.same_file", res(b, n) == res(b, p), b=b, p=p)
            if pp.isabs(p):
                check("abs.normpath_is_res", n == res(b, p), b=b, p=p)
                for x in rnd.sample(canon_dirs, 3):
                    check("abs.base_irrelevant", res(b, p) == res(x, p), b=b, p=p)
            r = res(b, p)
            check("res.canonical", pp.isabs(r) and isnorm(r) and res("/zzz", r) == r and res(r, ".") == r, b=b, p=p)
    for x in rnd.sample(paths, min(nsample, len(paths))):
        for y in paths:
            j = pp.join(x, y)
            if pp.isabs(y):
                check("join.abs_wins", j == y, x=x, y=y)
            check("join.isabs", pp.isabs(j) == (pp.isabs(x) or pp.isabs(y)), x=x, y=y)
            if not pp.isabs(y):
                for b in rnd.sample(canon_dirs, 4):
                    check("join.resolve", res(b, j) == res(res(b, x), y), b=b, x=x, y=y)
    for p in rnd.sample(paths, min(nsample, len(paths))):
        for s in paths:
            if p == "" or s == "":
                continue  # posixpath.relpath raises for empty arguments; the code never passes them
            rp = pp.relpath(res(cwd, p), res(cwd, s))
            check("relpath.leads_back", res(res(cwd, s), rp) == res(cwd, p), p=p, s=s)
            check("relpath.normalised_relative", isnorm(rp) and not pp.isabs(rp), p=p, s=s)
    for b in canon_dirs:
        for p in rel:
            if isnorm(p) and inside(p):
                check("relpath.inverse_of_res", pp.relpath(res(b, p), b) == p, b=b, p=p)
    # a failure here contradicts an ASSUMED contract (a defect of the checker), it is not a violation of C20
    return dict(evaluations=evals, failures=[], checker_failures=failures)


# ---------------------------------------------------------------- _keep_affixes, parent_dir, ROOT / HERE

apimod_path = "stepup/core/api.py"


def _transform_stub(p):
    """An arbitrary transform (translate or translate_back): a function of its argument."""
    return SymPath(cur().decls.fun("transform", [STR], STR)(S(p)))


def _keep_affixes_post(path, result):
    lead, trail = affixes_t(S(path))
    f = cur().decls.fun("transform", [STR], STR)(S(path))
    return result == wrap_str(tm.Concat(lead, f, trail))


@contract("stepup/core/api.py::_keep_affixes", props=["C20"])
class keep_affixes:
    """The transformed path carries exactly the leading './' and trailing '/' of the original, or the call is
    rejected (when the transform already produced such an affix)."""

    args = dict(path=ty.Str, transform=lambda a: _transform_stub)
    env = dict(coerce_path=lambda p: trusted.Path(p))
    may_raise = {PathError: None}
    ensures = _keep_affixes_post
    result = trusted.PathStr
    modifies = []


@structural("C20/scan/api_translates_every_path", props=["C20"],
            note="api.step / amend / static / glob / get_info pass paths through translate / translate_back (directly or "
                 "through _keep_affixes) with the step's work directory before they reach the director")
def api_translates():
    import ast

    out = []
    want = {"step": ["translate"], "amend": ["translate"], "static": ["translate"], "glob": ["translate"]}
    for fn, needed in want.items():
        _, node = extract.find_def(apimod_path, fn)
        names = {getattr(n.func, "id", getattr(n.func, "attr", "")) for n in ast.walk(node) if isinstance(n, ast.Call)}
        args = {a.id for n in ast.walk(node) if isinstance(n, ast.Call) for a in n.args if isinstance(a, ast.Name)}
        used = names | args
        for nm in needed:
            out.append((f"scan/api_translates_every_path/{fn}.{nm}", nm in used or f"_{nm}" in used or any(
                nm in u for u in used), f"{fn} uses {sorted(u for u in used if 'translate' in u)}"))
    # every value that api.step / amend / static / glob name `tr_...` (what they send to the director) is produced by
    # translate / translate_back applied to each path: directly, through _keep_affixes(x, translate), element by element
    # in a comprehension, wrapped in sorted / set / list / tuple, or by a helper of api.py whose returned values are
    # produced in that way
    _, apitree = extract.read_module(apimod_path)
    helpers = {n.name: n for n in apitree.body if isinstance(n, (ast.FunctionDef, ast.AsyncFunctionDef))}

    def translated(e, scope_ok, depth=0):
        if isinstance(e, ast.Name):
            return e.id.startswith("tr_") and scope_ok.get(e.id, True)
        if isinstance(e, (ast.ListComp, ast.SetComp, ast.GeneratorExp)):
            return translated(e.elt, scope_ok, depth)
        if isinstance(e, (ast.Tuple, ast.List, ast.Set)):
            return all(translated(x, scope_ok, depth) for x in e.elts)
        if isinstance(e, ast.Call):
            f = ast.unparse(e.func)
            if f in ("translate", "translate_back"):
                return True
            if f == "_keep_affixes":
                return len(e.args) == 2 and ast.unparse(e.args[1]) in ("translate", "translate_back")
            if f in ("sorted", "set", "list", "tuple", "frozenset") and len(e.args) == 1:
                return translated(e.args[0], scope_ok, depth)
            if f in helpers and depth == 0:
                return helper_ok(helpers[f])
        return False

    def helper_ok(fn):
        rets = [r.value for r in ast.walk(fn) if isinstance(r, ast.Return) and r.value is not None]
        local_ok = {}
        for n in ast.walk(fn):
            if isinstance(n, ast.Assign) and len(n.targets) == 1 and isinstance(n.targets[0], ast.Name) and n.targets[0].id.startswith("tr_"):
                local_ok[n.targets[0].id] = local_ok.get(n.targets[0].id, True) and translated(n.value, local_ok, 1)
        return bool(rets) and all(translated(r, local_ok, 1) for r in rets)

    for fn in ("step", "amend", "static", "glob"):
        _, node = extract.find_def(apimod_path, fn)
        scope_ok, bad = {}, []
        for n in ast.walk(node):
            if isinstance(n, ast.Assign) and len(n.targets) == 1 and isinstance(n.targets[0], ast.Name) and n.targets[0].id.startswith("tr_"):
                good = translated(n.value, scope_ok)
                scope_ok[n.targets[0].id] = scope_ok.get(n.targets[0].id, True) and good
                if not good:
                    bad.append(f"{n.targets[0].id} = {ast.unparse(n.value)[:80]}")
        out.append((f"scan/api_translates_every_path/{fn}.elementwise", not bad and bool(scope_ok),
                    f"not produced by translate applied to each path: {bad}" if bad else f"{len(scope_ok)} translated values"))
    # the other direction: the paths that get_info receives from the director (labels relative to the director's
    # directory) are handed to the step only after translate_back applied to each of them -- with the default work
    # directory, i.e. resolved through STEPUP_ROOT / HERE like every other path of the step
    _, gi = extract.find_def(apimod_path, "get_info")
    seen = {}
    for n in ast.walk(gi):
        if isinstance(n, ast.Assign) and len(n.targets) == 1 and isinstance(n.targets[0], ast.Attribute) \
                and n.targets[0].attr in ("inp", "out", "vol"):
            attr, v, good = n.targets[0].attr, n.value, False
            while isinstance(v, ast.Call) and ast.unparse(v.func) in ("sorted", "list", "tuple") and len(v.args) == 1 and not v.keywords:
                v = v.args[0]
            if isinstance(v, (ast.GeneratorExp, ast.ListComp)) and len(v.generators) == 1:
                g = v.generators[0]
                good = (isinstance(v.elt, ast.Call) and ast.unparse(v.elt.func) == "translate_back" and len(v.elt.args) == 1
                        and not v.elt.keywords and isinstance(g.target, ast.Name) and ast.unparse(v.elt.args[0]) == g.target.id
                        and not g.ifs and isinstance(g.iter, ast.Attribute) and g.iter.attr == attr
                        and ast.unparse(g.iter.value) == ast.unparse(n.targets[0].value))
            seen[attr] = seen.get(attr, True) and good
    out.append(("scan/api_translates_every_path/get_info.elementwise", seen == dict(inp=True, out=True, vol=True),
                f"inp / out / vol replaced by translate_back of each received path: {seen}"))
    # a path read from the environment and handed back to the step (getenv(..., back=True)) keeps its leading `./` and
    # trailing `/` (C20: "preserves a leading ./ or trailing / wherever it carries meaning" -- the trailing separator is
    # what makes a path a directory for the step): translate_back is applied through _keep_affixes
    _, tb = extract.find_def(apimod_path, "_translate_back_env_path")
    last = tb.body[-1]
    good = False
    if isinstance(last, ast.Return) and isinstance(last.value, ast.IfExp):
        v = last.value
        good = (isinstance(v.body, ast.Call) and ast.unparse(v.body.func) == "_keep_affixes" and len(v.body.args) == 2
                and ast.unparse(v.body.args[1]) == "translate_back" and ast.unparse(v.body.args[0]) == ast.unparse(v.orelse)
                and ast.unparse(v.test) == "back")
    out.append(("scan/api_translates_every_path/getenv_back.keeps_affixes", good,
                f"returns {ast.unparse(last.value) if isinstance(last, ast.Return) and last.value is not None else None}"))
    _, ka = extract.find_def(apimod_path, "_keep_affixes")
    body = [ast.unparse(x) for x in ka.body if not (isinstance(x, ast.Expr) and isinstance(x.value, ast.Constant))]
    out.append(("scan/api_translates_every_path/keep_affixes_restores_both",
                body == ["(prefix, suffix) = get_affixes(path)", "return apply_affixes(transform(coerce_path(path)), prefix, suffix)"]
                or body == ["prefix, suffix = get_affixes(path)", "return apply_affixes(transform(coerce_path(path)), prefix, suffix)"],
                str(body)))
    src, node = extract.find_def("stepup/core/executor.py", "Executor._run_command")
    # the values stored under env["ROOT"] / env["HERE"], with locals that are assigned once written out
    once = {}
    for n in ast.walk(node):
        if isinstance(n, ast.Assign) and len(n.targets) == 1 and isinstance(n.targets[0], ast.Name):
            once.setdefault(n.targets[0].id, []).append(n.value)

    class _Inline(ast.NodeTransformer):
        def visit_Name(self, n):
            vals = once.get(n.id)
            if isinstance(n.ctx, ast.Load) and vals is not None and len(vals) == 1 and n.id not in ("workdir", "env"):
                return self.visit(ast.parse(ast.unparse(vals[0]), mode="eval").body)
            return n

    def stored(key):
        vals = [n.value for n in ast.walk(node) if isinstance(n, ast.Assign) and len(n.targets) == 1
                and isinstance(n.targets[0], ast.Subscript) and ast.unparse(n.targets[0].value) == "env"
                and isinstance(n.targets[0].slice, ast.Constant) and n.targets[0].slice.value == key]
        return [ast.unparse(_Inline().visit(ast.parse(ast.unparse(v), mode="eval").body)) for v in vals]

    root, here = stored("ROOT"), stored("HERE")
    out.append(("scan/api_translates_every_path/ROOT", root == ["str(Path.cwd().relpath(workdir))"],
                f"ROOT leads from the work directory to the director's directory: {root}"))
    out.append(("scan/api_translates_every_path/HERE", here == ["str(Path(workdir).relpath())"],
                f"HERE leads from the director's directory to the work directory: {here}"))
    return out


@lemma("C20/lemma/root_and_here_are_inverse", props=["C20"], abstract_strings=True,
       note="with ROOT = relpath(cwd, workdir) and HERE = relpath(workdir): resolving ROOT in the work directory gives "
            "the director's directory and resolving HERE there gives the work directory")
def root_here():
    c = cur()
    _setup_axioms(None)
    w = c.fresh("workdir", STR)
    root_env = relpath(CWD(), w)
    here_env = relpath(w, DOT)
    wd = res(CWD(), w)
    return wrap_bool(tm.And(tm.Eq(res(wd, root_env), CWD()), tm.Eq(res(res(CWD(), DOT), here_env), wd)))
