"""C20: a path means the same file to a step and to the director.

Spec: res(b, p) is the canonical absolute path that `p` designates when interpreted in directory `b`
(lexical resolution, no symbolic links).  posixpath.normpath / join / relpath / isabs are used by the code
through `path.Path`; their contracts in terms of res are ASSUMED (POSIX_AXIOMS below) and validated
exhaustively on small paths against CPython by the bounded stand-in `posix_axioms`.
"""

from __future__ import annotations

from contracts import common, trusted
from contracts.trusted import SymPath
from vc import engine, extract, sym
from vc import terms as tm
from vc import types as ty
from vc.engine import contract
from vc.report import bounded, lemma, replayer, structural
from vc.sym import B, S, SymStr, cur, wrap_bool, wrap_str
from vc.terms import BOOL, INT, STR

pathmod = extract.import_module("stepup/core/path.py")
PathError = common.excmod.PathError
SL = tm.mk_str("/")
DOT = tm.mk_str(".")


# ---------------------------------------------------------------- affixes (plain string reasoning)


def affixes_t(p: tm.T):
    trailing = tm.Ite(tm.SuffixOf(SL, p), SL, tm.mk_str(""))
    core = tm.Ite(tm.SuffixOf(SL, p), tm.Substr(p, tm.mk_int(0), tm.Sub(tm.Len(p), tm.mk_int(1))), p)
    leading = tm.Ite(tm.PrefixOf(tm.mk_str("./"), core), tm.mk_str("./"), tm.mk_str(""))
    return leading, trailing


@contract("stepup/core/path.py::get_affixes", props=["C20"])
class get_affixes:
    args = dict(path=ty.Str)
    env = dict(coerce_str=lambda p: p)
    ensures = lambda path, result: (result[0] == wrap_str(affixes_t(S(path))[0])) & (result[1] == wrap_str(affixes_t(S(path))[1]))
    result = ty.TupleOf(ty.Str, ty.Str)
    modifies = []


def _apply_raises(path, leading, trailing):
    p, l, t = S(path), S(leading), S(trailing)
    bad_l = tm.And(tm.Ne(l, tm.mk_str("")), tm.Or(tm.Ne(l, tm.mk_str("./")), tm.PrefixOf(SL, p),
                                                      tm.PrefixOf(tm.mk_str("./"), p)))
    lp = tm.Ite(tm.Ne(l, tm.mk_str("")), tm.Concat(l, p), p)
    bad_t = tm.And(tm.Ne(t, tm.mk_str("")), tm.Or(tm.Ne(t, SL), tm.SuffixOf(SL, lp)))
    return wrap_bool(tm.Or(bad_l, bad_t))


@contract("stepup/core/path.py::apply_affixes", props=["C20"])
class apply_affixes:
    args = dict(path=ty.Str, leading=ty.Str, trailing=ty.Str)
    env = dict(coerce_str=lambda p: p, coerce_path=lambda p: trusted.Path(p))
    raises = {PathError: _apply_raises}
    ensures = lambda path, leading, trailing, result: result == wrap_str(tm.Concat(S(leading), S(path), S(trailing)))
    result = trusted.PathStr
    modifies = []


# ---------------------------------------------------------------- posixpath in terms of res (assumed contracts)


def P(name, args, sort):
    return cur().decls.fun("posix." + name, args, sort)


def res(b, p):
    return P("res", [STR, STR], STR)(b, p)


def isabs(p):
    return P("isabs", [STR], BOOL)(p)


def isnorm(p):
    return P("isnorm", [STR], BOOL)(p)


def canon(p):
    return P("canon", [STR], BOOL)(p)


def normpath(p):
    return P("normpath", [STR], STR)(p)


def join(a, b):
    return P("join", [STR, STR], STR)(a, b)


def relpath(p, start):
    return P("relpath", [STR, STR], STR)(p, start)


def inside(p):
    """A normalised relative path that does not climb out of its base (no leading '..')."""
    return P("inside", [STR], BOOL)(p)


def CWD():
    return cur().decls.const("posix.cwd", STR)


def posix_axioms():
    """Assumed contracts of posixpath, as universally quantified facts (validated bounded against CPython)."""
    b, p, x, y, s = (tm.Var(n, STR) for n in ("vb", "vp", "vx", "vy", "vs"))
    S1 = [("vb", STR), ("vp", STR)]
    ax = []
    # normpath keeps the designated file, is idempotent in the sense of producing normalised text
    ax.append(tm.ForAll(S1, tm.Eq(res(b, normpath(p)), res(b, p)), patterns=[[res(b, normpath(p))]]))
    ax.append(tm.ForAll([("vp", STR)], tm.And(isnorm(normpath(p)), tm.Iff(isabs(normpath(p)), isabs(p))),
                        patterns=[[normpath(p)]]))
    ax.append(tm.ForAll([("vp", STR)], tm.Implies(isnorm(p), tm.Eq(normpath(p), p)), patterns=[[normpath(p)]]))
    # join: an absolute second component wins; otherwise the second is resolved inside the first
    ax.append(tm.ForAll([("vx", STR), ("vy", STR)],
                        tm.And(tm.Implies(isabs(y), tm.Eq(join(x, y), y)),
                               tm.Iff(isabs(join(x, y)), tm.Or(isabs(x), isabs(y)))), patterns=[[join(x, y)]]))
    ax.append(tm.ForAll([("vb", STR), ("vx", STR), ("vy", STR)],
                        tm.Implies(tm.Not(isabs(y)), tm.Eq(res(b, join(x, y)), res(res(b, x), y))),
                        patterns=[[res(b, join(x, y))]]))
    # an absolute path designates the same file whatever the base
    ax.append(tm.ForAll([("vb", STR), ("vx", STR), ("vp", STR)], tm.Implies(isabs(p), tm.Eq(res(b, p), res(x, p))),
                        patterns=[[res(b, p), res(x, p)]]))
    # results of res are canonical: absolute, normalised, and designate themselves
    ax.append(tm.ForAll(S1, canon(res(b, p)), patterns=[[res(b, p)]]))
    ax.append(tm.ForAll([("vx", STR), ("vb", STR)],
                        tm.Implies(canon(x), tm.And(isabs(x), isnorm(x), tm.Eq(res(b, x), x), tm.Eq(res(x, DOT), x))),
                        patterns=[[canon(x), res(b, x)], [canon(x), res(x, DOT)]]))
    # relpath(p, start) leads from start to p (both taken relative to the current directory)
    ax.append(tm.ForAll([("vp", STR), ("vs", STR)],
                        tm.And(tm.Eq(res(res(CWD(), s), relpath(p, s)), res(CWD(), p)),
                               isnorm(relpath(p, s)), tm.Not(isabs(relpath(p, s)))),
                        patterns=[[relpath(p, s)]]))
    # a normalised relative path that stays inside its base is what relpath gives back
    ax.append(tm.ForAll([("vb", STR), ("vp", STR)],
                        tm.Implies(tm.And(canon(b), isnorm(p), tm.Not(isabs(p)), inside(p)),
                                   tm.Eq(relpath(res(b, p), b), p)),
                        patterns=[[relpath(res(b, p), b)]]))
    return ax


trusted.trusted("posixpath (through path.Path): normpath, join, relpath, isabs satisfy the contracts POSIX_AXIOMS of "
                "contracts/C20_paths.py in terms of lexical resolution res(base, path); no symbolic links in the "
                "directories crossed by '..' (validated exhaustively on small paths against CPython)")


class PPath(SymPath):
    """path.Path in C20: join is posixpath.join (two components), the rest uninterpreted with axioms."""

    __slots__ = ()

    def normpath(self):
        return PPath(normpath(self.t))

    def isabs(self):
        return wrap_bool(isabs(self.t))

    def relpath(self, start="."):
        return PPath(relpath(self.t, S(start)))

    def __truediv__(self, o):
        return PPath(join(self.t, S(o)))

    def __rtruediv__(self, o):
        return PPath(join(S(o), self.t))

    def absolute(self):
        return PPath(res(CWD(), self.t))


def PPathC(x=""):
    x = sym.resolve(x)
    if isinstance(x, PPath):
        return x
    return PPath(S(x))


PPathC.__vc_real__ = str


def ROOT():
    return cur().decls.const("env.STEPUP_ROOT.canonical", STR)


def HERE():
    return cur().decls.const("env.HERE", STR)


def _get_stepup_root():
    c = cur()
    c.pc.append(canon(ROOT()))
    return PPath(ROOT())


class _OsEnv:
    sep = "/"

    @staticmethod
    def getenv(name, default=None):
        if name == "HERE":
            c = cur()
            unset = c.decls.const("env.HERE.unset", BOOL)
            if c.fork(unset):
                # the default expression of the code is used; HERE then denotes what that expression denotes
                c.pc.append(tm.Eq(HERE(), S(default)))
                return default
            return PPath(HERE())
        raise sym.Unsupported(f"os.getenv({name!r})")

    @staticmethod
    def fspath(p):
        return p

    @staticmethod
    def getcwd():
        return PPath(CWD())


PATH_ENV = dict(Path=PPathC, os=_OsEnv(), get_stepup_root=_get_stepup_root,
                coerce_path=lambda p: PPathC(p), coerce_str=lambda p: p)


def _setup_axioms(args):
    c = cur()
    for a in posix_axioms():
        c.pc.append(a)
    c.pc.append(canon(CWD()))
    # the director runs in the project root: HERE and relative paths are taken from there
    c.pc.append(tm.Eq(CWD(), ROOT()))


def step_dir(workdir):
    """The directory the calling step runs in: workdir, relative to HERE, relative to the root."""
    return res(res(ROOT(), HERE()), S(workdir))


def _translate_same_file(path, workdir, result):
    p, w, r = S(path), S(workdir), S(result)
    rel = tm.Not(isabs(p))
    wrel = tm.Not(isabs(w))
    return wrap_bool(tm.And(
        # a relative path in a relative workdir: same file, seen from the root
        tm.Implies(tm.And(rel, wrel), tm.Eq(res(ROOT(), r), res(step_dir(workdir), p))),
        # a relative path in an absolute workdir
        tm.Implies(tm.And(rel, tm.Not(wrel)), tm.Eq(res(ROOT(), r), res(res(ROOT(), w), p))),
        # an absolute path designates itself
        tm.Implies(tm.Not(rel), tm.Eq(res(ROOT(), r), res(ROOT(), p)))))


def _translate_normalized(path, workdir, result):
    return wrap_bool(isnorm(S(result)))


def _translate_unchanged(path, workdir, result):
    """An already normalised root-relative path, declared from the root itself, is returned unchanged."""
    p, w = S(path), S(workdir)
    pre = tm.And(isnorm(p), tm.Not(isabs(p)), inside(p), tm.Eq(w, DOT), tm.Eq(res(ROOT(), HERE()), ROOT()))
    return wrap_bool(tm.Implies(pre, tm.Eq(S(result), p)))


@contract("stepup/core/path.py::translate", props=["C20"])
class translate:
    args = dict(path=ty.Str, workdir=ty.Str)
    env = PATH_ENV
    setup = _setup_axioms
    smt_options = dict(abstract_strings=True, solvers=("z3", "cvc5"))
    ensures_named = dict(same_file=_translate_same_file, normalized=_translate_normalized,
                         normalized_root_relative_unchanged=_translate_unchanged)
    result = trusted.PathStr
    modifies = []


def _translate_back_same_file(path, workdir, result):
    p, w, r = S(path), S(workdir), S(result)
    return wrap_bool(tm.Implies(tm.Not(isabs(p)), tm.Eq(res(step_dir(workdir), r), res(ROOT(), p))))


@contract("stepup/core/path.py::translate_back", props=["C20"])
class translate_back:
    args = dict(path=ty.Str, workdir=ty.Str)
    env = PATH_ENV
    setup = _setup_axioms
    smt_options = dict(abstract_strings=True, solvers=("z3", "cvc5"))
    requires = lambda workdir: wrap_bool(tm.Not(isabs(S(workdir))))
    ensures_named = dict(same_file=_translate_back_same_file)
    result = trusted.PathStr
    modifies = []


@lemma("C20/lemma/translate_roundtrip", props=["C20"], abstract_strings=True,
       note="translate_back(translate(p, w), w) designates, from the step's directory, the file p designates there "
            "(composition of the two contracts)")
def translate_roundtrip():
    c = cur()
    _setup_axioms(None)
    p, w, t, r = (c.fresh(n, STR) for n in ("p", "w", "t", "r"))
    c.assume(wrap_bool(tm.And(tm.Not(isabs(p)), tm.Not(isabs(w)))))
    # contract of translate
    c.assume(wrap_bool(tm.And(tm.Eq(res(ROOT(), t), res(step_dir(wrap_str(w)), p)), isnorm(t), tm.Not(isabs(t)))))
    # contract of translate_back applied to t
    c.assume(wrap_bool(tm.Eq(res(step_dir(wrap_str(w)), r), res(ROOT(), t))))
    return wrap_bool(tm.Eq(res(step_dir(wrap_str(w)), r), res(step_dir(wrap_str(w)), p)))
