"""Small writers that other contracts use through stand-ins, verified on their own bodies (C09, C03, C05, C10).

The job functions, the completion and the recycling contracts see `Step.set_state`, `Step.set_hash`, `Step.delete_hash`,
`Executor._reset_step_to_pending` and `Executor._finalize_failed_run` as events.  Here the functions behind those events
are verified: each setter is one statement on the step's own row with the values it was given; the two executor helpers
do what the callers' contracts take them to do, inside one transaction."""

from __future__ import annotations

from contracts import C03_inputs, C03_rerun, C10_dispatch, common  # noqa: F401  (declare the stand-ins upgraded here)
from contracts.C03_inputs import _StepStub, _in_one_span, _job_executor
from contracts.common import StepState
from vc import engine, sqlfront
from vc import terms as tm
from vc import types as ty
from vc.sym import B, I, S, cur

STEP = "stepup/core/step.py::Step."
EXEC = "stepup/core/executor.py::Executor."


def _single_statement(sql, wanted):
    """finish: exactly one statement, this text (match_key), these argument terms (as (kind, term) with kind in I/S/B)."""

    def finish(c, outcome, args, old):
        if outcome[0] != "return":
            return
        st = [e for e in c.trace if e.kind in ("sql", "sql.many")]
        ok = len(st) == 1 and st[0].kind == "sql" and sqlfront.match_key(st[0].sql) == sqlfront.match_key(sql) \
            and isinstance(st[0].args, tuple)
        want = wanted(args) if ok else []
        ok = ok and len(st[0].args) == len(want)
        conv = dict(I=I, S=S, B=B)
        eqs = [tm.Eq(conv[k](a), conv[k](w)) if k != "B" else tm.Iff(B(a), B(w)) for a, (k, w) in zip(st[0].args, want)] if ok else []
        c.prove("one_statement_on_its_own_row_with_the_given_values", tm.And(tm.mk_bool(ok), *eqs), kind="sql",
                detail=str([(e.kind, e.sql) for e in st]))

    return finish


def _upgrade(key, props, **fields):
    con = engine.REGISTRY[key]
    con.verify = True
    con.props = props
    con.note = ""
    for k, v in fields.items():
        setattr(con, k, v)
    return con


class _HashStub:
    def __init__(self, name):
        self.json = ty.Str.fresh(name + ".json")

    def to_json(self):
        return self.json


_upgrade(STEP + "set_state", ["C09", "C10", "C05", "C03"],
         args=dict(self=C03_rerun._self, state=ty.EnumOf(StepState), deferred=ty.Bool),
         finish=_single_statement("UPDATE step SET state = ?, deferred = ? WHERE node = ?",
                                  lambda a: [("I", a["state"]), ("B", a["deferred"]), ("I", a["self"].i)]))
_upgrade(STEP + "set_hash", ["C09", "C10", "C05", "C03"],
         args=dict(self=C03_rerun._self, step_hash=ty.Make(_HashStub)),
         finish=_single_statement("INSERT OR REPLACE INTO step_hash VALUES (?, ?)",
                                  lambda a: [("I", a["self"].i), ("S", a["step_hash"].json)]))
_upgrade(STEP + "delete_hash", ["C09", "C10", "C05", "C03"],
         args=dict(self=C03_rerun._self),
         finish=_single_statement("DELETE FROM step_hash WHERE node = ?", lambda a: [("I", a["self"].i)]))


# ---------------------------------------------------------------- the executor helpers


class _RStep(_StepStub):
    """The step as the helpers use it (events with the object they were applied to)."""

    def reset_for_rerun(self):
        cur().event("reset_for_rerun", step=self)

    def delete_hash(self):
        cur().event("delete_hash", step=self)

    def set_state(self, s, deferred=False):
        cur().event("set_state", step=self, state=s, deferred=deferred)

    def mark_completed(self, new_hash, wants_defer):
        cur().event("mark_completed", step=self, hash=new_hash, wants_defer=wants_defer)
        return False


def _rtp_finish(c, outcome, args, old):
    """Withdraw what the last run added, forget the hash, PENDING -- the three together, in one transaction, on the
    step given (a step that is sent back with its old hash would be skipped; one that keeps its additions would
    collide with its own re-declarations)."""
    if outcome[0] != "return":
        return
    t = c.trace
    step = args["step"]
    ev = {k: [e for e in t if e.kind == k] for k in ("reset_for_rerun", "delete_hash", "set_state")}
    ok = all(len(v) == 1 and v[0].step is step for v in ev.values())
    c.prove("reset_forget_pending_once_each_on_this_step", tm.mk_bool(ok), kind="post")
    if ok:
        c.prove("in_one_transaction", tm.mk_bool(_in_one_span(t, [v[0] for v in ev.values()])), kind="post")
        st = ev["set_state"][0]
        c.prove("state_is_pending_not_deferred", tm.And(tm.Eq(I(st.state), tm.mk_int(StepState.PENDING.value)),
                                                        tm.Not(B(st.deferred))), kind="post")


_upgrade(EXEC + "_reset_step_to_pending", ["C03", "C05", "C04"],
         args=dict(self=_job_executor, step=ty.Make(_RStep)), finish=_rtp_finish)


class _RunStub:
    def __init__(self, name):
        self.step = _RStep(name + ".step")
        self.job_i = ty.Int.fresh(name + ".job_i")


def _ffr_finish(c, outcome, args, old):
    """A run that failed before it produced a hash: completed without hash and without deferral in a transaction of
    its own, its stop recorded as a failure, then reported."""
    if outcome[0] != "return":
        return
    t = c.trace
    run = args["run"]
    done = [e for e in t if e.kind == "mark_completed"]
    stops = [e for e in t if e.kind == "record_run_stopped"]
    ok = len(done) == 1 and done[0].step is run.step and done[0].hash is None and done[0].wants_defer is False
    c.prove("completed_once_without_hash_or_deferral", tm.mk_bool(ok), kind="post")
    if ok:
        c.prove("completion_in_a_transaction", tm.mk_bool(_in_one_span(t, done)), kind="post")
    c.prove("stop_recorded_as_failure", tm.mk_bool(len(stops) == 1 and stops[0].succeeded is False), kind="post")
    c.prove("reported_after_the_completion", tm.mk_bool(
        bool(done) and any(e.kind == "report_run" and e.index > done[0].index for e in t)), kind="post")


_upgrade(EXEC + "_finalize_failed_run", ["C03", "C05"],
         args=dict(self=_job_executor, run=ty.Make(_RunStub)), finish=_ffr_finish)


# ---------------------------------------------------------------- Workflow.mark_consuming_steps_pending

from vc.engine import LoopSpec  # noqa: E402


class _McStep:
    def __init__(self, name):
        self.i = ty.Int.fresh(name + ".i")


class _McFile:
    def __init__(self, name):
        self.name = name

    def sinks(self, node_type=None, include_detached=False):
        cur().event("mc.sinks", node_type=node_type, include_detached=include_detached)
        return ty.SeqOf(ty.Make(_McStep)).fresh("sinks")


class _McWorkflow:
    def __init__(self, name):
        self.name = name

    def mark_step_pending(self, step):
        cur().event("mc.mark_step_pending", step=step)


def _mc_iteration(e):
    marks = [ev for ev in e.iter_trace if ev.kind == "mc.mark_step_pending"]
    return len(marks) == 1 and marks[0].step is e.current


def _mcsp_finish(c, outcome, args, old):
    """Every consuming step -- detached ones included: a detached SUCCEEDED step whose input changed would otherwise be
    recycled as up to date -- goes through mark_step_pending (loop body, for an arbitrary consumer)."""
    if outcome[0] != "return":
        return
    asked = [e for e in c.trace if e.kind == "mc.sinks"]
    c.prove("consumers_are_the_step_sinks_detached_included", tm.mk_bool(
        len(asked) == 1 and getattr(asked[0].node_type, "__name__", "") == "Step" and asked[0].include_detached is True),
        kind="post", detail=str([(getattr(e.node_type, "__name__", e.node_type), e.include_detached) for e in asked]))


_upgrade("stepup/core/workflow.py::Workflow.mark_consuming_steps_pending", ["C09", "C03", "C04", "C05", "C02"],
         args=dict(self=ty.Make(_McWorkflow), file=ty.Make(_McFile)), finish=_mcsp_finish,
         loops={0: LoopSpec(step_post=_mc_iteration)})


# ---------------------------------------------------------------- Step.has_unavailable_dynamic_input

from contracts.common import FileState, Step, fresh_node  # noqa: E402
from contracts.trusted import DbStub  # noqa: E402

HUDI_SQL = f"""SELECT EXISTS (
    SELECT 1 FROM dependency
    JOIN dynamic_dep ON dynamic_dep.i = dependency.i
    JOIN file ON file.node = dependency.source
    WHERE dependency.sink = ?
    AND file.state NOT IN ({FileState.CONFIRMED.value}, {FileState.BUILT.value})
)"""


def _hudi_self(args):
    db = DbStub("db", [("SELECT EXISTS ( SELECT 1 FROM dependency", ty.TupleOf(ty.Bool))])
    st = fresh_node(Step, None, "self")
    st._fields["graph"] = C03_rerun._Graph(db)
    return st


def _hudi_finish(c, outcome, args, old):
    """The question asked: is some announced input of this step in a state other than CONFIRMED / BUILT.  Nothing else
    enters (in particular not the `detached` flag: a deferral that waits for a flag no state change ever clears -- a
    recycled producer re-attaches its BUILT output without a state change -- would never end; C02: which of two
    requests arrives first must not decide that)."""
    if outcome[0] != "return":
        return
    st = [e for e in c.trace if e.kind == "sql"]
    ok = len(st) == 1 and sqlfront.match_key(st[0].sql) == sqlfront.match_key(HUDI_SQL) and isinstance(st[0].args, tuple) \
        and len(st[0].args) == 1
    c.prove("asks_for_an_announced_input_that_is_not_confirmed_or_built", tm.And(tm.mk_bool(ok), *(
        [tm.Eq(I(st[0].args[0]), I(args["self"].i))] if ok else [])), kind="sql", detail=str([e.sql for e in st]))
    rows = [e for e in c.trace if e.kind == "sql.fetchone"]
    c.prove("one_row_read", tm.mk_bool(len(rows) == 1), kind="post")


_upgrade(STEP + "has_unavailable_dynamic_input", ["C09", "C10", "C02", "C03"], args=dict(self=_hudi_self), finish=_hudi_finish)


# ---------------------------------------------------------------- Node.products: the statement behind "my products"


class _PKind:
    def __init__(self, name):
        self.k = ty.Str.fresh(name + ".kind")

    def kind(self):
        return self.k


class _PGraph:
    def __init__(self, db):
        self.db = db

    def node_from_row(self, i, kind, label):
        cur().event("pr.node_from_row", i=i, nkind=kind, label=label)
        return ("node", i, kind, label)


def _prod_self(args):
    db = DbStub("db", [("SELECT i, kind, label FROM node WHERE creator = ?", ty.TupleOf(ty.Int, ty.Str, ty.Str))])
    n = fresh_node(common.Node, None, "self")
    n._fields["graph"] = _PGraph(db)
    return n


PRODUCTS_ALL = "SELECT i, kind, label FROM node WHERE creator = ? ORDER BY kind, label"
PRODUCTS_KIND = "SELECT i, kind, label FROM node WHERE creator = ? AND kind = ? ORDER BY kind, label"


def _products_finish(c, outcome, args, old):
    """The rows whose creator column is this node (of the kind asked for, if one is given), in the order of the unique
    key (kind, label) -- C02: an enumeration order that does not depend on insertion order."""
    if outcome[0] not in ("return", "cut"):
        return
    st = [e for e in c.trace if e.kind == "sql"]
    nt = args["node_type"]
    if isinstance(nt, sym.SymOpt):
        nt = sym.resolve(nt)  # the case this path took (the function tests `node_type is not None`)
    with_kind = nt is not None
    want = PRODUCTS_KIND if with_kind else PRODUCTS_ALL
    ok = len(st) == 1 and sqlfront.match_key(st[0].sql) == sqlfront.match_key(want) \
        and isinstance(st[0].args, (tuple, list)) and len(st[0].args) == (2 if with_kind else 1)
    eqs = []
    if ok:
        eqs.append(tm.Eq(I(st[0].args[0]), I(args["self"].i)))
        if with_kind:
            eqs.append(tm.Eq(S(st[0].args[1]), S(nt.k)))
    c.prove("selects_the_rows_created_by_this_node_in_key_order", tm.And(tm.mk_bool(ok), *eqs), kind="sql",
            detail=str([e.sql for e in st]))


def _products_iteration(e):
    i, kind, label = e.current
    made = [ev for ev in e.iter_trace if ev.kind == "pr.node_from_row"]
    ys = [ev for ev in e.iter_trace if ev.kind == "yield"]
    if len(made) != 1 or len(ys) != 1 or ys[0].value[0] != "node":
        return False
    return sym.wrap_bool(tm.And(tm.Eq(I(made[0].i), I(i)), tm.Eq(S(made[0].nkind), S(kind)), tm.Eq(S(made[0].label), S(label)),
                                tm.mk_bool(ys[0].value[1] is made[0].i)))


from vc import sym  # noqa: E402

_pc = _upgrade("stepup/core/trellis.py::Node.products", ["C09", "C02", "C10"],
               args=dict(self=_prod_self, node_type=ty.Opt(ty.Make(_PKind))), finish=_products_finish,
               loops={0: LoopSpec(step_post=_products_iteration)})


# ---------------------------------------------------------------- Step.set_resources (C12: what the resource gate reads)

from contracts import C08_claims  # noqa: E402,F401  (declares the stand-in upgraded here)


def _sr_finish(c, outcome, args, old):
    """The stored claims of this step are replaced: every old row of the step is deleted first; None stores nothing;
    otherwise one row (this step, name, units) per declared resource is inserted."""
    if outcome[0] != "return":
        return
    st = [e for e in c.trace if e.kind in ("sql", "sql.many")]
    K = sqlfront.match_key
    first_ok = bool(st) and st[0].kind == "sql" and K(st[0].sql) == K("DELETE FROM step_resource WHERE node = ?") \
        and isinstance(st[0].args, tuple) and len(st[0].args) == 1
    c.prove("old_claims_of_this_step_are_deleted_first", tm.And(tm.mk_bool(first_ok), *(
        [tm.Eq(I(st[0].args[0]), I(args["self"].i))] if first_ok else [])), kind="sql", detail=str([e.sql for e in st]))
    res = args["resources"]
    if isinstance(res, sym.SymOpt):
        res = sym.resolve(res)
    if res is None:
        c.prove("none_stores_nothing", tm.mk_bool(len(st) == 1), kind="sql")
        return
    ok = len(st) == 2 and st[1].kind == "sql.many" and K(st[1].sql) == K("INSERT INTO step_resource VALUES (?, ?, ?)")
    c.prove("declared_claims_are_inserted", tm.mk_bool(ok), kind="sql", detail=str([e.sql for e in st[1:]]))


_upgrade(STEP + "set_resources", ["C12", "C09"],
         args=dict(self=C03_rerun._self, resources=ty.Opt(ty.MapOf(ty.Str, ty.Int))), finish=_sr_finish)


# ---------------------------------------------------------------- Node._dependencies (behind sources() / sinks())


def _dep_self(args):
    db = DbStub("db", [("SELECT node.i, kind, label FROM node JOIN dependency", ty.TupleOf(ty.Int, ty.Str, ty.Str))])
    n = fresh_node(common.Node, None, "self")
    n._fields["graph"] = _PGraph(db)
    return n


def _dep_finish(c, outcome, args, old):
    """The nodes at the other end of this node's edges in the direction asked for, of the kind asked for (if any),
    detached ones only on request (C09 / C03: consumers are marked pending detached ones included; readiness looks at
    attached sources only)."""
    if outcome[0] not in ("return", "cut"):
        return
    st = [e for e in c.trace if e.kind == "sql"]
    nt = args["node_type"]
    if isinstance(nt, sym.SymOpt):
        nt = sym.resolve(nt)
    up, det = tm.mk_bool(args["upstream"]), tm.mk_bool(args["include_detached"])
    ok = len(st) == 1 and isinstance(st[0].args, (tuple, list)) and len(st[0].args) == (2 if nt is not None else 1)
    cases = []
    for u in (True, False):
        for d in (True, False):
            want = "SELECT node.i, kind, label FROM node JOIN dependency ON node.i = " + ("source WHERE sink = ?" if u else "sink WHERE source = ?")
            if nt is not None:
                want += " AND kind = ?"
            if not d:
                want += " AND NOT detached"
            hit = ok and sqlfront.match_key(st[0].sql) == sqlfront.match_key(want)
            cases.append(tm.And(tm.mk_bool(hit), tm.Iff(up, tm.mk_bool(u)), tm.Iff(det, tm.mk_bool(d))))
    eqs = [tm.Eq(I(st[0].args[0]), I(args["self"].i))] if ok else []
    if ok and nt is not None:
        eqs.append(tm.Eq(S(st[0].args[1]), S(nt.k)))
    c.prove("selects_the_other_ends_of_this_nodes_edges", tm.And(tm.mk_bool(ok), tm.Or(*cases), *eqs), kind="sql",
            detail=str([e.sql for e in st]))


from vc.engine import contract  # noqa: E402


def _either(name):
    """True on one path, False on the other (a flag the function builds its statement text from)."""
    c = cur()
    return bool(c.fork(c.fresh(name + ".true", tm.BOOL)))


contract("stepup/core/trellis.py::Node._dependencies", props=["C09", "C03", "C10"])(type("node_dependencies", (), dict(
    args=dict(self=_dep_self, node_type=ty.Opt(ty.Make(_PKind)), include_detached=ty.Make(_either), upstream=ty.Make(_either)),
    finish=staticmethod(_dep_finish), modifies=[], loops={0: LoopSpec(step_post=_products_iteration)})))
