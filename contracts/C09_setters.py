"""Small writers that other contracts use through stand-ins, verified on their own bodies (C09, C03, C05, C10).

The job functions, the completion and the recycling contracts see `Step.set_state`, `Step.set_hash`, `Step.delete_hash`,
`Executor._reset_step_to_pending` and `Executor._finalize_failed_run` as events.  Here the functions behind those events
are verified: each setter is one statement on the step's own row with the values it was given; the two executor helpers
do what the callers' contracts take them to do, inside one transaction."""

from __future__ import annotations

from contracts import C03_inputs, C03_rerun, C10_dispatch, common  # noqa: F401  (declare the stand-ins upgraded here)
from contracts.C03_inputs import _StepStub, _in_one_span, _job_executor
from contracts.common import StepState
from vc import engine, sqlfront
from vc import terms as tm
from vc import types as ty
from vc.sym import B, I, S, cur

STEP = "stepup/core/step.py::Step."
EXEC = "stepup/core/executor.py::Executor."


def _single_statement(sql, wanted):
    """finish: exactly one statement, this text (match_key), these argument terms (as (kind, term) with kind in I/S/B)."""

    def finish(c, outcome, args, old):
        if outcome[0] != "return":
            return
        st = [e for e in c.trace if e.kind in ("sql", "sql.many")]
        ok = len(st) == 1 and st[0].kind == "sql" and sqlfront.match_key(st[0].sql) == sqlfront.match_key(sql) \
            and isinstance(st[0].args, tuple)
        want = wanted(args) if ok else []
        ok = ok and len(st[0].args) == len(want)
        conv = dict(I=I, S=S, B=B)
        eqs = [tm.Eq(conv[k](a), conv[k](w)) if k != "B" else tm.Iff(B(a), B(w)) for a, (k, w) in zip(st[0].args, want)] if ok else []
        c.prove("one_statement_on_its_own_row_with_the_given_values", tm.And(tm.mk_bool(ok), *eqs), kind="sql",
                detail=str([(e.kind, e.sql) for e in st]))

    return finish


def _upgrade(key, props, **fields):
    con = engine.REGISTRY[key]
    con.verify = True
    con.props = props
    con.note = ""
    for k, v in fields.items():
        setattr(con, k, v)
    return con


class _HashStub:
    def __init__(self, name):
        self.json = ty.Str.fresh(name + ".json")

    def to_json(self):
        return self.json


_upgrade(STEP + "set_state", ["C09", "C10", "C05", "C03"],
         args=dict(self=C03_rerun._self, state=ty.EnumOf(StepState), deferred=ty.Bool),
         finish=_single_statement("UPDATE step SET state = ?, deferred = ? WHERE node = ?",
                                  lambda a: [("I", a["state"]), ("B", a["deferred"]), ("I", a["self"].i)]))
_upgrade(STEP + "set_hash", ["C09", "C10", "C05", "C03"],
         args=dict(self=C03_rerun._self, step_hash=ty.Make(_HashStub)),
         finish=_single_statement("INSERT OR REPLACE INTO step_hash VALUES (?, ?)",
                                  lambda a: [("I", a["self"].i), ("S", a["step_hash"].json)]))
_upgrade(STEP + "delete_hash", ["C09", "C10", "C05", "C03"],
         args=dict(self=C03_rerun._self),
         finish=_single_statement("DELETE FROM step_hash WHERE node = ?", lambda a: [("I", a["self"].i)]))


# ---------------------------------------------------------------- the executor helpers


class _RStep(_StepStub):
    """The step as the helpers use it (events with the object they were applied to)."""

    def reset_for_rerun(self):
        cur().event("reset_for_rerun", step=self)

    def delete_hash(self):
        cur().event("delete_hash", step=self)

    def set_state(self, s, deferred=False):
        cur().event("set_state", step=self, state=s, deferred=deferred)

    def mark_completed(self, new_hash, wants_defer):
        cur().event("mark_completed", step=self, hash=new_hash, wants_defer=wants_defer)
        return False


def _rtp_finish(c, outcome, args, old):
    """Withdraw what the last run added, forget the hash, PENDING -- the three together, in one transaction, on the
    step given (a step that is sent back with its old hash would be skipped; one that keeps its additions would
    collide with its own re-declarations)."""
    if outcome[0] != "return":
        return
    t = c.trace
    step = args["step"]
    ev = {k: [e for e in t if e.kind == k] for k in ("reset_for_rerun", "delete_hash", "set_state")}
    ok = all(len(v) == 1 and v[0].step is step for v in ev.values())
    c.prove("reset_forget_pending_once_each_on_this_step", tm.mk_bool(ok), kind="post")
    if ok:
        c.prove("in_one_transaction", tm.mk_bool(_in_one_span(t, [v[0] for v in ev.values()])), kind="post")
        st = ev["set_state"][0]
        c.prove("state_is_pending_not_deferred", tm.And(tm.Eq(I(st.state), tm.mk_int(StepState.PENDING.value)),
                                                        tm.Not(B(st.deferred))), kind="post")


_upgrade(EXEC + "_reset_step_to_pending", ["C03", "C05", "C04"],
         args=dict(self=_job_executor, step=ty.Make(_RStep)), finish=_rtp_finish)


class _RunStub:
    def __init__(self, name):
        self.step = _RStep(name + ".step")
        self.job_i = ty.Int.fresh(name + ".job_i")


def _ffr_finish(c, outcome, args, old):
    """A run that failed before it produced a hash: completed without hash and without deferral in a transaction of
    its own, its stop recorded as a failure, then reported."""
    if outcome[0] != "return":
        return
    t = c.trace
    run = args["run"]
    done = [e for e in t if e.kind == "mark_completed"]
    stops = [e for e in t if e.kind == "record_run_stopped"]
    ok = len(done) == 1 and done[0].step is run.step and done[0].hash is None and done[0].wants_defer is False
    c.prove("completed_once_without_hash_or_deferral", tm.mk_bool(ok), kind="post")
    if ok:
        c.prove("completion_in_a_transaction", tm.mk_bool(_in_one_span(t, done)), kind="post")
    c.prove("stop_recorded_as_failure", tm.mk_bool(len(stops) == 1 and stops[0].succeeded is False), kind="post")
    c.prove("reported_after_the_completion", tm.mk_bool(
        bool(done) and any(e.kind == "report_run" and e.index > done[0].index for e in t)), kind="post")


_upgrade(EXEC + "_finalize_failed_run", ["C03", "C05"],
         args=dict(self=_job_executor, run=ty.Make(_RunStub)), finish=_ffr_finish)


# ---------------------------------------------------------------- Workflow.mark_consuming_steps_pending

from vc.engine import LoopSpec  # noqa: E402


class _McStep:
    def __init__(self, name):
        self.i = ty.Int.fresh(name + ".i")


class _McFile:
    def __init__(self, name):
        self.name = name

    def sinks(self, node_type=None, include_detached=False):
        cur().event("mc.sinks", node_type=node_type, include_detached=include_detached)
        return ty.SeqOf(ty.Make(_McStep)).fresh("sinks")


class _McWorkflow:
    def __init__(self, name):
        self.name = name

    def mark_step_pending(self, step):
        cur().event("mc.mark_step_pending", step=step)


def _mc_iteration(e):
    marks = [ev for ev in e.iter_trace if ev.kind == "mc.mark_step_pending"]
    return len(marks) == 1 and marks[0].step is e.current


def _mcsp_finish(c, outcome, args, old):
    """Every consuming step -- detached ones included: a detached SUCCEEDED step whose input changed would otherwise be
    recycled as up to date -- goes through mark_step_pending (loop body, for an arbitrary consumer)."""
    if outcome[0] != "return":
        return
    asked = [e for e in c.trace if e.kind == "mc.sinks"]
    c.prove("consumers_are_the_step_sinks_detached_included", tm.mk_bool(
        len(asked) == 1 and getattr(asked[0].node_type, "__name__", "") == "Step" and asked[0].include_detached is True),
        kind="post", detail=str([(getattr(e.node_type, "__name__", e.node_type), e.include_detached) for e in asked]))


_upgrade("stepup/core/workflow.py::Workflow.mark_consuming_steps_pending", ["C09", "C03", "C04", "C05"],
         args=dict(self=ty.Make(_McWorkflow), file=ty.Make(_McFile)), finish=_mcsp_finish,
         loops={0: LoopSpec(step_post=_mc_iteration)})


# ---------------------------------------------------------------- Step.has_unavailable_dynamic_input

from contracts.common import FileState, Step, fresh_node  # noqa: E402
from contracts.trusted import DbStub  # noqa: E402

HUDI_SQL = f"""SELECT EXISTS (
    SELECT 1 FROM dependency
    JOIN dynamic_dep ON dynamic_dep.i = dependency.i
    JOIN file ON file.node = dependency.source
    WHERE dependency.sink = ?
    AND file.state NOT IN ({FileState.CONFIRMED.value}, {FileState.BUILT.value})
)"""


def _hudi_self(args):
    db = DbStub("db", [("SELECT EXISTS ( SELECT 1 FROM dependency", ty.TupleOf(ty.Bool))])
    st = fresh_node(Step, None, "self")
    st._fields["graph"] = C03_rerun._Graph(db)
    return st


def _hudi_finish(c, outcome, args, old):
    """The question asked: is some announced input of this step in a state other than CONFIRMED / BUILT.  Nothing else
    enters (in particular not the `detached` flag: a deferral that waits for a flag no state change ever clears -- a
    recycled producer re-attaches its BUILT output without a state change -- would never end; C02: which of two
    requests arrives first must not decide that)."""
    if outcome[0] != "return":
        return
    st = [e for e in c.trace if e.kind == "sql"]
    ok = len(st) == 1 and sqlfront.match_key(st[0].sql) == sqlfront.match_key(HUDI_SQL) and isinstance(st[0].args, tuple) \
        and len(st[0].args) == 1
    c.prove("asks_for_an_announced_input_that_is_not_confirmed_or_built", tm.And(tm.mk_bool(ok), *(
        [tm.Eq(I(st[0].args[0]), I(args["self"].i))] if ok else [])), kind="sql", detail=str([e.sql for e in st]))
    rows = [e for e in c.trace if e.kind == "sql.fetchone"]
    c.prove("one_row_read", tm.mk_bool(len(rows) == 1), kind="post")


_upgrade(STEP + "has_unavailable_dynamic_input", ["C09", "C10", "C02", "C03"], args=dict(self=_hudi_self), finish=_hudi_finish)
