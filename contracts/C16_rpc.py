"""C16: remote calls are answered once and correctly paired — framing, pairing, exposure, failure mapping."""

from __future__ import annotations

from contracts import trusted
from vc import engine, extract, sym
from vc import terms as tm
from vc import types as ty
from vc.engine import LoopSpec, contract
from vc.report import lemma, structural
from vc.sym import B, I, S, SymBytes, SymInt, cur, wrap_bool, wrap_bytes, wrap_int
from vc.terms import BOOL, INT, STR

rpc = extract.import_module("stepup/core/rpc.py")
excmod = extract.import_module("stepup/core/exceptions.py")
RPCError = excmod.RPCError
TWO64 = 2**64
MAX_BODY = rpc.MAX_BODY_SIZE


def enc_t(call_id: tm.T, body_isnone: tm.T, body: tm.T) -> tm.T:
    """Spec of the wire format: 8-byte big-endian id, 8-byte big-endian size, body (None = empty)."""
    b = tm.Ite(body_isnone, tm.mk_str(""), body)
    return tm.Concat(sym.be_encode(call_id, 8), sym.be_encode(tm.Len(b), 8), b)


def _body_parts(body):
    if isinstance(body, sym.SymOpt):
        return body.isnone, S(body.payload)
    if body is None:
        return tm.TRUE, tm.mk_str("")
    return tm.FALSE, S(body)


@contract("stepup/core/rpc.py::_encode_message", props=["C16"])
class encode_message:
    args = dict(call_id=ty.Int, body=ty.Opt(ty.Bytes))
    requires = lambda call_id, body: (call_id >= 0) & (call_id < TWO64) & wrap_bool(
        tm.Lt(tm.Len(_body_parts(body)[1]), tm.mk_int(TWO64)))
    ensures = lambda call_id, body, result: result == wrap_bytes(enc_t(I(call_id), *_body_parts(body)))
    result = ty.Bytes
    modifies = []


@contract("stepup/core/rpc.py::_decode_header", props=["C16"])
class decode_header:
    args = dict(header=ty.Bytes)
    requires = lambda header: wrap_bool(tm.Eq(tm.Len(S(header)), tm.mk_int(16)))
    raises = {RPCError: lambda header: wrap_bool(
        tm.Gt(sym.be_decode(tm.Substr(S(header), tm.mk_int(8), tm.mk_int(8)), 8), tm.mk_int(MAX_BODY)))}
    ensures = lambda header, result: (
        (result[0] == wrap_int(sym.be_decode(tm.Substr(S(header), tm.mk_int(0), tm.mk_int(8)), 8)))
        & (result[1] == wrap_int(sym.be_decode(tm.Substr(S(header), tm.mk_int(8), tm.mk_int(8)), 8)))
        & (result[1] >= 0) & (result[1] <= MAX_BODY))
    result = ty.TupleOf(ty.Int, ty.Int)
    modifies = []


@lemma("C16/lemma/header_roundtrip", props=["C16"],
       note="decoding the first 16 bytes of an encoded message gives back the id and the body size")
def header_roundtrip():
    c = cur()
    cid, body = c.fresh("cid", INT), c.fresh("body", STR)
    isn = c.fresh("isnone", BOOL)
    c.assume(wrap_bool(tm.And(tm.Ge(cid, tm.mk_int(0)), tm.Lt(cid, tm.mk_int(TWO64)),
                              tm.Le(tm.Len(body), tm.mk_int(MAX_BODY)))))
    msg = enc_t(cid, isn, body)
    h0 = tm.Substr(msg, tm.mk_int(0), tm.mk_int(8))
    h1 = tm.Substr(msg, tm.mk_int(8), tm.mk_int(8))
    b = tm.Ite(isn, tm.mk_str(""), body)
    return wrap_bool(tm.And(tm.Eq(sym.be_decode(h0, 8), cid), tm.Eq(sym.be_decode(h1, 8), tm.Len(b)),
                            tm.Eq(tm.Substr(msg, tm.mk_int(16), tm.Len(b)), b),
                            tm.Eq(tm.Len(msg), tm.Add(tm.mk_int(16), tm.Len(b)))))


# ---------------------------------------------------------------- reading messages from a byte stream


class GhostStream:
    """Ghost: the bytes the peer sends on this connection (`total`) and how far the transport has
    delivered them (`pos`).  `start` is the offset of the first byte not yet handed to a caller."""

    def __init__(self, name):
        c = cur()
        self.total = c.fresh(name + ".total", STR)
        self.pos = c.fresh(name + ".pos", INT)
        self.start = c.fresh(name + ".start", INT)
        c.pc.append(tm.And(tm.Le(tm.mk_int(0), self.start), tm.Le(self.start, self.pos),
                           tm.Le(self.pos, tm.Len(self.total))))

    def __havoc__(self, label):
        c = cur()
        self.pos = c.fresh(c.fresh_name(label + ".pos"), INT)

    def __snapshot__(self):
        g = GhostStream.__new__(GhostStream)
        g.total, g.pos, g.start = self.total, self.pos, self.start
        return g


class SockStub:
    """A blocking socket: recv(n) returns the next k <= n bytes of the stream, k = 0 meaning the peer is
    gone (assumed contract of socket.recv on a stream socket)."""

    def __init__(self, name):
        self.ghost = GhostStream(name)

    def recv(self, n):
        c = cur()
        g = self.ghost
        k = c.fresh(c.fresh_name("recv.k"), INT)
        c.pc.append(tm.And(tm.Ge(k, tm.mk_int(0)), tm.Le(k, I(n)), tm.Le(k, tm.Sub(tm.Len(g.total), g.pos))))
        frag = tm.Substr(g.total, g.pos, k)
        g.pos = tm.Add(g.pos, k)
        c.writes.append((g, "pos"))
        c.event("recv", n=n)
        return wrap_bytes(frag)

    def __havoc__(self, label):
        self.ghost.__havoc__(label)
        cur().data.setdefault("havocked", set()).add(id(self.ghost))

    def __snapshot__(self):
        s = SockStub.__new__(SockStub)
        s.ghost = self.ghost.__snapshot__()
        return s


trusted.trusted("socket.recv(n) on a stream socket returns the next k <= n bytes sent by the peer, in order; k = 0 "
                "means the peer closed; asyncio.StreamReader.readexactly(n) returns exactly the next n bytes or raises "
                "IncompleteReadError / ConnectionError")


def _reader_obj(args):
    r = ty.ObjOf(rpc._SocketReader, dict(sock=ty.Make(SockStub), socket_path=ty.Str, _buffer=ty.Bytes),
                 name="_SocketReader").fresh("self")
    g = r.sock.ghost
    # class invariant: the buffer holds exactly the delivered but unconsumed bytes
    cur().assume(r._buffer == wrap_bytes(tm.Substr(g.total, g.start, tm.Sub(g.pos, g.start))))
    return r


def _buffer_inv(reader, start):
    g = reader.sock.ghost
    return (reader._buffer == wrap_bytes(tm.Substr(g.total, start, tm.Sub(g.pos, start)))) & wrap_bool(
        tm.And(tm.Le(start, g.pos), tm.Le(g.pos, tm.Len(g.total))))


def _readexactly_post(self, size, result, old):
    g0 = old.self.sock.ghost
    g = self.sock.ghost
    new_start = tm.Add(g0.start, I(size))
    return (result == wrap_bytes(tm.Substr(g0.total, g0.start, I(size)))) & _buffer_inv(self, new_start) & wrap_bool(
        tm.Eq(tm.Len(S(result)), I(size)))


@contract("stepup/core/rpc.py::_SocketReader.readexactly", props=["C16"])
class readexactly:
    """For every fragmentation of the stream by recv: returns exactly the next `size` bytes and keeps the rest."""

    args = dict(self=_reader_obj, size=ty.Int)
    requires = lambda size: size >= 0
    may_raise = {ConnectionResetError: None}
    ensures = _readexactly_post
    result = ty.Bytes
    modifies = ["self._buffer", "self.sock"]
    loops = {0: LoopSpec(
        invariant=lambda e: _buffer_inv(e.self, e.old.self.sock.ghost.start),
        decreases=lambda e: wrap_int(tm.Sub(I(e.size), tm.Len(S(e.self._buffer)))),
        havoc=("self",), modifies={"self": ["_buffer", "sock"]})}

    @staticmethod
    def finish(c, outcome, args, old):
        # ghost update of the consumption offset (the only write to `start`)
        if outcome[0] == "return":
            g = args["self"].sock.ghost
            g.start = tm.Add(old.self.sock.ghost.start, I(args["size"]))


def _post_advance_start(self, size, result, old):
    return True
