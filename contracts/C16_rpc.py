"""C16: remote calls are answered once and correctly paired — framing, pairing, exposure, failure mapping."""

from __future__ import annotations

from contracts import trusted
from vc import engine, extract, sym
from vc import terms as tm
from vc import types as ty
from vc.engine import LoopSpec, contract
from vc.report import bounded, lemma, structural
from vc.sym import B, I, S, SymBytes, SymInt, cur, wrap_bool, wrap_bytes, wrap_int
from vc.terms import BOOL, INT, STR

rpc = extract.import_module("stepup/core/rpc.py")
excmod = extract.import_module("stepup/core/exceptions.py")
RPCError = excmod.RPCError
TWO64 = 2**64
MAX_BODY = rpc.MAX_BODY_SIZE


def enc_t(call_id: tm.T, body_isnone: tm.T, body: tm.T) -> tm.T:
    """Spec of the wire format: 8-byte big-endian id, 8-byte big-endian size, body (None = empty)."""
    b = tm.Ite(body_isnone, tm.mk_str(""), body)
    return tm.Concat(sym.be_encode(call_id, 8), sym.be_encode(tm.Len(b), 8), b)


def _body_parts(body):
    if isinstance(body, sym.SymOpt):
        return body.isnone, S(body.payload)
    if body is None:
        return tm.TRUE, tm.mk_str("")
    return tm.FALSE, S(body)


@contract("stepup/core/rpc.py::_encode_message", props=["C16"])
class encode_message:
    args = dict(call_id=ty.Int, body=ty.Opt(ty.Bytes))
    requires = lambda call_id, body: (call_id >= 0) & (call_id < TWO64) & wrap_bool(
        tm.Lt(tm.Len(_body_parts(body)[1]), tm.mk_int(TWO64)))
    ensures = lambda call_id, body, result: result == wrap_bytes(enc_t(I(call_id), *_body_parts(body)))
    result = ty.Bytes
    modifies = []


@contract("stepup/core/rpc.py::_decode_header", props=["C16"])
class decode_header:
    args = dict(header=ty.Bytes)
    requires = lambda header: wrap_bool(tm.Eq(tm.Len(S(header)), tm.mk_int(16)))
    raises = {RPCError: lambda header: wrap_bool(
        tm.Gt(sym.be_decode(tm.Substr(S(header), tm.mk_int(8), tm.mk_int(8)), 8), tm.mk_int(MAX_BODY)))}
    ensures = lambda header, result: (
        (result[0] == wrap_int(sym.be_decode(tm.Substr(S(header), tm.mk_int(0), tm.mk_int(8)), 8)))
        & (result[1] == wrap_int(sym.be_decode(tm.Substr(S(header), tm.mk_int(8), tm.mk_int(8)), 8)))
        & (result[1] >= 0) & (result[1] <= MAX_BODY))
    result = ty.TupleOf(ty.Int, ty.Int)
    modifies = []


@lemma("C16/lemma/header_roundtrip", props=["C16"],
       note="decoding the first 16 bytes of an encoded message gives back the id and the body size")
def header_roundtrip():
    c = cur()
    cid, body = c.fresh("cid", INT), c.fresh("body", STR)
    isn = c.fresh("isnone", BOOL)
    c.assume(wrap_bool(tm.And(tm.Ge(cid, tm.mk_int(0)), tm.Lt(cid, tm.mk_int(TWO64)),
                              tm.Le(tm.Len(body), tm.mk_int(MAX_BODY)))))
    msg = enc_t(cid, isn, body)
    h0 = tm.Substr(msg, tm.mk_int(0), tm.mk_int(8))
    h1 = tm.Substr(msg, tm.mk_int(8), tm.mk_int(8))
    b = tm.Ite(isn, tm.mk_str(""), body)
    return wrap_bool(tm.And(tm.Eq(sym.be_decode(h0, 8), cid), tm.Eq(sym.be_decode(h1, 8), tm.Len(b)),
                            tm.Eq(tm.Substr(msg, tm.mk_int(16), tm.Len(b)), b),
                            tm.Eq(tm.Len(msg), tm.Add(tm.mk_int(16), tm.Len(b)))))


# ---------------------------------------------------------------- reading messages from a byte stream


class GhostStream:
    """Ghost: the bytes the peer sends on this connection (`total`) and how far the transport has
    delivered them (`pos`).  `start` is the offset of the first byte not yet handed to a caller."""

    def __init__(self, name):
        c = cur()
        self.total = c.fresh(name + ".total", STR)
        self.pos = c.fresh(name + ".pos", INT)
        self.start = c.fresh(name + ".start", INT)
        c.pc.append(tm.And(tm.Le(tm.mk_int(0), self.start), tm.Le(self.start, self.pos),
                           tm.Le(self.pos, tm.Len(self.total))))

    def __havoc__(self, label):
        c = cur()
        self.pos = c.fresh(c.fresh_name(label + ".pos"), INT)

    def __snapshot__(self):
        g = GhostStream.__new__(GhostStream)
        g.total, g.pos, g.start = self.total, self.pos, self.start
        return g


class SockStub:
    """A blocking socket: recv(n) returns the next k <= n bytes of the stream, k = 0 meaning the peer is
    gone (assumed contract of socket.recv on a stream socket)."""

    def __init__(self, name):
        self.ghost = GhostStream(name)

    def recv(self, n):
        c = cur()
        g = self.ghost
        k = c.fresh(c.fresh_name("recv.k"), INT)
        c.pc.append(tm.And(tm.Ge(k, tm.mk_int(0)), tm.Le(k, I(n)), tm.Le(k, tm.Sub(tm.Len(g.total), g.pos))))
        frag = tm.Substr(g.total, g.pos, k)
        g.pos = tm.Add(g.pos, k)
        c.writes.append((g, "pos"))
        c.event("recv", n=n)
        return wrap_bytes(frag)

    def __havoc__(self, label):
        self.ghost.__havoc__(label)
        cur().data.setdefault("havocked", set()).add(id(self.ghost))

    def __snapshot__(self):
        s = SockStub.__new__(SockStub)
        s.ghost = self.ghost.__snapshot__()
        return s


trusted.trusted("socket.recv(n) on a stream socket returns the next k <= n bytes sent by the peer, in order; k = 0 "
                "means the peer closed; asyncio.StreamReader.readexactly(n) returns exactly the next n bytes or raises "
                "IncompleteReadError / ConnectionError")


def _reader_obj(args):
    r = ty.ObjOf(rpc._SocketReader, dict(sock=ty.Make(SockStub), socket_path=ty.Str, _buffer=ty.Bytes),
                 name="_SocketReader").fresh("self")
    g = r.sock.ghost
    # class invariant: the buffer holds exactly the delivered but unconsumed bytes
    cur().assume(r._buffer == wrap_bytes(tm.Substr(g.total, g.start, tm.Sub(g.pos, g.start))))
    return r


def _buffer_inv(reader, start):
    g = reader.sock.ghost
    return (reader._buffer == wrap_bytes(tm.Substr(g.total, start, tm.Sub(g.pos, start)))) & wrap_bool(
        tm.And(tm.Le(start, g.pos), tm.Le(g.pos, tm.Len(g.total))))


def _readexactly_post(self, size, result, old):
    g0 = old.self.sock.ghost
    g = self.sock.ghost
    new_start = tm.Add(g0.start, I(size))
    return (result == wrap_bytes(tm.Substr(g0.total, g0.start, I(size)))) & _buffer_inv(self, new_start) & wrap_bool(
        tm.Eq(tm.Len(S(result)), I(size)))


@contract("stepup/core/rpc.py::_SocketReader.readexactly", props=["C16"])
class readexactly:
    """For every fragmentation of the stream by recv: returns exactly the next `size` bytes and keeps the rest."""

    args = dict(self=_reader_obj, size=ty.Int)
    requires = lambda size: size >= 0
    # the peer-is-gone error is raised only while fewer than `size` bytes have been delivered
    may_raise = {ConnectionResetError: lambda self, size, old: wrap_bool(
        tm.Lt(tm.Sub(self.sock.ghost.pos, old.self.sock.ghost.start), I(size)))}
    ensures = _readexactly_post
    result = ty.Bytes
    modifies = ["self._buffer", "self.sock"]
    loops = {0: LoopSpec(
        invariant=lambda e: _buffer_inv(e.self, e.old.self.sock.ghost.start),
        decreases=lambda e: wrap_int(tm.Sub(I(e.size), tm.Len(S(e.self._buffer)))),
        havoc=("self",), modifies={"self": ["_buffer", "sock"]})}

    @staticmethod
    def finish(c, outcome, args, old):
        # ghost update of the consumption offset (the only write to `start`)
        if outcome[0] == "return":
            g = args["self"].sock.ghost
            g.start = tm.Add(old.self.sock.ghost.start, I(args["size"]))


def _post_advance_start(self, size, result, old):
    return True


def _msg_at(total: tm.T, start: tm.T):
    """(id, size, body, end offset) of the message whose header begins at `start` in `total`."""
    cid = sym.be_decode(tm.Substr(total, start, tm.mk_int(8)), 8)
    size = sym.be_decode(tm.Substr(total, tm.Add(start, tm.mk_int(8)), tm.mk_int(8)), 8)
    body = tm.Substr(total, tm.Add(start, tm.mk_int(16)), size)
    return cid, size, body, tm.Add(start, tm.Add(tm.mk_int(16), size))


def _recv_post(reader, result, old):
    """The message returned is the one found at the consumption offset; the offset moves past it."""
    g0 = old.reader.sock.ghost
    cid, size, body, end = _msg_at(g0.total, g0.start)
    r_id, r_body = result
    isn = r_body.isnone if isinstance(r_body, sym.SymOpt) else tm.mk_bool(r_body is None)
    pay = r_body.payload if isinstance(r_body, sym.SymOpt) else r_body
    body_ok = tm.Iff(isn, tm.Eq(size, tm.mk_int(0)))
    if pay is not None:
        body_ok = tm.And(body_ok, tm.Implies(tm.Not(isn), tm.Eq(S(pay), body)))
    return (r_id == wrap_int(cid)) & wrap_bool(body_ok) & _buffer_inv(reader, end)


@contract("stepup/core/rpc.py::_recv_socket_message", props=["C16"])
class recv_socket_message:
    args = dict(reader=lambda a: _reader_obj(a))
    may_raise = {ConnectionResetError: None, RPCError: None}
    ensures = _recv_post
    result = ty.TupleOf(ty.Int, ty.Opt(ty.Bytes))
    modifies = ["reader._buffer", "reader.sock"]


# the readexactly contract updates the ghost consumption offset when used as a callee
def _readexactly_stub_post(self, size, result, old):
    r = _readexactly_post(self, size, result, old)
    self.sock.ghost.start = tm.Add(old.self.sock.ghost.start, I(size))
    return r


readexactly.ensures = _readexactly_stub_post


@lemma("C16/lemma/message_sequence", props=["C16"],
       note="if the stream continues at `start` with enc(id, body) ++ rest, the message found there is (id, body) and "
            "the next message is looked for exactly at the beginning of rest (induction step over the k-th message)")
def message_sequence():
    c = cur()
    total, pre, rest, body = (c.fresh(n, STR) for n in ("total", "pre", "rest", "body"))
    cid = c.fresh("cid", INT)
    isn = c.fresh("isnone", BOOL)
    c.assume(wrap_bool(tm.And(tm.Ge(cid, tm.mk_int(0)), tm.Lt(cid, tm.mk_int(TWO64)),
                              tm.Le(tm.Len(body), tm.mk_int(MAX_BODY)))))
    msg = enc_t(cid, isn, body)
    c.assume(wrap_bool(tm.Eq(total, tm.Concat(pre, msg, rest))))
    start = tm.Len(pre)
    got_id, got_size, got_body, end = _msg_at(total, start)
    b = tm.Ite(isn, tm.mk_str(""), body)
    # explicit slicing facts (substr of a concatenation at the component boundaries)
    return wrap_bool(tm.And(tm.Eq(got_id, cid), tm.Eq(got_size, tm.Len(b)), tm.Eq(got_body, b),
                            tm.Eq(end, tm.Add(tm.Len(pre), tm.Len(msg))),
                            tm.Eq(tm.Substr(total, end, tm.Len(rest)), rest)))


class StreamReaderStub:
    """asyncio.StreamReader over the same ghost stream (assumed contract of readexactly)."""

    def __init__(self, name):
        self.ghost = GhostStream(name)

    def readexactly(self, n):
        c = cur()
        g = self.ghost
        for exc in (rpc.asyncio.IncompleteReadError, ConnectionError):
            f = c.fresh(c.fresh_name("readexactly." + exc.__name__), BOOL)
            if c.fork(f):
                # the peer is gone: at a message boundary or anywhere inside a header or body (C16: "disconnects ... at
                # any byte offset"); IncompleteReadError carries the bytes received so far, fewer than asked for
                c.event("reader.gone", exc=exc.__name__)
                if exc is rpc.asyncio.IncompleteReadError:
                    partial = c.fresh(c.fresh_name("readexactly.partial"), STR)
                    c.pc.append(tm.Lt(tm.Len(partial), I(n)))
                    err = exc(b"", None)  # (the constructor formats len(partial) into its message)
                    err.partial = wrap_bytes(partial)
                    raise err
                raise exc("peer gone [contract of StreamReader.readexactly]")
        c.pc.append(tm.Le(tm.Add(g.start, I(n)), tm.Len(g.total)))
        r = wrap_bytes(tm.Substr(g.total, g.start, I(n)))
        g.start = tm.Add(g.start, I(n))
        c.pc.append(tm.Eq(tm.Len(S(r)), I(n)))
        return r


def _recv_stream_post(reader, result, old):
    r = sym.resolve(result) if isinstance(result, sym.SymOpt) else result
    gone = _peer_gone()
    if r is None:
        return gone  # "no message" is reported only for a peer that is gone
    if gone:
        return False  # and a peer that is gone is reported as such, wherever in a message the stream ended
    g0 = old_ghost(old)
    cid, size, body, end = _msg_at(g0.total, g0.start)
    r_id, r_body = r
    isn = r_body.isnone if isinstance(r_body, sym.SymOpt) else tm.mk_bool(r_body is None)
    pay = r_body.payload if isinstance(r_body, sym.SymOpt) else r_body
    ok = tm.And(tm.Eq(I(r_id), cid), tm.Iff(isn, tm.Eq(size, tm.mk_int(0))), tm.Eq(reader.ghost.start, end))
    if pay is not None:
        ok = tm.And(ok, tm.Implies(tm.Not(isn), tm.Eq(S(pay), body)))
    return wrap_bool(ok)


def old_ghost(old):
    return old.reader.ghost


def _peer_gone() -> bool:
    return any(e.kind == "reader.gone" for e in cur().trace)


def _rpc_error_only_for_a_malformed_header(reader):
    """A peer that vanishes -- between two messages or in the middle of one -- is not an error of the loop that reads
    (C16: never crashes the director): RPCError is left for a complete header that is not the header of a message."""
    return not _peer_gone()


class _StreamSnap:
    pass


def _stream_reader(args):
    return StreamReaderStub("reader")


StreamReaderStub.__snapshot__ = lambda self: type("Snap", (), dict(ghost=self.ghost.__snapshot__()))()


@contract("stepup/core/rpc.py::_recv_stream_message", props=["C16"])
class recv_stream_message:
    args = dict(reader=_stream_reader)
    may_raise = {RPCError: _rpc_error_only_for_a_malformed_header}
    ensures = _recv_stream_post
    modifies = []


from vc.report import replayer  # noqa: E402


@replayer("C16/_recv_stream_message/")
def replay_recv_stream(o):
    """The counter-model is a read that ends early; its concrete form on the real function: a real asyncio.StreamReader
    fed with every proper prefix of one encoded message (with and without body), then EOF.  A vanished peer has to be
    reported as None at every offset, and the complete message has to be returned."""
    code = (
        "import asyncio, sys\n"
        "from stepup.core import rpc\n"
        "async def one(data):\n"
        "    r = asyncio.StreamReader()\n"
        "    r.feed_data(data)\n"
        "    r.feed_eof()\n"
        "    return await rpc._recv_stream_message(r)\n"
        "bad = []\n"
        "for body in (None, b'hello world'):\n"
        "    msg = rpc._encode_message(7, body)\n"
        "    for k in range(len(msg) + 1):\n"
        "        try:\n"
        "            got = asyncio.run(one(msg[:k]))\n"
        "        except Exception as exc:\n"
        "            bad.append((body, k, repr(exc)))\n"
        "            continue\n"
        "        want = (7, body) if k == len(msg) else None\n"
        "        if got != want:\n"
        "            bad.append((body, k, repr(got)))\n"
        "for b in bad[:6]:\n"
        "    print('body', b[0], 'stream ends after', b[1], 'byte(s):', b[2])\n"
        "print(len(bad), 'offset(s) misreported')\n"
        "sys.exit(1 if bad else 0)\n")
    import subprocess

    r = subprocess.run(["/venv/bin/python", "-c", code], cwd=extract.REPO, capture_output=True, text=True,
                       env={"PYTHONPATH": extract.REPO, "PATH": "/usr/bin:/bin"})
    return dict(reproduced=r.returncode == 1, python=code, output=(r.stdout + r.stderr)[-1500:],
                witness=dict(claim="a stream that ends inside a message is not reported as a vanished peer (None)"))


# ---------------------------------------------------------------- pairing: client side


@contract("stepup/core/rpc.py::_SocketClientState._next_call_id", props=["C16"])
class next_call_id:
    args = dict(self=lambda a: ty.ObjOf(rpc._SocketClientState, dict(_counter=ty.Int)).fresh("self"))
    ensures = lambda self, old, result: (result == old.self._counter + 1) & (self._counter == result)
    result = ty.Int
    modifies = ["self._counter"]


def _sync_client(args):
    c = ty.ObjOf(rpc.SocketSyncRPCClient, dict(
        _reader=ty.Make(lambda n: _reader_obj({})), _counter=ty.Int, _broken=ty.Bool, socket_path=ty.Str,
        server_log_description=ty.Opt(ty.Str)), name="SocketSyncRPCClient").fresh("self")
    return c


def _recv_response_post(self, expected_call_id, result, trace):
    calls = [e for e in trace if e.kind == "call" and e.callee == "_recv_socket_message"]
    if len(calls) != 1:
        return False
    got_id, got_body = calls[0].result
    return (got_id == expected_call_id) & sym.sym_eq_val(result, got_body)


@contract("stepup/core/rpc.py::SocketSyncRPCClient._recv_response", props=["C16"])
class recv_response:
    """Returns the body of the received message only if that message carries the expected call id."""

    args = dict(self=_sync_client, expected_call_id=ty.Int)
    may_raise = {RPCError: None, ConnectionResetError: None}
    ensures_named = dict(
        from_the_received_message=_recv_response_post,
        # in terms of the ghost stream: the message at the consumption offset carries the expected id and
        # the returned body is its body
        paired=lambda self, expected_call_id, result, old: _paired(self, expected_call_id, result, old))
    result = ty.Opt(ty.Bytes)
    modifies = ["self._reader"]

    @staticmethod
    def finish(c, outcome, args, old):
        # RPCError for a mismatch is raised exactly when the ids differ
        calls = [e for e in c.trace if e.kind == "call" and e.callee == "_recv_socket_message"]
        if outcome[0] == "raise" and isinstance(outcome[1], RPCError) and calls:
            c.prove("mismatch_raises_only_if_ids_differ", calls[0].result[0] != args["expected_call_id"], kind="raises")


def _paired(self, expected_call_id, result, old):
    g0 = old.self._reader.sock.ghost
    cid, size, body, end = _msg_at(g0.total, g0.start)
    isn = result.isnone if isinstance(result, sym.SymOpt) else tm.mk_bool(result is None)
    pay = result.payload if isinstance(result, sym.SymOpt) else result
    ok = tm.And(tm.Eq(cid, I(expected_call_id)), tm.Iff(isn, tm.Eq(size, tm.mk_int(0))))
    if pay is not None:
        ok = tm.And(ok, tm.Implies(tm.Not(isn), tm.Eq(S(pay), body)))
    return wrap_bool(ok)


def _enc_body_stub(payload):
    c = cur()
    r = SymBytes(c.fresh(c.fresh_name("pickled"), STR))
    c.event("encode_body", payload=payload, result=r)
    return r


def _send_socket_stub(sock, call_id, body):
    cur().event("send", transport="socket", call_id=call_id, body=body)


def _sync_call_finish(c, outcome, args, old):
    """One request is sent, under a fresh call id, and the response is awaited under the same id."""
    sends = [e for e in c.trace if e.kind == "send"]
    recvs = [e for e in c.trace if e.kind == "call" and e.callee == "SocketSyncRPCClient._recv_response"]
    ids = [e for e in c.trace if e.kind == "call" and e.callee == "_SocketClientState._next_call_id"]
    if outcome[0] == "return":
        c.prove("one_send_one_recv", len(sends) == 1 and len(recvs) == 1 and len(ids) == 1, kind="post")
    if sends and ids:
        c.prove("send_uses_fresh_id", sends[0].call_id == ids[0].result, kind="post")
    if recvs and ids:
        c.prove("recv_expects_same_id", recvs[0].args["expected_call_id"] == ids[0].result, kind="post")
        c.prove("send_precedes_recv", bool(sends) and sends[0].index < recvs[0].index, kind="post")


def _decode_response_stub(body, call, *, server_log_description=None):
    c = cur()
    c.event("decode_response", body=body, call=call)
    return ty.Opaque("Any").fresh(c.fresh_name("result"))


@contract("stepup/core/rpc.py::SocketSyncRPCClient.__call__", props=["C16"])
class sync_call:
    args = dict(self=_sync_client, name=ty.Str, args=lambda a: (), kwargs=lambda a: {}, _rpc_timeout=ty.Opt(ty.Opaque("Float")))
    env = dict(_encode_body=_enc_body_stub, _send_socket_message=_send_socket_stub,
               _resolve_socket_timeout=lambda t: None, _decode_response=_decode_response_stub)
    may_raise = {RPCError: None, ConnectionResetError: None, OSError: None}
    finish = _sync_call_finish
    modifies = ["self._counter", "self._broken", "self._reader"]


@contract("stepup/core/rpc.py::SocketSyncRPCClient._ensure_connected", props=[], verify=False,
          note="returns the connected socket (connection management is outside C16's contracts)")
class ensure_connected_assumed:
    may_raise = {OSError: None}
    result = lambda: ty.Opaque("Socket")
    modifies = []


# ---------------------------------------------------------------- pairing: asynchronous client


class FutureStub:
    """asyncio.Future / Task with identity `id`; resolving it is an effect."""

    def __init__(self, idt):
        self.id = idt

    def cancelled(self):
        c = cur()
        return sym.SymBool(c.fresh(c.fresh_name("future.cancelled"), BOOL))

    def set_result(self, v):
        cur().event("future.set_result", future=self, value=v)

    def set_exception(self, e):
        cur().event("future.set_exception", future=self, exc=e)

    def cancel(self):
        cur().event("task.cancel", task=self)

    def add_done_callback(self, cb):
        cur().event("task.add_done_callback", task=self, callback=cb)

    def done(self):
        c = cur()
        return sym.SymBool(c.fresh(c.fresh_name("task.done"), BOOL))

    def result(self):
        return None

    def __eq__(self, o):
        return isinstance(o, FutureStub) and wrap_bool(tm.Eq(self.id, o.id))

    __hash__ = None


FutureH = ty.Handle(FutureStub)
PendingRec = ty.Rec(rpc._PendingCall, dict(call=ty.Ignored(), future=FutureH), eq=["future"], frozen=False)
engine.CLASS_SPECS[rpc._PendingCall] = PendingRec
PendingMap = ty.MapOf(ty.Int, PendingRec)


class _LoopStub:
    def create_future(self):
        c = cur()
        f = FutureStub(c.fresh(c.fresh_name("new_future"), INT))
        c.event("create_future", future=f)
        return f


class _AsyncioStub:
    def get_running_loop(self):
        return _LoopStub()

    def create_task(self, coro, name=None):
        c = cur()
        t = FutureStub(c.fresh(c.fresh_name("new_task"), INT))
        c.event("create_task", task=t, coro=coro, name=name)
        return t

    def gather(self, *a, **k):
        cur().event("gather", tasks=a)
        return None

    def __getattr__(self, name):
        return getattr(rpc.asyncio, name)


def _send_stream_stub(writer, call_id, body):
    c = cur()
    c.event("send", transport="stream", call_id=call_id, body=body)
    for exc in (ConnectionError,):
        if c.fork(c.fresh(c.fresh_name("send.fails"), BOOL)):
            raise exc("send failed [contract of StreamWriter]")
    if c.fork(c.fresh(c.fresh_name("send.cancelled"), BOOL)):
        raise rpc.asyncio.CancelledError("[contract of await]")


def _async_client(args):
    return ty.ObjOf(rpc.SocketAsyncRPCClient, dict(
        _pending=PendingMap, _counter=ty.Int, _recv_task=ty.Make(lambda n: FutureStub(cur().fresh(n, INT))),
        _writer=ty.Opaque("Writer"), _reader=ty.Opaque("Reader"), server_log_description=ty.Opt(ty.Str),
        socket_path=ty.Str, _stop_event=ty.Opaque("Event")), name="SocketAsyncRPCClient").fresh("self")


@contract("stepup/core/rpc.py::SocketAsyncRPCClient._ensure_connected", props=[], verify=False,
          note="opens the connection and starts the receive loop (outside C16's contracts)")
class async_ensure_connected_assumed:
    may_raise = {OSError: None}
    modifies = []


def _async_call_finish(c, outcome, args, old):
    """The future is registered under the call id before the request is sent; when sending fails the entry is
    removed again, so no caller is left waiting; the same id is used for both."""
    sends = [e for e in c.trace if e.kind == "send"]
    ids = [e for e in c.trace if e.kind == "call" and e.callee == "_SocketClientState._next_call_id"]
    futs = [e for e in c.trace if e.kind == "create_future"]
    me = args["self"]
    if sends:
        c.prove("one_fresh_id", len(ids) == 1 and len(futs) == 1, kind="post")
        if ids and futs:
            cid = ids[0].result
            c.prove("send_uses_fresh_id", sends[0].call_id == cid, kind="post")
    if outcome[0] == "raise" and sends and ids:
        # after a failed send, the entry is gone
        c.prove("failed_send_unregisters", ~me._pending.__contains__(ids[0].result), kind="post")


def _async_send_guard(e, self, trace):
    """At the moment of sending, the pending table maps the call id to the future the caller will await."""
    futs = [ev for ev in trace if ev.kind == "create_future"]
    if not futs:
        return False
    m = self._pending
    present = m.contains_t(e.call_id)
    stored = m.value_at(e.call_id)
    return wrap_bool(tm.And(present, tm.Eq(stored.future.id, futs[-1].future.id)))


@contract("stepup/core/rpc.py::SocketAsyncRPCClient.__call__", props=["C16"])
class async_call:
    args = dict(self=_async_client, name=ty.Str, args=lambda a: (), kwargs=lambda a: {})
    env = dict(_encode_body=_enc_body_stub, _send_stream_message=_send_stream_stub, asyncio=_AsyncioStub(),
               _decode_response=_decode_response_stub)
    events = {"send": _async_send_guard}
    may_raise = {ConnectionResetError: None, ConnectionError: None, OSError: None, rpc.asyncio.CancelledError: None,
                 RPCError: None}
    finish = _async_call_finish
    modifies = ["self._counter", "self._pending"]


class _Aclosing:
    def __init__(self, x):
        self.x = x

    def __aenter__(self):
        return self.x

    def __aexit__(self, *a):
        return False


class _ContextlibStub:
    aclosing = _Aclosing

    def __getattr__(self, name):
        import contextlib

        return getattr(contextlib, name)


Messages = ty.SeqOf(ty.TupleOf(ty.Int, ty.Opt(ty.Bytes)))


def _client_set_result_guard(e, trace, old):
    """A response resolves exactly the future registered under the call id it carries."""
    lp = cur().data.get("loops", {}).get(0)
    if lp is None:
        return False
    call_id, response = lp.current
    m = lp.pre.self._pending if hasattr(lp.pre, "self") else None
    m = cur().data["loop0.pending.before"]
    was = m.contains_t(call_id)
    stored = m.value_at(call_id)
    return wrap_bool(tm.And(was, tm.Eq(e.future.id, stored.future.id))) & sym.sym_eq_val(e.value, response)


def _client_recv_loop_setup(args):
    pass


@contract("stepup/core/rpc.py::SocketAsyncRPCClient._recv_loop", props=["C16"])
class client_recv_loop:
    args = dict(self=_async_client)
    env = dict(_iter_stream_messages=lambda r, s: Messages.fresh(cur().fresh_name("responses")),
               contextlib=_ContextlibStub())
    may_raise = {RPCError: None}
    events = {"future.set_result": lambda e, trace, old: _client_set_result_guard2(e),
              "future.set_exception": lambda e: _client_set_exception_guard(e)}
    # whatever ends the loop, no caller is left waiting: the table of pending calls is empty afterwards
    ensures = lambda self: wrap_bool(tm.Eq(I(_len(self._pending)), tm.mk_int(0)))
    modifies = ["self._pending"]
    loops = {0: LoopSpec(havoc=("self",), modifies={"self": ["_pending"]}),
             1: LoopSpec(havoc=("self",), modifies={"self": ["_pending"]})}

    @staticmethod
    def finish(c, outcome, args, old):
        if outcome[0] == "raise":
            c.prove("pending_empty_after_failure", tm.Eq(I(_len(args["self"]._pending)), tm.mk_int(0)), kind="post")


def _len(m):
    from vc import vcrt

    return vcrt.v_len(m)


def _client_set_result_guard2(e):
    """The future resolved in an iteration is the one that was registered under the received call id when the
    iteration began, and it receives the body of that response."""
    c = cur()
    lp = c.data.get("loops", {}).get(0)
    if lp is None or lp.i is None:
        return False
    call_id, response = lp.current
    pops = [ev for ev in c.trace if ev.kind == "map.pop" and ev.index >= lp.head_index]
    if not pops:
        return False
    p = pops[-1]
    return wrap_bool(tm.And(tm.Eq(I(p.key), I(call_id)), p.present, tm.Eq(e.future.id, p.value.future.id))) \
        & sym.sym_eq_val(e.value, response)


def _client_set_exception_guard(e):
    """Only futures that were still pending are failed."""
    c = cur()
    pops = [ev for ev in c.trace if ev.kind == "map.popitem"]
    if not pops:
        return False
    return wrap_bool(tm.Eq(e.future.id, pops[-1].value.future.id))


# ---------------------------------------------------------------- pairing: server side


class _QueueStub:
    def put_nowait(self, item):
        cur().event("completed.put", item=item)

    def get(self):
        return None


class _SetStub:
    """`self._tasks`: only membership changes matter here."""

    def add(self, t):
        cur().event("tasks.add", task=t)

    def discard(self, t):
        cur().event("tasks.discard", task=t)

    def __iter__(self):
        return iter(())


def _server_conn(args):
    return ty.ObjOf(rpc.RPCServerConnection, dict(
        handler=ty.Opaque("Handler"), reader=ty.Opaque("Reader"), writer=ty.Opaque("Writer"),
        _stop_event=ty.Make(lambda n: _EventStub()), _completed=ty.Make(lambda n: _QueueStub()),
        _tasks=ty.SetOf(FutureH)), name="RPCServerConnection").fresh("self")


class _EventStub:
    def set(self):
        cur().event("stop_event.set")

    def is_set(self):
        c = cur()
        return sym.SymBool(c.fresh(c.fresh_name("stop.is_set"), BOOL))


@contract("stepup/core/rpc.py::RPCServerConnection._queue_reply", props=["C16"])
class queue_reply:
    args = dict(self=_server_conn, call_id=ty.Int, task=FutureH)
    events = {"completed.put": lambda e, call_id, task: (e.item[0] == call_id) & wrap_bool(tm.Eq(e.item[1].id, task.id))}
    modifies = ["self._tasks"]

    @staticmethod
    def finish(c, outcome, args, old):
        puts = [e for e in c.trace if e.kind == "completed.put"]
        c.prove("queued_exactly_once", len(puts) == 1, kind="post")


class _Partial:
    def __init__(self, func, *args):
        self.func, self.args = func, args


def _decode_request_stub(body):
    c = cur()
    if c.fork(c.fresh(c.fresh_name("decode_request.fails"), BOOL)):
        raise RPCError("[contract of _decode_request]")
    call = sym.SymObj(rpc.RPCCall, dict(name=ty.Str.fresh(c.fresh_name("call.name")), args=(), kwargs={}),
                      name="RPCCall", frozen=True)
    c.event("decode_request", body=body, call=call)
    return call


def _capture_stub(handler, call):
    return ("coro", handler, call)


def _server_recv_finish(c, outcome, args, old):
    """In the iteration that receives (id, request): one task is created for the call decoded from that
    request, and its completion callback is bound to the same id."""
    # C15: calls in flight are cancelled only when the loop ends with an exception, and every path, normal or
    # not, waits for the calls in flight (gather) before leaving
    cancels = [e for e in c.trace if e.kind == "task.cancel"]
    if outcome[0] == "return":
        c.prove("no_cancel_on_normal_end", len(cancels) == 0, kind="post")
    if outcome[0] in ("return", "raise"):
        c.prove("waits_for_calls_in_flight", any(e.kind == "gather" for e in c.trace), kind="post")
    tasks = [e for e in c.trace if e.kind == "create_task"]
    cbs = [e for e in c.trace if e.kind == "task.add_done_callback"]
    decs = [e for e in c.trace if e.kind == "decode_request"]
    lp = c.data.get("loops", {}).get(0)
    if not tasks:
        return
    c.prove("one_task_per_request", len(tasks) == 1 and len(cbs) == 1 and len(decs) == 1 and lp is not None,
            kind="post")
    if len(tasks) == 1 and len(cbs) == 1 and len(decs) == 1 and lp is not None:
        call_id, request = lp.current
        cb = cbs[0].callback
        ok_cb = isinstance(cb, _Partial) and getattr(cb.func, "__name__", "") == "_queue_reply" and len(cb.args) == 1
        c.prove("callback_is_queue_reply", ok_cb, kind="post")
        if ok_cb:
            c.prove("callback_bound_to_received_id", cb.args[0] == call_id, kind="post")
        c.prove("callback_on_created_task", tm.Eq(cbs[0].task.id, tasks[0].task.id), kind="post")
        coro = tasks[0].coro
        c.prove("task_runs_decoded_call", isinstance(coro, tuple) and coro[2] is decs[0].call
                and coro[1] is args["self"].handler, kind="post")
        c.prove("decoded_from_same_message", sym.sym_eq_val(decs[0].body, request), kind="post")


@contract("stepup/core/rpc.py::RPCServerConnection._recv_loop", props=["C16", "C15"])
class server_recv_loop:
    args = dict(self=_server_conn)
    env = dict(_iter_stream_messages=lambda r, s: Messages.fresh(cur().fresh_name("requests")),
               contextlib=_ContextlibStub(), asyncio=_AsyncioStub(), _decode_request=_decode_request_stub,
               _call_and_capture_failure=_capture_stub, partial=_Partial)
    may_raise = {RPCError: None}
    finish = _server_recv_finish
    # C15: calls in flight are cancelled only while an exception is being handled (the guard runs inside the
    # real code's handler, where sys.exc_info() shows the exception in flight)
    events = {"task.cancel": lambda e: __import__("sys").exc_info()[1] is not None}
    modifies = ["self._tasks"]
    loops = {0: LoopSpec(havoc=("self",), modifies={"self": ["_tasks"]}), 1: LoopSpec()}


def _server_send_finish(c, outcome, args, old):
    """Per completed (id, task): nothing is sent for a cancelled task; otherwise exactly one message with that id
    is sent (the result, or the sentinel None when the result cannot be encoded), unless the peer is gone."""
    lp = c.data.get("loops", {}).get(0)
    if lp is None or lp.i is None:
        return
    call_id, task = lp.current
    sends = [e for e in c.trace if e.kind == "send" and e.index >= lp.head_index]
    for k, e in enumerate(sends):
        c.prove(f"send{k}.uses_completed_id", e.call_id == call_id, kind="post")
    bodies = [e for e in sends if e.body is not None]
    c.prove("at_most_one_result_message", len(bodies) <= 1, kind="post")
    c.prove("at_most_two_sends", len(sends) <= 2, kind="post")
    if len(sends) == 2:
        # the second one is the sentinel after a failed attempt
        c.prove("second_send_is_sentinel", sends[1].body is None, kind="post")


def _await_task(t):
    return ty.Opaque("Any").fresh(cur().fresh_name("task.result"))


def _enc_body_may_fail(payload):
    c = cur()
    if c.fork(c.fresh(c.fresh_name("pickle.fails"), BOOL)):
        raise TypeError("cannot pickle [contract of pickle.dumps]")
    return _enc_body_stub(payload)


def _send_stream_stub_server(writer, call_id, body):
    c = cur()
    c.event("send", transport="stream", call_id=call_id, body=body)
    if c.fork(c.fresh(c.fresh_name("send.fails"), BOOL)):
        raise ConnectionError("send failed [contract of StreamWriter]")


@contract("stepup/core/rpc.py::RPCServerConnection._send_loop", props=["C16", "C15"])
class server_send_loop:
    args = dict(self=_server_conn)
    # C15: a request that was received in full is applied in full, also when its reply (or the reply of another call on
    # the connection) can no longer be delivered: the loop that sends replies never cancels a call in flight
    events = {"task.cancel": lambda e: False}
    env = dict(iter_until_stopped=lambda get, ev: ty.SeqOf(ty.TupleOf(ty.Int, FutureH)).fresh(cur().fresh_name("completed")),
               contextlib=_ContextlibStub(), _encode_body=_enc_body_may_fail,
               _send_stream_message=_send_stream_stub_server)
    may_raise = {TypeError: None}
    finish = _server_send_finish
    modifies = []
    loops = {0: LoopSpec()}


# ---------------------------------------------------------------- exposure


class ProcStub:
    def __init__(self, name, has_flag, flag):
        self.name, self.has_flag, self.flag = name, has_flag, flag

    def __symgetattr__(self, name, default, missing):
        if name == "_allow_rpc":
            c = cur()
            if c.fork(self.has_flag):
                return sym.wrap_bool(self.flag)
            if default is missing:
                raise AttributeError(name)
            return default
        raise AttributeError(name)

    def __call__(self, *a, **k):
        cur().event("procedure.call", proc=self, args=a, kwargs=k)
        return None


class HandlerStub:
    def __symgetattr__(self, name, default, missing):
        c = cur()
        if c.fork(c.fresh(c.fresh_name("handler.has_attr"), BOOL)):
            return ProcStub(name, c.fresh(c.fresh_name("proc.has_flag"), BOOL), c.fresh(c.fresh_name("proc.flag"), BOOL))
        if default is missing:
            raise AttributeError(name)
        return default


class _InspectStub:
    class _Sig:
        def bind(self, *a, **k):
            c = cur()
            ok = c.fresh(c.fresh_name("bind.ok"), BOOL)
            c.event("bind", ok=ok)
            if not c.fork(ok):
                raise TypeError("arguments do not fit [contract of Signature.bind]")

    def signature(self, f):
        return _InspectStub._Sig()

    def isawaitable(self, x):
        return False


def _procedure_call_guard(e, trace):
    """The procedure is called only if it carries the allow_rpc mark and the arguments bind."""
    binds = [ev for ev in trace if ev.kind == "bind"]
    return wrap_bool(tm.And(e.proc.has_flag, e.proc.flag, binds[-1].ok if binds else tm.FALSE))


@contract("stepup/core/rpc.py::_call_procedure", props=["C16"])
class call_procedure:
    args = dict(handler=ty.Make(lambda n: HandlerStub()),
                call=lambda a: sym.SymObj(rpc.RPCCall, dict(name=ty.Str.fresh("call.name"), args=(), kwargs={}),
                                          name="RPCCall", frozen=True))
    env = dict(inspect=_InspectStub())
    may_raise = {RPCError: None}
    events = {"procedure.call": _procedure_call_guard}
    modifies = []


# ---------------------------------------------------------------- failure mapping

UsageError = excmod.UsageError


class _RaisableStub(Exception):
    """What to_exception returns, as seen by a caller that only raises it."""


class ExcStub:
    """An arbitrary exception instance; whether its class derives from UsageError is a symbolic fact."""

    def __init__(self, name):
        c = cur()
        self.is_usage = c.fresh(name + ".is_usage", BOOL)
        self.module = ty.Str.fresh(name + ".module")
        self.qualname = ty.Str.fresh(name + ".qualname")
        self.__traceback__ = None

    def __syminstance__(self, cls):
        if cls is UsageError:
            return sym.wrap_bool(self.is_usage)
        return False

    def __symtype__(self):
        return _TypeStub(self)


class _TypeStub:
    def __init__(self, exc):
        self.__module__ = exc.module
        self.__qualname__ = exc.qualname


class _TracebackStub:
    def format_exception(self, *a, **k):
        return ["traceback"]


RemoteFailureRec = ty.Rec(rpc.RemoteFailure, dict(module=ty.Str, qualname=ty.Str, message=ty.Str,
                                                  traceback_text=ty.Str, usage=ty.Bool))
engine.CLASS_SPECS[rpc.RemoteFailure] = RemoteFailureRec


def _from_exception_post(exc, result):
    if isinstance(exc, ExcStub):
        return wrap_bool(tm.Iff(B(result.usage), exc.is_usage)) & (result.module == exc.module) \
            & (result.qualname == exc.qualname)
    # a concrete exception object (when used as a callee contract)
    return wrap_bool(tm.Iff(B(result.usage), tm.mk_bool(isinstance(exc, UsageError))))


@contract("stepup/core/rpc.py::RemoteFailure.from_exception", props=["C16"])
class from_exception:
    """The usage flag says exactly whether the server-side exception is a UsageError."""

    args = dict(cls=lambda a: engine.RepoClass(rpc.RemoteFailure), exc=ty.Make(ExcStub))
    env = dict(traceback=_TracebackStub())
    ensures = lambda exc, result: _from_exception_post(exc, result)
    result = RemoteFailureRec
    modifies = []


class _ClsStub:
    def __init__(self):
        c = cur()
        self.is_type = c.fresh(c.fresh_name("cls.is_type"), BOOL)
        self.is_usage_subclass = c.fresh(c.fresh_name("cls.is_usage_subclass"), BOOL)

    def __syminstance__(self, cls):
        if cls is type:
            return sym.wrap_bool(self.is_type)
        return False

    def __symsubclass__(self, classinfo):
        if classinfo is UsageError:
            return sym.wrap_bool(self.is_usage_subclass)
        raise sym.Unsupported("issubclass of a class stub against something else than UsageError")

    def __call__(self, message):
        c = cur()
        if c.fork(c.fresh(c.fresh_name("cls.ctor_fails"), BOOL)):
            raise TypeError("constructor needs other arguments [contract]")
        return _InstStub(self, message)


class _InstStub:
    def __init__(self, cls, message):
        self.cls, self.message = cls, message


class _ModStub:
    def __symgetattr__(self, name, default, missing):
        c = cur()
        if c.fork(c.fresh(c.fresh_name("module.has_attr"), BOOL)):
            return _ClsStub()
        raise AttributeError(name)


class _ImportlibStub:
    def import_module(self, name):
        c = cur()
        if c.fork(c.fresh(c.fresh_name("import.fails"), BOOL)):
            raise ImportError("no such module [contract]")
        return _ModStub()


def _to_exception_post(self, result):
    """The client re-creates only UsageError subclasses; anything else becomes an RPCError."""
    if isinstance(result, (RPCError, _RaisableStub)):
        return True
    if isinstance(result, _InstStub):
        return sym.wrap_bool(tm.And(result.cls.is_type, result.cls.is_usage_subclass)) & sym.sym_eq(result.message, self.message)
    return False


@contract("stepup/core/rpc.py::RemoteFailure.to_exception", props=["C16"])
class to_exception:
    args = dict(self=RemoteFailureRec)
    env = dict(importlib=_ImportlibStub())
    ensures = _to_exception_post
    result = lambda: ty.Make(lambda n: _RaisableStub(n))
    modifies = []


def _rre_finish(c, outcome, args, old):
    """Raises the re-created usage error iff the failure is flagged usage and debugging is off; otherwise an
    RPCError that embeds the server traceback."""
    dbg = c.data.get("is_debug")
    if outcome[0] != "raise":
        c.prove("always_raises", False, kind="post")
        return
    e = outcome[1]
    te = [ev for ev in c.trace if ev.kind == "call" and ev.callee == "RemoteFailure.to_exception"]
    usage = B(args["failure"].usage)
    want_original = tm.And(usage, tm.Not(dbg)) if dbg is not None else usage
    if te and e is te[0].result:
        c.prove("original_only_if_usage_and_not_debug", want_original, kind="post")
    else:
        c.prove("rpc_error_otherwise", tm.And(tm.mk_bool(isinstance(e, RPCError)), tm.Not(want_original)), kind="post")


def _is_debug_stub():
    return sym.SymBool(cur().data["is_debug"])


@contract("stepup/core/rpc.py::_raise_remote_error", props=["C16"])
class raise_remote_error:
    args = dict(failure=RemoteFailureRec, call=ty.Opaque("RPCCall"))
    env = dict(is_debug=_is_debug_stub)
    setup = lambda args: cur().data.__setitem__("is_debug", cur().fresh("is_debug", BOOL))
    may_raise = {BaseException: None}
    finish = _rre_finish
    modifies = []


# ---------------------------------------------------------------- a started call always ends in a reply


def _call_procedure_may_fail(handler, call):
    """Assumed: the procedure may raise anything, including BaseException subclasses such as CancelledError."""
    c = cur()
    for exc in (RuntimeError, excmod.UsageError, rpc.asyncio.CancelledError, KeyboardInterrupt, SystemExit):
        if c.fork(c.fresh(c.fresh_name("procedure.raises." + exc.__name__), BOOL)):
            raise exc("[contract of _call_procedure]")
    return ty.Opaque("Any").fresh(c.fresh_name("procedure.result"))


@contract("stepup/core/rpc.py::_call_and_capture_failure", props=["C16"])
class call_and_capture_failure:
    """Never raises: whatever the procedure raises becomes a RemoteFailure reply."""

    args = dict(handler=ty.Opaque("Handler"), call=ty.Opaque("RPCCall"))
    env = dict(_call_procedure=_call_procedure_may_fail, traceback=_TracebackStub())
    may_raise = {}
    modifies = []

    @staticmethod
    def finish(c, outcome, args, old):
        if outcome[0] == "return":
            raised = any(e.kind == "call" and e.callee == "RemoteFailure.from_exception" for e in c.trace)
            r = outcome[1]
            is_failure = isinstance(r, sym.SymObj) and r._cls is rpc.RemoteFailure
            c.prove("failure_iff_exception", is_failure == raised, kind="post")


@bounded("readexactly_fragmentations", props=["C16"],
         bound="three messages (bodies of 0, 5 and 1 bytes); every split of the byte stream into at most 4 fragments "
               "(quick) / every split into any number of fragments up to length 40 (thorough); real _SocketReader "
               "over a fake socket; also a 9000-byte body in 4096-byte fragments")
def readexactly_fragmentations(tier, seed):
    import itertools

    enc = rpc._encode_message
    msgs = [(7, None), (8, b"hello"), (2**40 + 1, b"x")]
    stream = b"".join(enc(i, b) for i, b in msgs)

    class FakeSock:
        def __init__(self, frags):
            self.frags = list(frags)

        def recv(self, n):
            if not self.frags:
                return b""
            f = self.frags[0]
            if len(f) <= n:
                self.frags.pop(0)
                return f
            self.frags[0] = f[n:]
            return f[:n]

    def run(frags):
        reader = rpc._SocketReader(FakeSock(frags), "fake")
        out = []
        for _ in msgs:
            out.append(rpc._recv_socket_message(reader))
        return out

    failures = []
    evals = 0
    n = len(stream)
    maxcuts = 3 if tier == "quick" else 5
    for k in range(0, maxcuts + 1):
        for cuts in itertools.combinations(range(1, n), k):
            pts = [0, *cuts, n]
            frags = [stream[a:b] for a, b in zip(pts, pts[1:])]
            evals += 1
            try:
                got = run(frags)
            except Exception as e:  # noqa: BLE001
                got = repr(e)
            if got != msgs:
                failures.append(dict(cuts=list(cuts), got=repr(got)[:200], expected=repr(msgs)))
                if len(failures) > 3:
                    return dict(evaluations=evals, failures=failures)
    big = [(1, bytes(range(256)) * 36), (2, b"ok")]
    s2 = b"".join(enc(i, b) for i, b in big)
    reader = rpc._SocketReader(FakeSock([s2]), "fake")
    evals += 1
    try:
        got = [rpc._recv_socket_message(reader) for _ in big]
    except Exception as e:  # noqa: BLE001
        got = repr(e)
    if got != big:
        failures.append(dict(case="9216-byte body in 4096-byte fragments", got=repr(got)[:200]))
    return dict(evaluations=evals, failures=failures)


# ---------------------------------------------------------------- _send_stream_message: one frame, handed over whole


class _StreamWriterStub:
    """asyncio.StreamWriter as far as sending a frame goes: write(data) buffers synchronously (never yields), drain()
    is awaited and may yield to other coroutines that share the writer."""

    def __init__(self, name):
        self.name = name

    def write(self, data):
        cur().event("writer.write", payload=data)

    def drain(self):
        from vc import vcrt

        def body():
            cur().event("writer.drain")

        return vcrt.Coro(lambda: body(), (), {})


def _ssm_finish(c, outcome, args, old):
    """The whole encoded message goes to the writer in ONE write call, before the function first yields: several
    coroutines share one StreamWriter (SocketAsyncRPCClient.__call__), and a frame written in pieces with a drain in
    between lets another caller's frame land inside it."""
    if outcome[0] != "return":
        return
    writes = [e for e in c.trace if e.kind == "writer.write"]
    awaits = [e for e in c.trace if e.kind in ("await", "writer.drain")]
    c.prove("one_write_per_frame", tm.mk_bool(len(writes) == 1), kind="trace", detail=f"{len(writes)} write call(s)")
    if len(writes) == 1:
        want = enc_t(I(args["call_id"]), *_body_parts(args["body"]))
        c.prove("the_write_is_the_whole_frame", tm.Eq(S(writes[0].payload), want), kind="post")
        c.prove("nothing_is_awaited_before_the_frame_is_written", tm.mk_bool(all(a.index > writes[0].index for a in awaits)), kind="trace")
    c.prove("the_writer_is_drained", tm.mk_bool(any(e.kind == "writer.drain" for e in c.trace)), kind="trace")


@contract("stepup/core/rpc.py::_send_stream_message", props=["C16"])
class send_stream_message:
    args = dict(writer=ty.Make(_StreamWriterStub), call_id=ty.Int, body=ty.Opt(ty.Bytes))
    requires = lambda call_id, body: (call_id >= 0) & (call_id < TWO64) & wrap_bool(
        tm.Lt(tm.Len(_body_parts(body)[1]), tm.mk_int(TWO64)))
    finish = _ssm_finish
    modifies = []


# ---------------------------------------------------------------- one failing connection does not disturb the others

from vc.report import structural  # noqa: E402


@structural("C16/scan/connections_are_isolated", props=["C16"],
            note="SocketRPCServer.serve hands _serve_connection itself to asyncio.start_unix_server: asyncio runs it in a "
                 "task of its own per connection, whose failure (RPCServerConnection.serve raises by design for a "
                 "malformed frame) is logged and ends that connection only.  No task group or gather joins the "
                 "connection tasks with each other or with the wait for the stop event.")
def connections_are_isolated():
    import ast

    out = []
    _, serve = extract.find_def("stepup/core/rpc.py", "SocketRPCServer.serve")
    _, conn = extract.find_def("stepup/core/rpc.py", "SocketRPCServer._serve_connection")
    starts = [c for c in ast.walk(serve) if isinstance(c, ast.Call) and ast.unparse(c.func).endswith("start_unix_server")]
    cb = [ast.unparse(c.args[0]) if c.args else next((ast.unparse(k.value) for k in c.keywords if k.arg == "client_connected_cb"), None)
          for c in starts]
    out.append(("scan/connections_are_isolated/asyncio_runs_one_task_per_connection",
                cb == [f"self.{conn.name}"] and isinstance(conn, ast.AsyncFunctionDef), f"callbacks: {cb}"))
    joined = sorted({ast.unparse(c.func) for fn in (serve, conn) for c in ast.walk(fn) if isinstance(c, ast.Call)
                     and any(w in ast.unparse(c.func) for w in ("TaskGroup", "gather", "create_task", "ensure_future", "wait_for"))})
    out.append(("scan/connections_are_isolated/no_shared_task_group", not joined, f"joining constructs: {joined}"))
    return out


@structural("C16/scan/reply_queue_is_unbounded", props=["C16"],
            note="RPCServerConnection._completed is an asyncio.Queue without a size limit: put_nowait (the stand-in of the "
                 "_queue_reply contract never fails) cannot raise QueueFull, so every completed call reaches the send loop "
                 "however many calls complete in one turn of the event loop")
def reply_queue_is_unbounded():
    import ast

    _, cls = extract.find_def("stepup/core/rpc.py", "RPCServerConnection")
    fields = [n for n in cls.body if isinstance(n, ast.AnnAssign) and ast.unparse(n.target) == "_completed"]
    ok = False
    detail = "no field _completed"
    if len(fields) == 1 and isinstance(fields[0].value, ast.Call):
        kws = {k.arg: ast.unparse(k.value) for k in fields[0].value.keywords}
        ok = kws.get("factory") == "asyncio.Queue" and "default" not in kws
        detail = str(kws)
    _, qr = extract.find_def("stepup/core/rpc.py", "RPCServerConnection._queue_reply")
    handlers = [ast.unparse(h.type) if h.type else "bare" for t in ast.walk(qr) if isinstance(t, ast.Try) for h in t.handlers]
    return [("scan/reply_queue_is_unbounded/factory_is_a_plain_queue", ok, detail),
            ("scan/reply_queue_is_unbounded/queue_reply_has_no_failure_branch", not handlers, f"except clauses: {handlers}")]
