"""C13: change detection by hashes is sound — contracts on stepup/core/hash.py."""

from __future__ import annotations

from contracts import trusted
from contracts.trusted import GhostHashSpec
from specs import hashspec as hs
from vc import engine, extract, sym
from vc import terms as tm
from vc import types as ty
from vc.engine import LoopSpec, contract
from vc.sym import B, S, wrap_bool, wrap_bytes

hashmod = extract.import_module("stepup/core/hash.py")
HashWords, FileHash, StepHash = hashmod.HashWords, hashmod.FileHash, hashmod.StepHash

TWO64 = 2**64


def valid_file_hash(fh):
    """Class invariant of FileHash: what `refreshed` / `unknown` construct (proved below)."""
    return ((fh.mode >= 0) & (fh.mode < TWO64) & (fh.size >= 0) & (fh.size < TWO64)
            & (((sym.wrap_int(tm.Len(S(fh.digest))) == 32) & (fh.mode != 0))
               | ((fh.digest == b"u") & (fh.mode == 0) & (fh.size == 0))))


FileHashRec = ty.Rec(FileHash, dict(digest=ty.Bytes, mode=ty.Int, mtime=ty.Float, size=ty.Int,
                                    inode=ty.Int),
                     eq=[f.name for f in engine.attrs_fields(FileHash) if f.eq],
                     invariant=valid_file_hash)
engine.CLASS_SPECS[FileHash] = FileHashRec
HashWordsObj = ty.ObjOf(HashWords, dict(_hash=GhostHashSpec()))
FileMap = ty.MapOf(ty.Str, FileHashRec)
EnvMap = ty.MapOf(ty.Str, ty.Opt(ty.Str))
OvrMap = ty.MapOf(ty.Str, ty.Str)


def fed(hw):
    return hw._hash.fed


@contract("stepup/core/hash.py::HashWords.update", props=["C13"])
class update:
    args = dict(self=HashWordsObj, word=ty.OneOf(ty.Str, ty.Bytes, ty.NoneT, ty.Other()))
    raises = {TypeError: lambda word: isinstance(sym.resolve(word), ty.Other.Thing)}
    ensures = lambda self, word, old: fed(self) == fed(old.self) + hs.tok(word)
    modifies = ["self._hash"]


@contract("stepup/core/hash.py::HashWords.digest", props=["C13"])
class digest:
    args = dict(self=HashWordsObj)
    ensures = lambda self, result: result == wrap_bytes(trusted.sha256_term(S(fed(self))))
    result = ty.Bytes
    modifies = []


@contract("stepup/core/hash.py::_update_file_hashes", props=["C13"])
class update_file_hashes:
    args = dict(hw=HashWordsObj, file_hashes=FileMap)
    ensures = lambda hw, file_hashes, old: fed(hw) == fed(old.hw) + wrap_bytes(hs.FILES_all(file_hashes))
    modifies = ["hw._hash"]
    loops = {0: LoopSpec(
        invariant=lambda e: fed(e.hw) == fed(e.old.hw) + wrap_bytes(hs.FILES(e.file_hashes, sym.I(e.i))),
        facts=lambda e: hs.FILES_unfold(e.file_hashes, sym.I(e.i)),
        modifies={"hw": ["_hash"]},
    )}


def _ovr_all(m):
    return hs.OVR_all(m)


@contract("stepup/core/hash.py::StepHash.from_inp", props=["C13"])
class from_inp:
    args = dict(cls=lambda a: engine.RepoClass(StepHash), step_label=ty.Str, inp_hashes=FileMap,
                env_values=EnvMap, explained=ty.Bool, shell=ty.Bool, env_overrides=ty.Opt(OvrMap))
    ensures_named = dict(
        inp_digest=lambda step_label, inp_hashes, env_values, shell, env_overrides, result:
            result.inp_digest == wrap_bytes(trusted.sha256_term(
                hs.INP(step_label, shell, inp_hashes, env_values, env_overrides))),
        out_digest=lambda result: sym.is_(result.out_digest, None),
        explained=lambda result, explained: wrap_bool(tm.Iff(B(sym.is_(result.inp_info, None)),
                                                             tm.Not(B(explained)))),
    )
    modifies = []
    loops = {
        0: LoopSpec(
            invariant=lambda e: fed(e.hw) == wrap_bytes(tm.Concat(
                hs.INP_head(e.step_label, e.shell, e.inp_hashes), hs.ENV(e.env_values, sym.I(e.i)))),
            facts=lambda e: hs.ENV_unfold(e.env_values, sym.I(e.i)),
            modifies={"hw": ["_hash"]}),
        1: LoopSpec(
            invariant=lambda e: fed(e.hw) == wrap_bytes(tm.Concat(
                hs.INP_mid(e.step_label, e.shell, e.inp_hashes, e.env_values),
                hs.OVR(e.env_overrides, sym.I(e.i)))),
            facts=lambda e: hs.OVR_unfold(e.env_overrides, sym.I(e.i)),
            modifies={"hw": ["_hash"]}),
    }


StepHashRec = ty.Rec(StepHash, dict(inp_digest=ty.Bytes, inp_info=ty.Opt(ty.Opaque("InpInfo")),
                                    out_digest=ty.Opt(ty.Bytes), out_info=ty.Opt(ty.Opaque("OutInfo"))))


@contract("stepup/core/hash.py::StepHash.with_out_hashes", props=["C13"])
class with_out_hashes:
    args = dict(self=StepHashRec, out_hashes=FileMap)
    ensures_named = dict(
        out_digest=lambda out_hashes, result:
            result.out_digest == wrap_bytes(trusted.sha256_term(hs.FILES_all(out_hashes))),
        inp_kept=lambda self, result: (result.inp_digest == self.inp_digest)
            & sym.sym_eq(result.inp_info, self.inp_info),
    )
    modifies = []


# ---------------------------------------------------------------- file digests and refreshed()

from contracts.trusted import CancelEvent, FS_ENV, file_content  # noqa: E402
from vc.sym import SymBytes, SymStr  # noqa: E402

excmod = extract.import_module("stepup/core/exceptions.py")
HashCancelledError, HashFailedError = excmod.HashCancelledError, excmod.HashFailedError


def content_digest(path):
    return wrap_bytes(trusted.sha256_term(file_content(S(path))))


@contract("stepup/core/hash.py::compute_file_digest", props=["C13"])
class compute_file_digest:
    args = dict(path=ty.Str, follow_symlinks=ty.Bool, cancel_event=ty.Opt(ty.Make(CancelEvent)))
    env = FS_ENV
    requires = lambda follow_symlinks: follow_symlinks == True  # noqa: E712  (the only use in core)
    may_raise = {HashCancelledError: lambda cancel_event: ~sym.wrap_bool(cancel_event.isnone)
                 if isinstance(cancel_event, sym.SymOpt) else cancel_event is not None,
                 HashFailedError: None, OSError: None}
    ensures = lambda path, result: result == content_digest(path)
    result = ty.Bytes
    modifies = []
    loops = {0: LoopSpec(
        invariant=lambda e: (e.digest.fed == wrap_bytes(
            tm.Substr(e.fh.content, tm.mk_int(0), sym.I(e.fh.pos))))
            & (e.fh.pos >= 0) & sym.wrap_bool(tm.Le(sym.I(e.fh.pos), tm.Len(e.fh.content))),
        decreases=lambda e: sym.wrap_int(tm.Sub(tm.Len(e.fh.content), sym.I(e.fh.pos))),
        havoc=("fh", "buf", "digest"))}


def _stat_event(trace):
    evs = [e for e in trace if e.kind == "os.stat"]
    return evs[0] if evs else None


def is_unknown_rec(fh):
    return (fh.digest == b"u") & (fh.mode == 0) & (fh.size == 0)


def same_object(a, b):
    """`a is b` for frozen value objects: identity, or equality of every field (which no observer but `is`
    can tell apart)."""
    r = sym.is_(a, b)
    if r is True:
        return True
    return sym.sym_eq_val(a, b)


def _refreshed_post(self, path, result, trace):
    if trace is None:
        # used as a callee contract: the stat outcome is internal; only the clause `valid` is exported
        return True
    ev = _stat_event(trace)
    if ev is None:
        return False
    if not ev.ok:
        # stat failed: unknown; `self` is returned when it already is unknown
        return is_unknown_rec(result) & sym.wrap_bool(tm.Implies(B(self.digest == b"u"), B(same_object(result, self))))
    st = ev.st
    same = ((self.mode == st.st_mode) & sym.sym_eq(self.mtime, st.st_mtime) & (self.size == st.st_size)
            & (self.inode == st.st_ino))
    fresh = ((result.digest == content_digest(path)) & (result.mode == st.st_mode)
             & (result.size == st.st_size) & (result.inode == st.st_ino)
             & sym.sym_eq(result.mtime, st.st_mtime))
    # property: "reported as changed whenever its modification time, size, inode or mode differs":
    # only when all four agree may the recorded hash be returned; otherwise the content is re-read.
    return sym.wrap_bool(tm.Ite(B(same), B(same_object(result, self)), B(fresh)))


@contract("stepup/core/hash.py::FileHash.refreshed", props=["C13", "C04", "C06", "C03"])
class refreshed:
    args = dict(self=FileHashRec, path=ty.Str, cancel_event=ty.Opt(ty.Make(CancelEvent)))
    env = FS_ENV
    may_raise = {HashCancelledError: lambda cancel_event: cancel_event is not None,
                 HashFailedError: None, OSError: None}
    ensures_named = dict(
        result=_refreshed_post,
        valid=lambda result: valid_file_hash(result),
    )
    result = FileHashRec
    modifies = []


def replay_refreshed(o):
    """The counter-model is a stat result that differs from the recorded one in some of mode / mtime / size / inode
    while the recorded hash is returned.  Its concrete forms on the real function: a file replaced by another one
    (new inode) of the same size with the same mtime; an in-place rewrite of the same size with the mtime restored; a
    chmod.  In each case the result has to describe the file that is on disk now."""
    code = (
        "import hashlib, os, sys, tempfile\n"
        "from stepup.core.hash import FileHash\n"
        "bad = []\n"
        "with tempfile.TemporaryDirectory() as d:\n"
        "    p = os.path.join(d, 'f.txt')\n"
        "    def rec(data):\n"
        "        with open(p, 'wb') as f: f.write(data)\n"
        "        return FileHash.unknown().refreshed(p), os.stat(p)\n"
        "    def judge(what, old):\n"
        "        new = old.refreshed(p)\n"
        "        st = os.stat(p)\n"
        "        want = hashlib.sha256(open(p, 'rb').read()).digest()\n"
        "        if new.digest != want or new.mode != st.st_mode or new.inode != st.st_ino or new.size != st.st_size:\n"
        "            bad.append((what, new))\n"
        "    old, st = rec(b'built by the step\\n')\n"
        "    q = p + '.new'\n"
        "    with open(q, 'wb') as f: f.write(b'edited by a user.\\n')\n"
        "    os.utime(q, ns=(st.st_atime_ns, st.st_mtime_ns)); os.replace(q, p)\n"
        "    judge('replaced by a file of the same size and mtime (new inode)', old)\n"
        "    old, st = rec(b'built by the step\\n')\n"
        "    os.chmod(p, 0o755)\n"
        "    os.utime(p, ns=(st.st_atime_ns, st.st_mtime_ns))\n"
        "    judge('chmod', old)\n"
        "for what, new in bad:\n"
        "    print('refreshed() after the file was', what, 'does not describe the file on disk:', new)\n"
        "sys.exit(1 if bad else 0)\n")
    import subprocess

    r = subprocess.run(["/venv/bin/python", "-c", code], cwd=extract.REPO, capture_output=True, text=True,
                       env={"PYTHONPATH": extract.REPO, "PATH": "/usr/bin:/bin"})
    return dict(reproduced=r.returncode == 1, python=code, output=(r.stdout + r.stderr)[-1500:],
                witness=dict(claim="the recorded hash (or its digest) is kept although mode, mtime, size or inode differ"))


from vc.report import replayer  # noqa: E402

for _p in ("C13", "C04", "C06", "C03"):
    replayer(f"{_p}/FileHash.refreshed/post.result")(replay_refreshed)


@contract("stepup/core/hash.py::FileHash.unknown", props=["C13"])
class unknown:
    args = dict(cls=lambda a: engine.RepoClass(FileHash))
    ensures = lambda result: is_unknown_rec(result) & valid_file_hash(result)
    result = FileHashRec
    modifies = []


@contract("stepup/core/hash.py::FileHash.is_unknown", props=["C13"])
class is_unknown:
    args = dict(self=FileHashRec)
    # under the class invariant, the digest placeholder alone identifies an unknown hash
    ensures = lambda self, result: sym.wrap_bool(tm.Iff(B(result), B(is_unknown_rec(self))))
    result = ty.Bool
    modifies = []


# ---------------------------------------------------------------- the stored form (cattrs: outside the VC generator)

from vc.report import structural  # noqa: E402


@structural("C13/scan/serializers", props=["C13"],
            note="FileHash / StepHash .to_json and .from_json are json.dumps(json_converter.unstructure(self)) and "
                 "json_converter.structure(json.loads(value), cls) -- functions of all fields of this very object: no "
                 "decorator other than classmethod (a value-keyed cache would answer with the form of an object that "
                 "only compares equal).  What cattrs does with the fields is the bounded stand-in json_roundtrip.")
def serializers():
    import ast

    out = []
    for cls in ("FileHash", "StepHash"):
        for meth, want in (("to_json", "json.dumps(json_converter.unstructure(self))"),
                           ("from_json", "json_converter.structure(json.loads(value), cls)")):
            _, node = extract.find_def("stepup/core/hash.py", f"{cls}.{meth}")
            decos = [ast.unparse(d) for d in node.decorator_list]
            out.append((f"scan/serializers/{cls}.{meth}.undecorated", set(decos) <= {"classmethod"}, f"decorators: {decos}"))
            last = node.body[-1]
            got = ast.unparse(last.value) if isinstance(last, ast.Return) and last.value is not None else None
            out.append((f"scan/serializers/{cls}.{meth}.whole_object", got == want, f"final return: {got}"))
    return out
