"""C13: injectivity of the spec streams of specs/hashspec.py (unique readability).

Grammar of the input stream (tokens as in hashspec.tok):
    tok(label) tok("__shell__") tokb(flag) tok("__inp_paths__") REC* tok("__env_vars__") PAIR*
    tok("__env_overrides__") OPAIR*
Every lemma has the shape required by the induction schema (DESIGN 3.8):
  H1  element(a) ++ r = element(a') ++ r'  and r, r' admissible continuations  implies  a = a', r = r'
  H3  element(a) ++ r  differs from  terminator ++ z   for admissible r, z
The schema itself (H1, H3 for every section imply injectivity of the whole stream) is checked in
Lean (specs/lean/Inject.lean) when `lean` is available, see report of the thorough tier.
"""

from __future__ import annotations

from specs import hashspec as hs
from vc import sym
from vc import terms as tm
from vc import types as ty
from vc.report import lemma, replayer
from vc.sym import cur
from vc.terms import INT, STR

NUL = tm.mk_str("\0")
STRM = tm.mk_bytes(b"\0\1")   # marker of a str word
BYTM = tm.mk_bytes(b"\0\0")   # marker of a bytes word
NONM = tm.mk_bytes(b"\0\2")   # marker of None
OVR_NAME_MARKER = BYTM        # marker that begins an override pair (override names are bytes words)


def var(name, sort=STR):
    return cur().fresh(name, sort)


def nulfree(t):
    return tm.Not(tm.Contains(t, NUL))


def starts(t, p):
    return tm.PrefixOf(p, t)


def assume(t):
    cur().assume(sym.wrap_bool(t))


def cont_str(t):
    """Continuation that is empty or begins with a str word."""
    return tm.Or(tm.Eq(t, tm.mk_str("")), starts(t, STRM))


def any_tok(t):
    return tm.Or(tm.Eq(t, tm.mk_str("")), starts(t, NUL))


def valid_fh(mode, size, digest):
    two64 = tm.mk_int(2**64)
    rng = tm.And(tm.Ge(mode, tm.mk_int(0)), tm.Lt(mode, two64), tm.Ge(size, tm.mk_int(0)), tm.Lt(size, two64))
    return tm.And(rng, tm.Or(tm.And(tm.Eq(tm.Len(digest), tm.mk_int(32)), tm.Ne(mode, tm.mk_int(0))),
                             tm.And(tm.Eq(digest, tm.mk_str("u")), tm.Eq(mode, tm.mk_int(0)),
                                    tm.Eq(size, tm.mk_int(0)))))


@lemma("C13/lemma/nulfree_prefix_selfdelim", props=["C13", "C16"],
       note="G1: a NUL-free word followed by nothing or by a NUL is determined by the concatenation")
def g1():
    u, u2, r, r2 = var("u"), var("u2"), var("r"), var("r2")
    assume(tm.And(nulfree(u), nulfree(u2), any_tok(r), any_tok(r2)))
    assume(tm.Eq(tm.Concat(u, r), tm.Concat(u2, r2)))
    return sym.wrap_bool(tm.And(tm.Eq(u, u2), tm.Eq(r, r2)))


def apply_g1(u, u2, r, r2):
    """Instance of G1 (proved above for all values) as a hypothesis of a later lemma."""
    assume(tm.Implies(tm.And(nulfree(u), nulfree(u2), any_tok(r), any_tok(r2),
                             tm.Eq(tm.Concat(u, r), tm.Concat(u2, r2))),
                      tm.And(tm.Eq(u, u2), tm.Eq(r, r2))))


@lemma("C13/lemma/tok_str_selfdelim", props=["C13", "C16"])
def tok_str_selfdelim():
    s, s2, r, r2 = var("s"), var("s2"), var("r"), var("r2")
    assume(tm.And(nulfree(s), nulfree(s2), any_tok(r), any_tok(r2)))
    assume(tm.Eq(tm.Concat(hs.tok_str_t(s), r), tm.Concat(hs.tok_str_t(s2), r2)))
    return sym.wrap_bool(tm.And(tm.Eq(s, s2), tm.Eq(r, r2)))


@lemma("C13/lemma/tok_str_selfdelim.needs_nulfree", props=["C13"], expect="sat",
       note="must-fail twin: without NUL-freeness the token is not self-delimiting")
def tok_str_twin():
    s, s2, r, r2 = var("s"), var("s2"), var("r"), var("r2")
    assume(tm.And(any_tok(r), any_tok(r2)))
    assume(tm.Eq(tm.Concat(hs.tok_str_t(s), r), tm.Concat(hs.tok_str_t(s2), r2)))
    return sym.wrap_bool(tm.Ne(s, s2))


@lemma("C13/lemma/head_injective", props=["C13"])
def head_injective():
    l, l2, x, x2 = var("l"), var("l2"), var("x"), var("x2")
    b, b2 = var("b", INT), var("b2", INT)
    assume(tm.And(nulfree(l), nulfree(l2)))
    assume(tm.And(tm.Ge(b, tm.mk_int(0)), tm.Le(b, tm.mk_int(1)), tm.Ge(b2, tm.mk_int(0)), tm.Le(b2, tm.mk_int(1))))

    def head(lbl, byte, rest):
        return tm.Concat(hs.tok_str_t(lbl), hs.tok_str_t(tm.mk_str("__shell__")),
                         hs.tok_bytes_t(tm.FromCode(byte)), hs.tok_str_t(tm.mk_str("__inp_paths__")), rest)

    assume(tm.Eq(head(l, b, x), head(l2, b2, x2)))
    return sym.wrap_bool(tm.And(tm.Eq(l, l2), tm.Eq(b, b2), tm.Eq(x, x2)))


def _rec_vars(sfx):
    return (var("p" + sfx), var("m" + sfx, INT), var("z" + sfx, INT), var("d" + sfx))


@lemma("C13/lemma/record_selfdelim", props=["C13"], timeout=60)
def record_selfdelim():
    p, m, z, d = _rec_vars("1")
    p2, m2, z2, d2 = _rec_vars("2")
    r, r2 = var("r"), var("r2")
    assume(tm.And(nulfree(p), nulfree(p2), valid_fh(m, z, d), valid_fh(m2, z2, d2),
                  starts(r, STRM), starts(r2, STRM)))
    assume(tm.Eq(tm.Concat(hs.rec_t(p, m, z, d), r), tm.Concat(hs.rec_t(p2, m2, z2, d2), r2)))
    _rec_g1(p, m, z, d, r, p2, m2, z2, d2, r2)
    return sym.wrap_bool(tm.And(tm.Eq(p, p2), tm.Eq(m, m2), tm.Eq(z, z2), tm.Eq(d, d2), tm.Eq(r, r2)))


def _rec_tail(m, z, d, r):
    return tm.Concat(hs.tok_bytes_t(sym.be_encode(m, 8)), hs.tok_bytes_t(sym.be_encode(z, 8)),
                     hs.tok_bytes_t(d), r)


def _rec_g1(p, m, z, d, r, p2, m2, z2, d2, r2):
    apply_g1(sym.utf8(p), sym.utf8(p2), _rec_tail(m, z, d, r), _rec_tail(m2, z2, d2, r2))


@lemma("C13/lemma/record_selfdelim.at_end", props=["C13"], timeout=60,
       note="the output stream FILES ends after the last record: continuation empty or a record")
def record_selfdelim_end():
    p, m, z, d = _rec_vars("1")
    p2, m2, z2, d2 = _rec_vars("2")
    r, r2 = var("r"), var("r2")
    assume(tm.And(nulfree(p), nulfree(p2), valid_fh(m, z, d), valid_fh(m2, z2, d2), cont_str(r), cont_str(r2)))
    assume(tm.Eq(tm.Concat(hs.rec_t(p, m, z, d), r), tm.Concat(hs.rec_t(p2, m2, z2, d2), r2)))
    _rec_g1(p, m, z, d, r, p2, m2, z2, d2, r2)
    return sym.wrap_bool(tm.And(tm.Eq(p, p2), tm.Eq(m, m2), tm.Eq(z, z2), tm.Eq(d, d2), tm.Eq(r, r2)))


@lemma("C13/lemma/record_vs_env_keyword", props=["C13"])
def record_vs_keyword():
    p, m, z, d = _rec_vars("1")
    r, y = var("r"), var("y")
    assume(tm.And(nulfree(p), valid_fh(m, z, d), starts(r, STRM), cont_str(y)))
    assume(tm.Eq(tm.Concat(hs.rec_t(p, m, z, d), r), tm.Concat(hs.tok_str_t(tm.mk_str("__env_vars__")), y)))
    return False


def pair_t(name, isnone, val):
    return tm.Concat(hs.tok_str_t(name), tm.Ite(isnone, NONM, hs.tok_str_t(val)))


@lemma("C13/lemma/envpair_selfdelim", props=["C13"])
def envpair_selfdelim():
    n, v, n2, v2, r, r2 = var("n"), var("v"), var("n2"), var("v2"), var("r"), var("r2")
    u, u2 = var("u", tm.BOOL), var("u2", tm.BOOL)
    # case split on definedness (four paths) keeps each query free of if-then-else over strings
    ub = cur().fork(u)
    u2b = cur().fork(u2)
    tv = NONM if ub else hs.tok_str_t(v)
    tv2 = NONM if u2b else hs.tok_str_t(v2)
    assume(tm.And(nulfree(n), nulfree(v), nulfree(n2), nulfree(v2), starts(r, STRM), starts(r2, STRM)))
    assume(tm.Eq(tm.Concat(hs.tok_str_t(n), tv, r), tm.Concat(hs.tok_str_t(n2), tv2, r2)))
    apply_g1(sym.utf8(n), sym.utf8(n2), tm.Concat(tv, r), tm.Concat(tv2, r2))
    apply_g1(sym.utf8(v), sym.utf8(v2), r, r2)
    return sym.wrap_bool(tm.And(tm.Eq(n, n2), tm.Iff(u, u2), tm.Or(u, tm.Eq(v, v2)), tm.Eq(r, r2)))


def ovr_cont(t):
    """What may follow the `__env_overrides__` keyword: nothing or an override pair."""
    return tm.Or(tm.Eq(t, tm.mk_str("")), starts(t, OVR_NAME_MARKER))


@lemma("C13/lemma/envpair_vs_overrides_keyword", props=["C13"])
def envpair_vs_keyword():
    n, v, r, z = var("n"), var("v"), var("r"), var("z")
    u = var("u", tm.BOOL)
    assume(tm.And(nulfree(n), nulfree(v), starts(r, STRM), ovr_cont(z)))
    assume(tm.Eq(tm.Concat(pair_t(n, u, v), r), tm.Concat(hs.tok_str_t(tm.mk_str("__env_overrides__")), z)))
    return False


def opair_t(name, val):
    return tm.Concat(hs.ovr_name_tok_t(name), hs.tok_str_t(val))


@lemma("C13/lemma/ovrpair_selfdelim", props=["C13"])
def ovrpair_selfdelim():
    n, v, n2, v2, r, r2 = var("n"), var("v"), var("n2"), var("v2"), var("r"), var("r2")
    assume(tm.And(nulfree(n), nulfree(v), nulfree(n2), nulfree(v2), ovr_cont(r), ovr_cont(r2)))
    assume(tm.Eq(tm.Concat(opair_t(n, v), r), tm.Concat(opair_t(n2, v2), r2)))
    apply_g1(sym.utf8(n), sym.utf8(n2), tm.Concat(hs.tok_str_t(v), r), tm.Concat(hs.tok_str_t(v2), r2))
    apply_g1(sym.utf8(v), sym.utf8(v2), r, r2)
    return sym.wrap_bool(tm.And(tm.Eq(n, n2), tm.Eq(v, v2), tm.Eq(r, r2)))


@lemma("C13/lemma/ovrpair_nonempty", props=["C13"], note="an override pair differs from the end of the stream")
def ovrpair_nonempty():
    n, v, r = var("n"), var("v"), var("r")
    assume(tm.Eq(tm.Concat(opair_t(n, v), r), tm.mk_str("")))
    return False


@lemma("C13/lemma/ovr_marker_matches_spec", props=["C13"],
       note="the continuation class used above is the one the spec's override pairs begin with")
def ovr_marker_matches():
    n, v = var("n"), var("v")
    return sym.wrap_bool(starts(opair_t(n, v), OVR_NAME_MARKER))


@replayer("C13/lemma/envpair_vs_overrides_keyword")
def replay_envpair_vs_keyword(o):
    """Turn the counter-model (a variable named like the section keyword) into two different
    configurations and run the real StepHash.from_inp on both."""
    from vc.report import model_of

    m = model_of(o, ["n", "v", "u"])
    if m is None:
        return dict(reproduced=False, reason="no model")
    n, v = m.get("n"), m.get("v")
    if not isinstance(n, str) or not isinstance(v, str):
        return dict(reproduced=False, reason=f"model not usable: {m}")
    if m.get("u") is True or "\0" in n or "\0" in v or v == "":
        v = "a"
    code = (
        "from stepup.core.hash import StepHash\n"
        f"a = StepHash.from_inp('cmd', {{}}, {{'X': '1', {n!r}: {v!r}}}, explained=False, env_overrides={{}})\n"
        f"b = StepHash.from_inp('cmd', {{}}, {{'X': '1'}}, explained=False, env_overrides={{{v!r}: {n!r}}})\n"
        "print('digest A', a.inp_digest.hex()); print('digest B', b.inp_digest.hex())\n"
        "import sys; sys.exit(1 if a.inp_digest == b.inp_digest else 0)\n")
    import subprocess
    from vc import extract

    r = subprocess.run(["/venv/bin/python", "-c", code], cwd=extract.REPO, capture_output=True, text=True,
                       env={"PYTHONPATH": extract.REPO, "PATH": "/usr/bin:/bin"})
    return dict(reproduced=r.returncode == 1, python=code, output=r.stdout + r.stderr,
                witness=dict(env_var=n, value=v,
                             claim="two different configurations (a tracked variable named like the section "
                                   "keyword vs. an override) have the same inp_digest"))
