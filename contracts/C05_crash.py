"""C05: a build killed at any point is completed correctly after restart (scoped).

Decided by contracts (most of them shared with other properties and tagged C05 there):
  * a step is RUNNING only without a stored hash (C10: _has_hash mirrors step_hash; dispatch query), so an
    interrupted step can never be skipped;
  * reset_interrupted_steps (contracts/C04_noop.py) leaves no RUNNING / CHECKING step and hands every attached FAILED
    step (formerly FAILED or RUNNING) to mark_step_pending, which outdates the outputs (C03);
  * the completion of a step (output hashes, mark_completed, outcome) is one transaction without await (C03);
  * rescan_files: an UNCONFIRMED file is re-hashed with cause CONFIRMED, every other attached file that is neither
    PLANNED nor VOLATILE with cause EXTERNAL (below).
Sentence 1 (for every crash point the restarted build equals the uninterrupted one) quantifies over prefixes of the
commit sequence: bounded stand-in contracts/C05_bounded.py."""

from __future__ import annotations

from contracts import common, graphdb, trusted
from contracts.C13_hash import FileHashRec
from contracts.common import FileState, db_of
from contracts.trusted import DbStub, Reporter
from vc import engine, extract, sqlfront, sym
from vc import terms as tm
from vc import types as ty
from vc.engine import LoopSpec, contract
from vc.sym import B, I, S, cur, wrap_bool
from vc.terms import BOOL, INT, STR

HashUpdateCause = common.enums.HashUpdateCause
startup = extract.import_module("stepup/core/startup.py")


def _rf_row_fact(row, args):
    """Rows of the scan: attached files whose state is neither PLANNED nor VOLATILE (ON / WHERE of the statement)."""
    c = cur()
    cu = c.data["cursor"]
    s = graphdb.Select(cu.sql.replace(" AND state NOT IN", " WHERE state NOT IN"))  # the filter sits in the ON clause
    f, keys = s.row_fact(cu.db, row, args)
    return wrap_bool(f)


def _rf_workflow(args):
    db = DbStub("db", [("SELECT label, state, hash FROM node JOIN file", ty.TupleOf(ty.Str, ty.Int, ty.Opt(ty.Str)), _rf_row_fact)])
    wf = ty.ObjOf(common.Workflow, dict(), name="Workflow").fresh("workflow")
    wf._fields["db"] = db
    return wf


class _Builder:
    def __init__(self, name):
        self.hash_queue = "hash_queue"
        self.executor = "executor"
        self.njob = 4


def _gather_stub(hash_queue, executor, reporter, path_hash_causes, njob):
    from vc import vcrt

    c = cur()
    c.event("gather_hashes", triples=path_hash_causes)

    def result():
        """The new hashes, keyed by path: only of paths that were submitted."""
        m = ty.MapOf(ty.Str, FileHashRec).fresh(c.fresh_name("new_hashes"))
        q = sym.resolve(path_hash_causes)
        if isinstance(q, sym.SymSeq):
            p = tm.Var(c.fresh_name("p!bound"), STR)
            paths = sym.SymSeq(lambda j: q.elem(j)[0], q.length, name="submitted paths")
            member = vcrt.seq_member_t(paths, sym.wrap_str(p))
            c.pc.append(tm.ForAll([(p.s, STR)], tm.Implies(tm.Select(m.has, p, BOOL), member)))
        return m

    return vcrt.Coro(result, (), {})


def _rf_inv(e):
    """Every triple collected so far: cause CONFIRMED iff the row's state is UNCONFIRMED, otherwise EXTERNAL; the
    triple carries the row's path."""
    q = e.path_hash_causes
    if not isinstance(q, sym.SymSeq):
        return True
    j = I(e.q.j)
    path, _h, cause = q.elem(j)
    row = e.seq.elem(j)
    unconf = tm.Eq(I(row[1]), tm.mk_int(FileState.UNCONFIRMED.value))
    return [tm.Eq(q.length, I(e.i)),
            tm.Implies(tm.And(tm.Le(tm.mk_int(0), j), tm.Lt(j, I(e.i))), tm.And(
                tm.Eq(S(path), S(row[0])), B(e.old_hashes.__contains__(row[0])),
                tm.Eq(I(cause), tm.Ite(unconf, tm.mk_int(HashUpdateCause.CONFIRMED.value), tm.mk_int(HashUpdateCause.EXTERNAL.value)))))]


def _rf_finish(c, outcome, args, old):
    if outcome[0] != "return":
        return
    g = [e for e in c.trace if e.kind == "gather_hashes"]
    c.prove("hash_jobs_submitted_at_most_once", tm.mk_bool(len(g) <= 1), kind="trace")


def _rf_gather_guard(e, workflow):
    """All rows of the scan are submitted (the triples are as many as the rows)."""
    q = e.triples
    if not isinstance(q, sym.SymSeq):
        return False
    return wrap_bool(tm.Eq(q.length, db_of(workflow).last_select_len))


@contract("stepup/core/startup.py::rescan_files", props=["C05", "C04"])
class rescan_files:
    """Every attached file that is neither PLANNED nor VOLATILE is re-hashed, an UNCONFIRMED one with the cause that
    can resolve it (CONFIRMED), every other one as an external change."""

    args = dict(workflow=_rf_workflow, reporter=ty.Make(Reporter), builder=ty.Make(_Builder))
    env = dict(gather_hashes=_gather_stub, fmt_file_hash_diff=lambda a, b: "diff")
    events = {"gather_hashes": _rf_gather_guard}
    finish = _rf_finish
    modifies = []
    loops = {0: LoopSpec(locals=dict(old_hashes=ty.MapOf(ty.Str, FileHashRec),
                                     path_hash_causes=ty.SeqOf(ty.TupleOf(ty.Str, FileHashRec, ty.EnumOf(HashUpdateCause)))),
                         forall=dict(j=ty.Int), invariant=_rf_inv),
             1: LoopSpec()}


# ---------------------------------------------------------------- rescan_env_vars: a changed variable sends its steps back


def _env_value(name):
    """os.getenv(name): None or a string, a function of the name (the environment does not change during the scan)."""
    d = cur().decls
    isn = d.fun("env.unset", [STR], BOOL)(S(name))
    val = d.fun("env.value", [STR], STR)(S(name))
    return sym.SymOpt(isn, sym.wrap_str(val))


class _OsEnv:
    @staticmethod
    def getenv(name, default=None):
        if default is not None:
            raise sym.Unsupported("os.getenv with a default")
        return _env_value(name)


def _changed(row) -> tm.T:
    """The stored value of the row differs from the current one (None = unset on either side)."""
    _node, _label, name, old = row
    new = _env_value(name)
    old_none = old.isnone if isinstance(old, sym.SymOpt) else tm.mk_bool(old is None)
    old_val = S(old.payload) if isinstance(old, sym.SymOpt) else (S(old) if old is not None else tm.mk_str(""))
    same = tm.Or(tm.And(new.isnone, old_none), tm.And(tm.Not(new.isnone), tm.Not(old_none), tm.Eq(S(new.payload), old_val)))
    return tm.Not(same)


def _rev_workflow(args):
    db = DbStub("db", [("SELECT node, label, name, value FROM env_var JOIN node", ty.TupleOf(ty.Int, ty.Str, ty.Str, ty.Opt(ty.Str)))])
    wf = ty.ObjOf(common.Workflow, dict(), name="Workflow").fresh("workflow")
    wf._fields["db"] = db
    return wf


def _rev_inv(e):
    """(a) every changed row seen so far has its step among the steps to rerun, with the row's label; (b) every step
    to rerun comes from a changed row seen so far."""
    m = e.steps_to_rerun
    if not isinstance(m, sym.SymMap):
        return True
    c = cur()
    i = I(e.i)
    j, k, j2 = tm.Var(c.fresh_name("j!bound"), INT), tm.Var(c.fresh_name("k!bound"), INT), tm.Var(c.fresh_name("j!bound"), INT)
    from vc import vcrt

    a = vcrt.quantified([(j.s, INT)], lambda: tm.Implies(
        tm.And(tm.Le(tm.mk_int(0), j), tm.Lt(j, i), _changed(e.seq.elem(j))),
        m.contains_t(e.seq.elem(j)[0])))

    def b_body():
        row = e.seq.elem(j2)
        return tm.Implies(m.contains_t(sym.wrap_int(k)), tm.Exists([(j2.s, INT)], tm.And(
            tm.Le(tm.mk_int(0), j2), tm.Lt(j2, i), tm.Eq(I(row[0]), k), _changed(row))))

    b = vcrt.quantified([(k.s, INT)], b_body)
    return [wrap_bool(a), wrap_bool(b)]


def _rev_mark_iteration(e):
    marks = [ev for ev in e.iter_trace if ev.kind == "mark_step_pending"]
    return wrap_bool(tm.mk_bool(len(marks) == 1 and marks[0].step is e.current))


def _rev_finish(c, outcome, args, old):
    if outcome[0] != "return":
        return
    dropped = [e for e in c.trace if e.kind in ("delete_hash", "set_state")]
    c.prove("only_marks_steps_pending", tm.mk_bool(not dropped), kind="trace")


@contract("stepup/core/startup.py::rescan_env_vars", props=["C04", "C05"])
class rescan_env_vars:
    """A step is marked pending at start-up exactly when one of the environment variables it tracks (rows of attached
    steps) has a stored value different from the current one; each such step once; nothing else is done to it (its
    hash decides later whether it really runs)."""

    args = dict(workflow=_rev_workflow, reporter=ty.Make(Reporter))
    env = dict(os=_OsEnv, Step=lambda wf, i, label: label, fmt_env_value=lambda v: "value")
    finish = _rev_finish
    modifies = []
    loops = {0: LoopSpec(locals=dict(steps_to_rerun=ty.MapOf(ty.Int, ty.Str), reported_names=ty.SetOf(ty.Str)),
                         invariant=_rev_inv),
             1: LoopSpec(step_post=_rev_mark_iteration)}
