"""C07: a successful build leaves no orphaned outputs behind (scoped: completeness of the deletion loop at its fixed
point and what is queued for removal; shared contracts live in contracts/C06_clean.py and are tagged C07 there).

Added here:
  Workflow.delete_detached   static-tree files that nothing consumes are detached before the generic loop runs, and
                             only those
  Step.before_delete / Workflow.mark_dir_to_be_deleted   the working directory of a deleted step is queued (never
                             the project root)
and the bounded stand-in C07/bounded/no_orphans_after_clean over histories of plan edits."""

from __future__ import annotations

from contracts import common, graphdb, trusted
from contracts.C06_clean import ToBeDeleted
from contracts.common import File, Node, StaticTree, Step, db_of, fresh_node, workflow_spec
from contracts.trusted import DbStub, PathStr, SymPath
from vc import engine, extract, sqlfront, sym
from vc import terms as tm
from vc import types as ty
from vc.engine import LoopSpec, contract
from vc.sym import B, I, S, cur, wrap_bool
from vc.terms import BOOL, INT, STR


# ---------------------------------------------------------------- mark_dir_to_be_deleted / Step.before_delete


def _norm(p) -> tm.T:
    return trusted._path_fun("posix.normpath", S(p))


def _arrays(state):
    """The SMT arrays behind the value state of a symbolic map (nested dicts / tuples of terms)."""
    if isinstance(state, tm.T):
        return [state]
    if isinstance(state, dict):
        return [x for v in state.values() for x in _arrays(v)]
    if isinstance(state, (list, tuple)):
        return [x for v in state for x in _arrays(v)]
    return []


def _is_none(v) -> tm.T:
    v2 = v
    if isinstance(v2, sym.SymOpt):
        return v2.isnone
    return tm.mk_bool(v2 is None)


def _mark_post(self, path, old):
    """The normalised directory (with a trailing separator) is queued, nothing else changes; the project root is
    never queued."""
    n = _norm(path)
    key = sym.wrap_str(tm.Concat(n, tm.mk_str("/")))
    m, m0 = self.to_be_deleted, old.self.to_be_deleted
    c = cur()
    k = tm.Var(c.fresh_name("k!bound"), STR)
    isroot = tm.Eq(n, tm.mk_str("."))
    # every other key keeps its membership and its value; the queued directory maps to None
    same = tm.And(tm.Iff(tm.Select(m.has, k, BOOL), tm.Select(m0.has, k, BOOL)),
                  *[tm.Eq(tm.Select(a, k, a.sort.split()[-1].rstrip(")")), tm.Select(b, k, b.sort.split()[-1].rstrip(")")))
                    for a, b in zip(_arrays(m.state), _arrays(m0.state))])
    same_elsewhere = tm.ForAll([(k.s, STR)], tm.Implies(tm.Or(isroot, tm.Ne(k, S(key))), same),
                               patterns=[[tm.Select(m.has, k, BOOL)]])
    queued = tm.Implies(tm.Not(isroot), tm.And(B(m.__contains__(key)), _is_none(m.value_at(key))))
    return wrap_bool(tm.And(queued, same_elsewhere))


@contract("stepup/core/workflow.py::Workflow.mark_dir_to_be_deleted", props=["C07", "C06"])
class mark_dir_to_be_deleted:
    args = dict(self=lambda a: workflow_spec([], to_be_deleted=ToBeDeleted).fresh("workflow"), path=ty.Str)
    env = dict(Path=trusted.Path)
    ensures = _mark_post
    modifies = ["self.to_be_deleted"]


def _sbd_finish(c, outcome, args, old):
    calls = [e for e in c.trace if e.kind == "mark_dir"]
    c.prove("workdir_is_queued_once", tm.mk_bool(len(calls) == 1), kind="trace")


class _GraphMark:
    def __init__(self, name):
        pass

    def mark_dir_to_be_deleted(self, path):
        cur().event("mark_dir", path=path)


@contract("stepup/core/step.py::Step.before_delete", props=["C07"])
class step_before_delete:
    """The working directory encoded in the step label is handed to mark_dir_to_be_deleted."""

    args = dict(self=lambda a: sym.SymObj(Step, dict(graph=_GraphMark("g"), i=ty.Int.fresh("self.i"), label=ty.Str.fresh("self.label")),
                                          name="Step", frozen=True, eq_fields=("i", "label")))
    events = {"mark_dir": lambda e, self: wrap_bool(tm.mk_bool(True))}
    finish = _sbd_finish
    modifies = []


# ---------------------------------------------------------------- Workflow.delete_detached


class _FileProduct:
    """A product of a static tree as the function uses it: path, sinks(), detach()."""

    def __init__(self, name):
        c = cur()
        self.path = SymPath(c.fresh(name + ".path", STR))
        self.has_sinks = sym.SymBool(c.fresh(name + ".has_sinks", BOOL))

    def sinks(self):
        return _Any(self.has_sinks)

    def detach(self):
        cur().event("detach", node=self)


class _Any:
    def __init__(self, b):
        self.b = b

    def __symany__(self):
        return self.b


class _Tree:
    def __init__(self, name):
        self.name = name

    def products(self):
        return ty.SeqOf(ty.Make(_FileProduct)).fresh(cur().fresh_name("products"))


def _wdd_self(args):
    wf = workflow_spec([], to_be_deleted=ToBeDeleted).fresh("workflow")
    return wf


@contract("stepup/core/trellis.py::Trellis.nodes", props=[], verify=False,
          note="iterates over the attached nodes of the given type (database read)")
class trellis_nodes:
    result = lambda: ty.SeqOf(ty.Make(_Tree))
    modifies = []


def _wdd_finish(c, outcome, args, old):
    t = c.trace
    supers = [e for e in t if e.kind == "super.delete_detached"]
    detaches = [e for e in t if e.kind == "detach"]
    if outcome[0] == "return":
        c.prove("generic_loop_runs_once_at_the_end", tm.mk_bool(len(supers) == 1 and all(d.index < supers[0].index for d in detaches)),
                kind="trace")


class _Super:
    def delete_detached(self):
        cur().event("super.delete_detached")


@contract("stepup/core/workflow.py::Workflow.delete_detached", props=["C07", "C06"])
class workflow_delete_detached:
    """A static-tree file is detached exactly when nothing consumes it; then the generic deletion loop runs."""

    args = dict(self=_wdd_self)
    env = dict(super=lambda *a: _Super(), sorted=lambda it, reverse=False, key=None: it)
    events = {"detach": lambda e: wrap_bool(tm.Not(B(e.node.has_sinks)))}
    finish = _wdd_finish
    modifies = ["self.to_be_deleted"]
    loops = {0: LoopSpec(), 1: LoopSpec(step_post=lambda e: wrap_bool(tm.Iff(
        tm.mk_bool(any(ev.kind == "detach" and ev.node is e.current for ev in cur().trace)), tm.Not(B(e.current.has_sinks)))))}
