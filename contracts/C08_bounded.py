"""C08 bounded stand-in: arrival order and recycling histories on the real Workflow.

The contracts of C08_claims.py decide each declaring function against the graph it finds.  What they do not
reach is the recycling machinery (Trellis.try_recycle / Node.reattach with their recursive SQL) and the
composition of several requests.  This stand-in runs short histories of declarations on the real code (in-memory
database, Workflow API only) and compares outcomes:

  order      A then B  versus  B then A: the second declaration is rejected in one order iff it is in the other;
  repeat     the same declaration twice by the same creator: the second is accepted (a no-op);
  recycle    build 1: the plan defines a sub-plan whose step declares X; build 2: the plan reruns, declares Y and
             defines the sub-plan again unchanged (it is recycled together with its step): the outcome must be
             that of the same plan built from scratch (Y, then the sub-plan's step declaring X).

Bounded: a fixed menu of declarations over the paths d/f.txt, d/ and the pattern d/*.txt, two creators."""

from __future__ import annotations

import asyncio
import itertools

from vc import extract
from vc.report import bounded

P, D, PAT, PAT2 = "d/f.txt", "d/", "d/*.txt", "*/f.txt"
MENU = [("static", P), ("out", P), ("vol", P), ("amend_out", P), ("amend_vol", P), ("tree", D), ("amender_tree", D),
        ("glob", PAT), ("glob", PAT2)]
TREES = ("tree", "amender_tree")
PRODUCTS = ("out", "vol", "amend_out", "amend_vol")


def claimant(decl, creator):
    """Who holds the declaration: the declaring creator, a step of its own (define_step), or its amending step."""
    kind = decl[0]
    if kind in ("out", "vol"):
        return ("own-step", id(decl))  # a step defined for this declaration alone
    if kind in ("amend_out", "amend_vol", "amender_tree"):
        return ("amender", creator)  # the step that amends on behalf of the creator (it also registers amender_tree)
    return ("creator", creator)


def role(decl):
    return {"static": "static", "out": "output", "amend_out": "output", "vol": "volatile", "amend_vol": "volatile"}.get(decl[0])


def conflicting(a, ca, b, cb, same_object):
    """Spec (the property's sentence): do the two declarations conflict?  `same_object`: b is a itself, repeated."""
    ka, kb = a[0], b[0]
    files = ("static",) + PRODUCTS
    if ka in files and kb in files:
        if same_object and ka in ("out", "vol"):
            return None  # the same step defined twice: a duplicate step, not decided here
        same_claimant = (claimant(a, ca)[0] != "own-step" and claimant(a, ca) == claimant(b, cb))
        return not (same_claimant and role(a) == role(b))
    if (ka in TREES or kb in TREES) and (ka in files or kb in files):
        t, f, ct, cf = (a, b, ca, cb) if ka in TREES else (b, a, cb, ca)
        return not (f[0] == "static" and claimant(t, ct) == claimant(f, cf))
    if ka in TREES and kb in TREES:
        return claimant(a, ca) != claimant(b, cb)
    if "glob" in (ka, kb) and (ka in PRODUCTS or kb in PRODUCTS):
        return True  # both patterns of the menu match d/f.txt
    return False


def _mods():
    m = {}
    for name in ("workflow", "enums", "exceptions", "hash", "nglob", "sqlite3", "step", "file"):
        m[name] = extract.import_module(f"stepup/core/{name}.py")
    return m


class _Hist:
    """A fresh workflow with plan.py confirmed, the plan step, and a sub-plan as second creator."""

    def __init__(self, m):
        self.m = m
        self.n = 0

    async def open(self, body):
        m = self.m
        with m["sqlite3"].DBSession.open(":memory:") as db:
            wf = m["workflow"].Workflow(db, dir_queue=asyncio.Queue())
            await wf.initialize()
            async with db:
                wf.declare_static_files(wf.root, ["plan.py"])
                wf.update_file_hashes({"plan.py": m["hash"].FileHash(b"d" * 32, 0o644, 1.0, 1, 1)},
                                      cause=m["enums"].HashUpdateCause.CONFIRMED)
                wf.define_step(wf.root, "./plan.py", inp_paths=["plan.py"], need=m["enums"].Need.PLAN)
                self.wf = wf
                self.plan = wf.find(m["step"].Step, "./plan.py")
                return body(self)

    def sub(self):
        m = self.m
        s = self.wf.find(m["step"].Step, "./sub.py")
        if s is None or s.is_detached():
            self.wf.define_step(self.plan, "./sub.py", need=m["enums"].Need.PLAN)
            s = self.wf.find(m["step"].Step, "./sub.py")
        return s

    def declare(self, decl, creator, tag):
        """Perform one declaration; returns 'accepted', 'rejected' (GraphError) or 'error:<type>'."""
        m = self.m
        wf = self.wf
        kind, arg = decl
        Step = m["step"].Step
        try:
            if kind == "static":
                wf.declare_static_files(creator, [arg])
            elif kind == "out":
                wf.define_step(creator, f"make-{tag}", out_paths=[arg])
            elif kind == "vol":
                wf.define_step(creator, f"make-{tag}", vol_paths=[arg])
            elif kind in ("amend_out", "amend_vol"):
                label = f"amender-{tag[1:] if tag[:1] in '12' else tag}"  # one amending step per creator
                st = wf.find(Step, label)
                if st is None or st.is_detached():
                    wf.define_step(creator, label)
                    st = wf.find(Step, label)
                kw = dict(out_paths=[arg]) if kind == "amend_out" else dict(vol_paths=[arg])
                wf.amend_step(st, ran_concurrently=lambda a, b: False, **kw)
            elif kind == "tree":
                wf.register_static_tree(creator, arg)
            elif kind == "amender_tree":
                label = f"amender-{tag[1:] if tag[:1] in '12' else tag}"
                st = wf.find(Step, label)
                if st is None or st.is_detached():
                    wf.define_step(creator, label)
                    st = wf.find(Step, label)
                wf.register_static_tree(st, arg)
            elif kind == "glob":
                wf.register_nglob(creator, m["nglob"].NamedGlob(arg))
            else:
                raise AssertionError(kind)
        except m["exceptions"].GraphError:
            return "rejected"
        except Exception as e:  # noqa: BLE001
            return "error:" + type(e).__name__
        return "accepted"


class SetupFailed(Exception):
    pass


def _run(m, body):
    try:
        return asyncio.run(_Hist(m).open(body))
    except Exception as e:  # noqa: BLE001
        # the fixed preamble (plan.py static and confirmed, plan step defined) or a step between two declarations
        # raised: on the unchanged tree it never does, so this is reported as a failing history
        raise SetupFailed(f"{type(e).__name__}: {e}") from e


def _pair(m, a, b, ca, cb):
    """(outcome of first, outcome of second) for a by creator ca, then b by creator cb."""

    def body(h):
        creators = dict(plan=h.plan)
        if "sub" in (ca, cb):
            creators["sub"] = h.sub()
        r1 = h.declare(a, creators[ca], "1" + ca)
        r2 = h.declare(b, creators[cb], "2" + cb)
        return r1, r2

    return _run(m, body)


def _recycle(m, x, y):
    """Build 1: sub-plan's step declares x.  Build 2: plan reruns, declares y, defines the sub-plan again."""
    StepState = m["enums"].StepState

    def incremental(h):
        sub = h.sub()
        r0 = h.declare(x, sub, "x")
        if r0 != "accepted":
            return None
        sub.set_state(StepState.SUCCEEDED)
        h.plan.set_state(StepState.SUCCEEDED)
        h.plan.reset_for_rerun()
        r1 = h.declare(y, h.plan, "y")
        if r1 != "accepted":
            return ("rejected-at-y", r1)
        try:
            h.wf.define_step(h.plan, "./sub.py", need=m["enums"].Need.PLAN)
        except m["exceptions"].GraphError:
            return ("rejected-at-sub", "rejected")
        sub2 = h.wf.find(m["step"].Step, "./sub.py")
        if sub2.get_state() != StepState.SUCCEEDED:
            # the sub-plan will run again and declare x again: the conflict is met then
            r2 = h.declare(x, sub2, "x2")
            return ("sub-reruns", r2)
        return ("sub-recycled-as-succeeded", "accepted")

    def scratch(h):
        r1 = h.declare(y, h.plan, "y")
        if r1 != "accepted":
            return ("rejected-at-y", r1)
        sub = h.sub()
        return ("sub-runs", h.declare(x, sub, "x"))

    return _run(m, incremental), _run(m, scratch)


@bounded("declaration_histories", props=["C08"],
         bound="exhaustive over a menu of 9 declarations (static / output / volatile output / amended output / amended "
               "volatile output on d/f.txt, static tree d/ by the creator and by its amending step, globs d/*.txt and */f.txt) and 2 creators: every ordered pair "
               "in both orders against the property's conflict predicate, every declaration repeated by its creator, and every pair (X by a sub-plan's step, Y by the plan) "
               "through a plan rerun with full recycling, against the same plan from scratch; real Workflow, in-memory "
               "database")
def declaration_histories(tier, seed):
    m = _mods()
    failures = []
    n = 0
    try:
        _pair(m, MENU[0], MENU[0], "plan", "plan")
    except SetupFailed as e:
        return dict(evaluations=1, failures=[dict(kind="preamble", error=str(e)[:300])])
    creators = [("plan", "plan"), ("plan", "sub"), ("sub", "plan")]
    for a, b in itertools.combinations_with_replacement(MENU, 2):
        for ca, cb in creators:
            if a == b and ca == cb and a[0] in ("out", "vol"):
                continue  # the same step defined twice is a duplicate step, not a file declaration
            ab = _pair(m, a, b, ca, cb)
            ba = _pair(m, b, a, cb, ca)
            n += 2
            if ab[0] != "accepted" or ba[0] != "accepted":
                failures.append(dict(kind="first-declaration-not-accepted", a=a, b=b, creators=(ca, cb), ab=ab, ba=ba))
                continue
            expect = conflicting(a, ca, b, cb, a == b and ca == cb)
            for (x, cx, y, cy, res) in ((a, ca, b, cb, ab), (b, cb, a, ca, ba)):
                if expect is not None and (res[1] != "accepted") != expect:
                    failures.append(dict(kind="oracle", first=f"{x[0]}({x[1]}) by {cx}", second=f"{y[0]}({y[1]}) by {cy}",
                                         conflicting=expect, got=res[1]))
                if a == b and ca == cb:
                    break
            if (ab[1] == "accepted") != (ba[1] == "accepted"):
                failures.append(dict(kind="order", first=f"{a[0]}({a[1]}) by {ca}", second=f"{b[0]}({b[1]}) by {cb}",
                                     a_then_b=ab[1], b_then_a=ba[1]))
    for x in MENU:
        for y in MENU:
            inc, scr = _recycle(m, x, y)
            n += 2
            if inc is None:
                continue
            if (inc[1] == "accepted") != (scr[1] == "accepted"):
                failures.append(dict(kind="recycle", x=f"{x[0]}({x[1]}) by the sub-plan's step",
                                     y=f"{y[0]}({y[1]}) by the plan", incremental=inc, from_scratch=scr))
    return dict(evaluations=n, failures=failures)
