"""Helpers for SQL contracts: a WHERE clause of the real statement text against a spec predicate."""

from __future__ import annotations

from contracts import trusted
from vc import extract, sqlfront, sym
from vc import terms as tm
from vc.report import lemma
from vc.sym import cur
from vc.terms import BOOL, INT, STR


class Row:
    """Symbolic row: columns are created on demand, one constant per (alias, column)."""

    def __init__(self, text_cols=trusted.SQL_TEXT_COLUMNS, nullable=()):
        self.cols = {}
        self.text_cols = text_cols
        self.nullable = set(nullable)

    def col(self, alias, name):
        key = (alias, name)
        if key not in self.cols:
            c = cur()
            n = f"col.{alias or ''}.{name}"
            t = c.decls.const(n, STR if name in self.text_cols else INT)
            null = c.decls.const(n + ".null", BOOL) if (name in self.nullable or key in self.nullable) else tm.FALSE
            self.cols[key] = sqlfront.Val(t, "str" if name in self.text_cols else "int", null)
        return self.cols[key]

    def __call__(self, alias, name):
        return self.col(alias, name).t

    def isnull(self, alias, name):
        return self.col(alias, name).null


def select_part(sql):
    up = sql.upper()
    return sql[up.index("SELECT"):]


def where_equiv(name, relpath, const, spec, props, params=None, nullable=(), transform=None, subquery=None,
                hyps=None):
    """Lemma: the top-level WHERE of module constant `const` holds for a row iff spec(row) does."""

    def fn():
        c = cur()
        sql = extract.module_constant(relpath, const)
        if transform is not None:
            sql = transform(sql)
        e = sqlfront.where_of(sql)
        if e is None:
            c.prove("has_where", False, kind="sql", detail="statement has no WHERE clause")
            return None
        row = Row(nullable=nullable)

        def param(idx):
            if params is None or idx not in params:
                raise sqlfront.SQLError(f"parameter {idx}")
            return params[idx](c)

        sq = (lambda e_: subquery(e_, row, c)) if subquery else None
        tr = sqlfront.Translator(c.decls, row.col, param, subquery=sq)
        try:
            f = tr.holds(e)
        except sqlfront.SQLError as ex:
            c.prove("translatable", False, kind="sql", detail=str(ex))
            return None
        if hyps is not None:
            for h in hyps(row):
                c.pc.append(h)
        return sym.wrap_bool(tm.Iff(f, spec(row)))

    lemma(name, props=props)(fn)
