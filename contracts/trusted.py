"""Assumed contracts of things outside the repository (each is part of the trusted base)."""

from __future__ import annotations

import hashlib

from vc import engine, extract, sym, vcrt
from vc import terms as tm
from vc import types as ty
from vc.sym import S, cur, wrap_bytes
from vc.terms import STR

TRUSTED: list[str] = []  # human-readable list, copied into evidence files


def trusted(text):
    if text not in TRUSTED:
        TRUSTED.append(text)


def sha256_term(t: tm.T) -> tm.T:
    """SHA-256 as an uninterpreted function with 32-byte results."""
    c = cur()
    f = c.decls.fun("sha256", [STR], STR)
    r = f(t)
    c.pc.append(tm.Eq(tm.Len(r), tm.mk_int(32)))
    return r


class GhostHash:
    """Stands for a `hashlib.sha256` object; ghost field `fed` = bytes passed so far.

    Assumed contract of hashlib: update appends, digest() = SHA256(fed)."""

    def __init__(self, data=b""):
        self.fed = data
        sym.mark_born(self)

    def update(self, b):
        if isinstance(b, memoryview):
            b = bytes(b)
        if not isinstance(b, (bytes, bytearray, sym.SymBytes)):
            raise TypeError("object supporting the buffer API required")
        self.fed = self.fed + b
        c = sym.CUR
        if c is not None:
            c.writes.append((self, "fed"))

    def digest(self):
        return wrap_bytes(sha256_term(S(self.fed)))

    def __havoc__(self, label):
        c = cur()
        self.fed = sym.SymBytes(c.fresh(c.fresh_name(label + ".fed"), STR))

    def __snapshot__(self):
        g = GhostHash.__new__(GhostHash)
        g.fed = self.fed
        g._born = self._born
        return g


class GhostHashSpec(ty.Spec):
    def fresh(self, name):
        g = GhostHash.__new__(GhostHash)
        g.fed = sym.SymBytes(cur().fresh(name + ".fed", STR))
        g._born = 0
        return g


engine.GLOBAL_FACTORIES[hashlib.sha256] = GhostHash
trusted("hashlib.sha256: update(b) appends b to the hashed stream, digest() is a 32-byte function "
        "of the stream (SHA-256); collision resistance is assumed where digest equality stands "
        "for stream equality")
trusted("str.encode(): UTF-8 is injective and produces a zero byte only for U+0000")
trusted("int.to_bytes(n, 'big') is injective on [0, 256**n) and has length n")


# --------------------------------------------------------------------------- file system stubs

from vc.sym import SymBool, SymInt, SymStr, SymBytes, Unsupported, wrap_bool, wrap_int, wrap_str  # noqa: E402
from vc.terms import BOOL, INT  # noqa: E402
import os as _os  # noqa: E402


class StatResult:
    def __init__(self, name):
        c = cur()
        c.decls.sort("Float")
        self.st_mode = SymInt(c.fresh(name + ".st_mode", INT))
        self.st_size = SymInt(c.fresh(name + ".st_size", INT))
        self.st_ino = SymInt(c.fresh(name + ".st_ino", INT))
        self.st_mtime = sym.SymOpaque(c.fresh(name + ".st_mtime", "Float"))
        # assumed: an existing file has a non-zero mode; mode and size fit 64 bits
        c.pc.append(tm.And(tm.Gt(self.st_mode.t, tm.mk_int(0)), tm.Lt(self.st_mode.t, tm.mk_int(2**32)),
                           tm.Ge(self.st_size.t, tm.mk_int(0)), tm.Lt(self.st_size.t, tm.mk_int(2**63)),
                           tm.Ge(self.st_ino.t, tm.mk_int(0))))


def os_stat(path, *a, **k):
    c = cur()
    n = c.fresh_name("os.stat")
    fails = c.fresh(n + ".fails", BOOL)
    if c.fork(fails):
        c.event("os.stat", path=path, ok=False, st=None)
        raise FileNotFoundError(2, "stat failed [assumed contract of os.stat]")
    st = StatResult(n)
    c.event("os.stat", path=path, ok=True, st=st)
    return st


trusted("os.stat(p): raises OSError or returns (st_mode in (0, 2**32), 0 <= st_size < 2**63, st_ino >= 0, st_mtime)")


class OsStub:
    stat = staticmethod(os_stat)
    sep = "/"

    @staticmethod
    def fspath(p):
        if isinstance(p, (SymStr, str)):
            return p
        raise Unsupported("os.fspath of a non-string")

    def __getattr__(self, name):
        v = getattr(_os, name)
        if callable(v) or isinstance(v, type(_os)):
            raise Unsupported(f"os.{name} has no assumed contract")
        return v


def file_content(path_t: tm.T) -> tm.T:
    """Ghost: the content of the file at `path` during the current call."""
    return cur().decls.fun("file_content", [STR], STR)(path_t)


class SymPath(SymStr):
    """`path.Path`: a str with file-system methods (assumed contracts, each an effect)."""

    __slots__ = ()

    def _flag(self, what):
        c = cur()
        r = SymBool(c.fresh(c.fresh_name(what), BOOL))
        c.event(what, path=self, result=r)
        return r

    def islink(self):
        return self._flag("Path.islink")

    def is_dir(self):
        return self._flag("Path.is_dir")

    isdir = is_dir

    def exists(self):
        return self._flag("Path.exists")

    def is_file(self):
        return self._flag("Path.is_file")

    isfile = is_file

    def readlink(self):
        c = cur()
        r = SymPath(c.fresh(c.fresh_name("Path.readlink"), STR))
        c.event("Path.readlink", path=self, result=r)
        return r


def Path(x=""):
    x = sym.resolve(x)
    if isinstance(x, SymPath):
        return x
    if isinstance(x, (SymStr, str)):
        return SymPath(S(x))
    raise Unsupported(f"Path() of {x!r}")


Path.__vc_real__ = str
trusted("path.Path(p) is the string p with file-system methods; islink/is_dir/exists/readlink return "
        "unconstrained values (the file system is not modelled beyond the calls made)")


class ByteBuf:
    """bytearray(N) used as a read buffer: `data` is what the last readinto stored."""

    def __init__(self, n=0):
        if not isinstance(n, int):
            raise Unsupported("bytearray() of a non-constant")
        self.size = n
        self.data = b""
        sym.mark_born(self)

    def __havoc__(self, label):
        c = cur()
        self.data = SymBytes(c.fresh(c.fresh_name(label + ".data"), STR))


class MemView:
    def __init__(self, buf):
        if not isinstance(buf, ByteBuf):
            raise Unsupported("memoryview of a non-buffer")
        self.buf = buf

    def __getitem__(self, k):
        if isinstance(k, slice) and k.start is None and k.step is None:
            # the buffer holds `data` followed by stale bytes; only [:n] with n <= len(data) is defined
            c = cur()
            n = sym.I(k.stop)
            c.prove(c.fresh_name("memoryview.slice.within_read"),
                    tm.And(tm.Ge(n, tm.mk_int(0)), tm.Le(n, tm.Len(S(self.buf.data)))), kind="pre")
            return wrap_bytes(tm.Substr(S(self.buf.data), tm.mk_int(0), n))
        raise Unsupported("memoryview indexing other than [:n]")


class RawFile:
    """open(path, 'rb', buffering=0): unbuffered reads of the ghost content.

    Assumed contract of readinto: stores n bytes, 0 <= n <= len(buf), n <= remaining, and
    n == 0 iff the position is at the end of the file."""

    def __init__(self, path):
        c = cur()
        self.path = path
        self.content = file_content(S(path))
        self.pos = 0
        sym.mark_born(self)

    def __enter__(self):
        return self

    def __exit__(self, *a):
        return False

    def readinto(self, buf):
        c = cur()
        n = c.fresh(c.fresh_name("readinto.n"), INT)
        total = tm.Len(self.content)
        pos = sym.I(self.pos)
        rem = tm.Sub(total, pos)
        c.pc.append(tm.And(tm.Ge(n, tm.mk_int(0)), tm.Le(n, tm.mk_int(buf.size)), tm.Le(n, rem),
                           tm.Iff(tm.Eq(n, tm.mk_int(0)), tm.Eq(rem, tm.mk_int(0)))))
        buf.data = wrap_bytes(tm.Substr(self.content, pos, n))
        self.pos = wrap_int(tm.Add(pos, n))
        c.writes.append((self, "pos"))
        c.writes.append((buf, "data"))
        return wrap_int(n)

    def __havoc__(self, label):
        c = cur()
        p = c.fresh(c.fresh_name(label + ".pos"), INT)
        self.pos = SymInt(p)


def v_open(path, mode="r", buffering=-1, *a, **k):
    c = cur()
    if mode != "rb" or buffering != 0:
        raise Unsupported("open(): only ('rb', buffering=0) has an assumed contract")
    fails = c.fresh(c.fresh_name("open.fails"), BOOL)
    if c.fork(fails):
        raise OSError("open failed [assumed contract of open]")
    return RawFile(path)


trusted("open(p,'rb',buffering=0).readinto(buf): stores n <= len(buf) bytes of the file at the current "
        "position and advances; n == 0 iff end of file; the file content does not change during the read")


class HashlibStub:
    @staticmethod
    def sha256(data=b""):
        return GhostHash(data)


class CancelEvent:
    def __init__(self, name="cancel_event"):
        self.name = name

    def is_set(self):
        c = cur()
        return SymBool(c.fresh(c.fresh_name(self.name + ".is_set"), BOOL))


FS_ENV = dict(os=OsStub(), Path=Path, open=v_open, bytearray=ByteBuf, memoryview=MemView,
              hashlib=HashlibStub)


# --------------------------------------------------------------------------- path joining


def _join_t(a: tm.T, b: tm.T) -> tm.T:
    """posixpath.join(a, b) for two components (assumed contract, validated bounded in C20)."""
    sl = tm.mk_str("/")
    return tm.Ite(tm.PrefixOf(sl, b), b,
                  tm.Ite(tm.Or(tm.Eq(a, tm.mk_str("")), tm.SuffixOf(sl, a)), tm.Concat(a, b),
                         tm.Concat(a, sl, b)))


def _sympath_truediv(self, other):
    return SymPath(_join_t(self.t, S(other)))


def _sympath_rtruediv(self, other):
    return SymPath(_join_t(S(other), self.t))


SymPath.__truediv__ = _sympath_truediv
SymPath.__rtruediv__ = _sympath_rtruediv
trusted("path.Path.__truediv__ is posixpath.join: b if b is absolute, a+b if a is empty or ends with '/', else a+'/'+b")


# --------------------------------------------------------------------------- database stub


from vc import sqlfront  # noqa: E402


class Cursor:
    def __init__(self, db, ordinal, sql, args, rowspec, facts=None, always_row=False, on_none=None):
        self.db, self.ordinal, self.sql, self.args, self.rowspec, self.facts = db, ordinal, sql, args, rowspec, facts
        self.always_row = always_row
        self.on_none = on_none  # on_none(cursor): facts assumed when the statement yields no (further) row
        self.on_rows = None  # on_rows(cursor, rows): facts about the whole result of an iterated statement

    def _row(self, name):
        if self.rowspec is None:
            raise Unsupported(f"rows of query #{self.ordinal} are used but no row type is declared: {self.sql[:80]}")
        row = self.rowspec.fresh(name)
        if self.facts is not None:
            cur().data["cursor"] = self
            cur().assume(self.facts(row, self.args))
        return row

    def fetchone(self):
        c = cur()
        n = c.fresh_name(f"q{self.ordinal}.row")
        isn = c.fresh(n + ".none", BOOL)
        ev = c.event("sql.fetchone", ordinal=self.ordinal, cursor=self, isnone=isn)
        if self.always_row:
            c.pc.append(tm.Not(isn))  # an aggregate / EXISTS query always yields one row
            row = self._row(n)
            if ev is not None:
                ev.payload_row = row
            return row
        if c.fork(isn):
            if self.on_none is not None:
                c.assume(self.on_none(self))
            return None
        row = self._row(n)
        if ev is not None:
            ev.payload_row = row
        return row

    def fetchall(self):
        return self.__symseq__()

    @property
    def lastrowid(self):
        k = getattr(self.db, "last_insert_key", None)
        if k is None:
            c = cur()
            k = c.fresh(c.fresh_name(f"q{self.ordinal}.lastrowid"), INT)
        return wrap_int(k)

    @property
    def rowcount(self):
        c = cur()
        n = c.fresh(c.fresh_name(f"q{self.ordinal}.rowcount"), INT)
        c.pc.append(tm.Ge(n, tm.mk_int(0)))
        return wrap_int(n)

    def __symseq__(self):
        c = cur()
        n = c.fresh_name(f"q{self.ordinal}.rows")
        if self.rowspec is None:
            raise Unsupported(f"rows of query #{self.ordinal} are iterated but no row type is declared: {self.sql[:80]}")
        q = ty.SeqOf(self.rowspec).fresh(n)
        if self.facts is not None:
            inner = q.elem
            facts, args = self.facts, self.args

            def elem(i):
                row = inner(i)
                cur().data["cursor"] = self
                cur().data["row_index"] = i
                try:
                    cur().assume(facts(row, args))
                finally:
                    cur().data.pop("row_index", None)
                return row

            q.elem = elem
        q.cursor = self
        if self.on_none is not None:
            c.pc.append(tm.Implies(tm.Eq(q.length, tm.mk_int(0)), sym.B(self.on_none(self))))
        if self.on_rows is not None:
            self.on_rows(self, q)
        self.db.last_select_len = q.length  # ghost: number of rows of the most recent iterated SELECT
        return q

    def __iter__(self):
        raise Unsupported("native iteration over a query result (loop transform missing)")


def temp_tables():
    """Names of the TEMP tables of the schema (read from the working tree): scratch lists that are not part of
    the stored graph, and on which no trigger is defined."""
    import re as _re

    out = set()
    for rel, const in (("stepup/core/workflow.py", "WORKFLOW_SCHEMA"),):
        try:
            text = extract.module_constant(rel, const)
        except extract.ExtractError:
            continue
        temps = set(_re.findall(r"CREATE\s+TEMP(?:ORARY)?\s+TABLE\s+(?:IF NOT EXISTS\s+)?([A-Za-z_]+)", text))
        triggered = set(_re.findall(r"\bON\s+([A-Za-z_]+)\s", " ".join(
            m for m in _re.findall(r"CREATE\s+(?:TEMP\s+)?TRIGGER.*?\bON\s+[A-Za-z_]+\s", text, flags=_re.S))))
        out |= temps - triggered
    return out


_TEMP = None


def writes_only_scratch(norm: str) -> bool:
    """The statement's target is a TEMP scratch table (no trigger on it): the stored graph is unchanged."""
    import re as _re

    global _TEMP
    if _TEMP is None:
        _TEMP = temp_tables()
    m = _re.match(r"(?i)^(DELETE FROM|INSERT (?:OR \w+ )?INTO|UPDATE)\s+(?:temp\.)?([A-Za-z_]+)", norm)
    return bool(m) and m.group(2) in _TEMP


_QUERY_KEYS: dict = {}


def _query_key(prefix: str) -> str:
    k = _QUERY_KEYS.get(prefix)
    if k is None:
        try:
            k = sqlfront.match_key(prefix)
        except sqlfront.SQLError:
            k = prefix
        _QUERY_KEYS[prefix] = k
    return k


class DbStub:
    """Stands for `DBSession`/`sqlite3.Connection`: every statement is an effect `sql`.

    `queries`: list of (normalised SQL prefix, row Spec[, facts(row, args)]) giving the row type of
    SELECT statements the function consumes."""

    def __init__(self, name="db", queries=()):
        self.name = name
        self.queries = [(sqlfront.normalize(q[0]), *q[1:]) for q in queries]
        self.count = 0
        self.last_select_len = tm.mk_int(0)
        self.version = 0  # bumped by every statement that may write; ghost facts are per version
        # relational view (contracts/graphdb.py): a column keeps its function symbol across writes that are read
        # precisely and do not touch it; `full` is the version of the last write whose effect is unknown
        self.colver = {}
        self.full = 0
        self.write_reader = None  # callable(db, old snapshot, sql, args) -> facts, set by a contract

    def fact(self, name, *args, sort=None, versioned=True):
        """Ghost: the value of a stored attribute in the current database version, e.g.
        fact('detached', i).  Facts about one version say nothing about the next."""
        c = cur()
        ts = [a if isinstance(a, tm.T) else (sym.I(a) if not isinstance(a, (SymStr, str)) else S(a)) for a in args]
        version = self.col_version("node", "detached") if name == "detached" else self.version
        suffix = f".v{version}" if versioned else ""
        f = c.decls.fun(f"db.{name}{suffix}", [t.sort for t in ts], sort or BOOL)
        return f(*ts)

    def bump(self):
        """A write whose effect on the tables is not read: every column moves to a new version."""
        self.version += 1
        self.full = self.version

    def col_version(self, table, col):
        return max(self.colver.get((table, col), 0), self.full)

    def touch(self, table, col):
        self.colver[(table, col)] = self.version

    def execute(self, sql, args=()):
        c = cur()
        if not isinstance(sql, str):
            raise Unsupported("SQL text is not a concrete string")
        k = self.count
        self.count += 1
        rowspec = facts = on_none = on_rows = None
        always = False
        norm = sqlfront.normalize(sql)
        key = sqlfront.match_key(sql)
        for q in self.queries:
            if norm.startswith(q[0]) or key.startswith(_query_key(q[0])):
                rowspec = q[1]
                facts = q[2] if len(q) > 2 else None
                always = norm.startswith(("SELECT EXISTS", "SELECT COUNT", "SELECT count")) or (len(q) > 3 and q[3])
                on_none = q[4] if len(q) > 4 else None
                on_rows = q[5] if len(q) > 5 else None
                break
        if (not norm.upper().startswith(("SELECT", "WITH", "EXPLAIN", "PRAGMA")) or
                any(w in norm.upper().split() for w in ("UPDATE", "INSERT", "DELETE", "REPLACE"))) \
                and not writes_only_scratch(norm):
            if self.write_reader is not None:
                old = self.__snapshot__()
                self.version += 1
                c.assume(self.write_reader(self, old, sql, args))
            else:
                self.bump()
        c.event("sql", sql=sql, norm=norm, args=args, ordinal=k, db=self)
        cu = Cursor(self, k, sql, args, rowspec, facts, always, on_none)
        cu.on_rows = on_rows
        return cu

    def executemany(self, sql, seq):
        c = cur()
        k = self.count
        self.count += 1
        if not writes_only_scratch(sqlfront.normalize(sql)):
            self.bump()
        c.event("sql.many", sql=sql, norm=sqlfront.normalize(sql), args=seq, ordinal=k, db=self)
        return Cursor(self, k, sql, seq, None)

    def __aenter__(self):
        cur().event("tx.begin", db=self)
        return self

    def __aexit__(self, et, ev, tb):
        cur().event("tx.end", db=self, exc=et)
        return False

    def __havoc__(self, label):
        c = cur()
        n = c.fresh(c.fresh_name(label + ".last_select_len"), INT)
        c.pc.append(tm.Ge(n, tm.mk_int(0)))
        self.last_select_len = n
        self.bump()

    def __snapshot__(self):
        return DbAt(self, self.version)


class DbAt:
    """The database as it was at a given version (the `old` snapshot of a contract): ghost facts only."""

    def __init__(self, db, version):
        self.db, self.version, self.name = db, version, db.name
        self.colver, self.full = dict(db.colver), db.full

    def col_version(self, table, col):
        return max(self.colver.get((table, col), 0), self.full)

    def fact(self, name, *args, sort=None, versioned=True):
        saved = (self.db.version, self.db.colver, self.db.full)
        self.db.version, self.db.colver, self.db.full = self.version, self.colver, self.full
        try:
            return self.db.fact(name, *args, sort=sort, versioned=versioned)
        finally:
            self.db.version, self.db.colver, self.db.full = saved

    def __snapshot__(self):
        return self


trusted("sqlite3: a statement's effect and result are those documented by SQLite for the fragment of "
        "DESIGN 3.6; each execute() is recorded as an effect with its text and bound arguments")


# --------------------------------------------------------------------------- rows satisfy the WHERE clause

SQL_TEXT_COLUMNS = {"kind", "label", "path", "upper", "name", "hash", "pattern", "description"}


def where_holds(sql, args, cols):
    """Fact assumed about a returned row: the statement's top-level WHERE clause is true for it.

    cols: column name -> value of the row (proxy); other columns are unconstrained unknowns."""
    c = cur()
    e = sqlfront.where_of(sql)
    if e is None:
        return True

    def column(alias, name):
        if name in cols:
            v = cols[name]
            if isinstance(v, tm.T) and v.sort == BOOL:
                return sqlfront.Val(v, "bool")
            if isinstance(v, (SymStr, str)):
                return sqlfront.Val(S(v), "str")
            return sqlfront.Val(sym.I(v), "int")
        n = c.fresh_name(f"col.{alias or ''}.{name}")
        if name in SQL_TEXT_COLUMNS:
            return sqlfront.Val(c.fresh(n, STR), "str")
        return sqlfront.Val(c.fresh(n, INT), "int")

    def param(idx):
        v = args[idx]
        if isinstance(v, (SymStr, str)):
            return sqlfront.Val(S(v), "str")
        return sqlfront.Val(sym.I(v), "int")

    tr = sqlfront.Translator(c.decls, column, param)
    return wrap_bool(tr.holds(e))


trusted("sqlite3: a row returned by SELECT ... WHERE w satisfies w (three-valued logic as in DESIGN 3.6)")


class _PathStr(ty._Str):
    """A `path.Path` value (a str with file-system methods)."""

    def fresh(self, name):
        return SymPath(cur().fresh(name, STR))

    def wrap(self, t):
        return SymPath(t)


PathStr = _PathStr()


# --------------------------------------------------------------------------- file-system effects of path.Path


class DirListing:
    """`path.iterdir()`: only its emptiness is observable."""

    def __init__(self, path):
        c = cur()
        self.path = path
        self.nonempty = SymBool(c.fresh(c.fresh_name("iterdir.nonempty"), BOOL))
        c.event("Path.iterdir", path=path, nonempty=self.nonempty)

    def __symany__(self):
        return self.nonempty


def _path_fun(name, t: tm.T) -> tm.T:
    return cur().decls.fun(name, [STR], STR)(t)


def _sympath_remove(self):
    c = cur()
    ev = c.event("Path.remove", path=self)
    fails = c.fresh(c.fresh_name("remove.fails"), BOOL)
    if c.fork(fails):
        raise FileNotFoundError(2, "remove failed [assumed contract of Path.remove]")
    return self


def _sympath_rmdir(self):
    c = cur()
    fails = c.fresh(c.fresh_name("rmdir.fails"), BOOL)
    c.event("Path.rmdir", path=self, fails=fails)
    if c.fork(fails):
        raise OSError("rmdir failed [assumed contract of Path.rmdir]")
    return self


SymPath.remove = _sympath_remove
SymPath.rmdir = _sympath_rmdir
SymPath.iterdir = lambda self: DirListing(self)
SymPath.parent = property(lambda self: SymPath(_path_fun("posix.dirname", self.t)))
SymPath.name = property(lambda self: wrap_str(_path_fun("posix.basename", self.t)))
SymPath.normpath = lambda self: SymPath(_path_fun("posix.normpath", self.t))
trusted("path.Path.remove / rmdir delete exactly the named path or raise OSError; iterdir lists the directory; "
        "parent / name / normpath are posixpath.dirname / basename / normpath (uninterpreted here)")


class Reporter:
    """The reporter client: an awaitable callable without effect on the workflow."""

    def __init__(self, name="reporter"):
        self.name = name

    def __call__(self, *a, **k):
        cur().event("report", args=a)
        return None

    def __getattr__(self, name):
        def meth(*a, **k):
            cur().event("report." + name, args=a)
            return None

        return meth


engine.GLOBAL_OVERRIDES.setdefault("*", {}).update(Path=Path, logger=vcrt._NoLog())
