"""Assumed contracts of things outside the repository (each is part of the trusted base)."""

from __future__ import annotations

import hashlib

from vc import engine, sym, vcrt
from vc import terms as tm
from vc import types as ty
from vc.sym import S, cur, wrap_bytes
from vc.terms import STR

TRUSTED: list[str] = []  # human-readable list, copied into evidence files


def trusted(text):
    if text not in TRUSTED:
        TRUSTED.append(text)


def sha256_term(t: tm.T) -> tm.T:
    """SHA-256 as an uninterpreted function with 32-byte results."""
    c = cur()
    f = c.decls.fun("sha256", [STR], STR)
    r = f(t)
    c.pc.append(tm.Eq(tm.Len(r), tm.mk_int(32)))
    return r


class GhostHash:
    """Stands for a `hashlib.sha256` object; ghost field `fed` = bytes passed so far.

    Assumed contract of hashlib: update appends, digest() = SHA256(fed)."""

    def __init__(self, data=b""):
        self.fed = data
        self._born = 0
        c = sym.CUR
        if c is not None:
            self._born = c.data.get("born", 0) + 1
            c.data["born"] = self._born

    def update(self, b):
        if isinstance(b, memoryview):
            b = bytes(b)
        if not isinstance(b, (bytes, bytearray, sym.SymBytes)):
            raise TypeError("object supporting the buffer API required")
        self.fed = self.fed + b
        c = sym.CUR
        if c is not None:
            c.writes.append((self, "fed"))

    def digest(self):
        return wrap_bytes(sha256_term(S(self.fed)))

    def __havoc__(self, label):
        c = cur()
        self.fed = sym.SymBytes(c.fresh(c.fresh_name(label + ".fed"), STR))

    def __snapshot__(self):
        g = GhostHash.__new__(GhostHash)
        g.fed = self.fed
        g._born = self._born
        return g


class GhostHashSpec(ty.Spec):
    def fresh(self, name):
        g = GhostHash.__new__(GhostHash)
        g.fed = sym.SymBytes(cur().fresh(name + ".fed", STR))
        g._born = 0
        return g


engine.GLOBAL_FACTORIES[hashlib.sha256] = GhostHash
trusted("hashlib.sha256: update(b) appends b to the hashed stream, digest() is a 32-byte function "
        "of the stream (SHA-256); collision resistance is assumed where digest equality stands "
        "for stream equality")
trusted("str.encode(): UTF-8 is injective and produces a zero byte only for U+0000")
trusted("int.to_bytes(n, 'big') is injective on [0, 256**n) and has length n")
