"""Assumed contracts of things outside the repository (each is part of the trusted base)."""

from __future__ import annotations

import hashlib

from vc import engine, sym, vcrt
from vc import terms as tm
from vc import types as ty
from vc.sym import S, cur, wrap_bytes
from vc.terms import STR

TRUSTED: list[str] = []  # human-readable list, copied into evidence files


def trusted(text):
    if text not in TRUSTED:
        TRUSTED.append(text)


def sha256_term(t: tm.T) -> tm.T:
    """SHA-256 as an uninterpreted function with 32-byte results."""
    c = cur()
    f = c.decls.fun("sha256", [STR], STR)
    r = f(t)
    c.pc.append(tm.Eq(tm.Len(r), tm.mk_int(32)))
    return r


class GhostHash:
    """Stands for a `hashlib.sha256` object; ghost field `fed` = bytes passed so far.

    Assumed contract of hashlib: update appends, digest() = SHA256(fed)."""

    def __init__(self, data=b""):
        self.fed = data
        sym.mark_born(self)

    def update(self, b):
        if isinstance(b, memoryview):
            b = bytes(b)
        if not isinstance(b, (bytes, bytearray, sym.SymBytes)):
            raise TypeError("object supporting the buffer API required")
        self.fed = self.fed + b
        c = sym.CUR
        if c is not None:
            c.writes.append((self, "fed"))

    def digest(self):
        return wrap_bytes(sha256_term(S(self.fed)))

    def __havoc__(self, label):
        c = cur()
        self.fed = sym.SymBytes(c.fresh(c.fresh_name(label + ".fed"), STR))

    def __snapshot__(self):
        g = GhostHash.__new__(GhostHash)
        g.fed = self.fed
        g._born = self._born
        return g


class GhostHashSpec(ty.Spec):
    def fresh(self, name):
        g = GhostHash.__new__(GhostHash)
        g.fed = sym.SymBytes(cur().fresh(name + ".fed", STR))
        g._born = 0
        return g


engine.GLOBAL_FACTORIES[hashlib.sha256] = GhostHash
trusted("hashlib.sha256: update(b) appends b to the hashed stream, digest() is a 32-byte function "
        "of the stream (SHA-256); collision resistance is assumed where digest equality stands "
        "for stream equality")
trusted("str.encode(): UTF-8 is injective and produces a zero byte only for U+0000")
trusted("int.to_bytes(n, 'big') is injective on [0, 256**n) and has length n")


# --------------------------------------------------------------------------- file system stubs

from vc.sym import SymBool, SymInt, SymStr, SymBytes, Unsupported, wrap_bool, wrap_int, wrap_str  # noqa: E402
from vc.terms import BOOL, INT  # noqa: E402
import os as _os  # noqa: E402


class StatResult:
    def __init__(self, name):
        c = cur()
        c.decls.sort("Float")
        self.st_mode = SymInt(c.fresh(name + ".st_mode", INT))
        self.st_size = SymInt(c.fresh(name + ".st_size", INT))
        self.st_ino = SymInt(c.fresh(name + ".st_ino", INT))
        self.st_mtime = sym.SymOpaque(c.fresh(name + ".st_mtime", "Float"))
        # assumed: an existing file has a non-zero mode; mode and size fit 64 bits
        c.pc.append(tm.And(tm.Gt(self.st_mode.t, tm.mk_int(0)), tm.Lt(self.st_mode.t, tm.mk_int(2**32)),
                           tm.Ge(self.st_size.t, tm.mk_int(0)), tm.Lt(self.st_size.t, tm.mk_int(2**63)),
                           tm.Ge(self.st_ino.t, tm.mk_int(0))))


def os_stat(path, *a, **k):
    c = cur()
    n = c.fresh_name("os.stat")
    fails = c.fresh(n + ".fails", BOOL)
    if c.fork(fails):
        c.event("os.stat", path=path, ok=False, st=None)
        raise FileNotFoundError(2, "stat failed [assumed contract of os.stat]")
    st = StatResult(n)
    c.event("os.stat", path=path, ok=True, st=st)
    return st


trusted("os.stat(p): raises OSError or returns (st_mode in (0, 2**32), 0 <= st_size < 2**63, st_ino >= 0, st_mtime)")


class OsStub:
    stat = staticmethod(os_stat)
    sep = "/"

    @staticmethod
    def fspath(p):
        if isinstance(p, (SymStr, str)):
            return p
        raise Unsupported("os.fspath of a non-string")

    def __getattr__(self, name):
        v = getattr(_os, name)
        if callable(v) or isinstance(v, type(_os)):
            raise Unsupported(f"os.{name} has no assumed contract")
        return v


def file_content(path_t: tm.T) -> tm.T:
    """Ghost: the content of the file at `path` during the current call."""
    return cur().decls.fun("file_content", [STR], STR)(path_t)


class SymPath(SymStr):
    """`path.Path`: a str with file-system methods (assumed contracts, each an effect)."""

    __slots__ = ()

    def _flag(self, what):
        c = cur()
        r = SymBool(c.fresh(c.fresh_name(what), BOOL))
        c.event(what, path=self, result=r)
        return r

    def islink(self):
        return self._flag("Path.islink")

    def is_dir(self):
        return self._flag("Path.is_dir")

    isdir = is_dir

    def exists(self):
        return self._flag("Path.exists")

    def is_file(self):
        return self._flag("Path.is_file")

    isfile = is_file

    def readlink(self):
        c = cur()
        r = SymPath(c.fresh(c.fresh_name("Path.readlink"), STR))
        c.event("Path.readlink", path=self, result=r)
        return r


def Path(x=""):
    x = sym.resolve(x)
    if isinstance(x, SymPath):
        return x
    if isinstance(x, (SymStr, str)):
        return SymPath(S(x))
    raise Unsupported(f"Path() of {x!r}")


Path.__vc_real__ = str
trusted("path.Path(p) is the string p with file-system methods; islink/is_dir/exists/readlink return "
        "unconstrained values (the file system is not modelled beyond the calls made)")


class ByteBuf:
    """bytearray(N) used as a read buffer: `data` is what the last readinto stored."""

    def __init__(self, n=0):
        if not isinstance(n, int):
            raise Unsupported("bytearray() of a non-constant")
        self.size = n
        self.data = b""
        sym.mark_born(self)

    def __havoc__(self, label):
        c = cur()
        self.data = SymBytes(c.fresh(c.fresh_name(label + ".data"), STR))


class MemView:
    def __init__(self, buf):
        if not isinstance(buf, ByteBuf):
            raise Unsupported("memoryview of a non-buffer")
        self.buf = buf

    def __getitem__(self, k):
        if isinstance(k, slice) and k.start is None and k.step is None:
            # the buffer holds `data` followed by stale bytes; only [:n] with n <= len(data) is defined
            c = cur()
            n = sym.I(k.stop)
            c.prove(c.fresh_name("memoryview.slice.within_read"),
                    tm.And(tm.Ge(n, tm.mk_int(0)), tm.Le(n, tm.Len(S(self.buf.data)))), kind="pre")
            return wrap_bytes(tm.Substr(S(self.buf.data), tm.mk_int(0), n))
        raise Unsupported("memoryview indexing other than [:n]")


class RawFile:
    """open(path, 'rb', buffering=0): unbuffered reads of the ghost content.

    Assumed contract of readinto: stores n bytes, 0 <= n <= len(buf), n <= remaining, and
    n == 0 iff the position is at the end of the file."""

    def __init__(self, path):
        c = cur()
        self.path = path
        self.content = file_content(S(path))
        self.pos = 0
        sym.mark_born(self)

    def __enter__(self):
        return self

    def __exit__(self, *a):
        return False

    def readinto(self, buf):
        c = cur()
        n = c.fresh(c.fresh_name("readinto.n"), INT)
        total = tm.Len(self.content)
        pos = sym.I(self.pos)
        rem = tm.Sub(total, pos)
        c.pc.append(tm.And(tm.Ge(n, tm.mk_int(0)), tm.Le(n, tm.mk_int(buf.size)), tm.Le(n, rem),
                           tm.Iff(tm.Eq(n, tm.mk_int(0)), tm.Eq(rem, tm.mk_int(0)))))
        buf.data = wrap_bytes(tm.Substr(self.content, pos, n))
        self.pos = wrap_int(tm.Add(pos, n))
        c.writes.append((self, "pos"))
        c.writes.append((buf, "data"))
        return wrap_int(n)

    def __havoc__(self, label):
        c = cur()
        p = c.fresh(c.fresh_name(label + ".pos"), INT)
        self.pos = SymInt(p)


def v_open(path, mode="r", buffering=-1, *a, **k):
    c = cur()
    if mode != "rb" or buffering != 0:
        raise Unsupported("open(): only ('rb', buffering=0) has an assumed contract")
    fails = c.fresh(c.fresh_name("open.fails"), BOOL)
    if c.fork(fails):
        raise OSError("open failed [assumed contract of open]")
    return RawFile(path)


trusted("open(p,'rb',buffering=0).readinto(buf): stores n <= len(buf) bytes of the file at the current "
        "position and advances; n == 0 iff end of file; the file content does not change during the read")


class HashlibStub:
    @staticmethod
    def sha256(data=b""):
        return GhostHash(data)


class CancelEvent:
    def __init__(self, name="cancel_event"):
        self.name = name

    def is_set(self):
        c = cur()
        return SymBool(c.fresh(c.fresh_name(self.name + ".is_set"), BOOL))


FS_ENV = dict(os=OsStub(), Path=Path, open=v_open, bytearray=ByteBuf, memoryview=MemView,
              hashlib=HashlibStub)
