"""C09 bounded stand-in: every committed state of short histories is well formed, and no request raises an
internal error.

The contracts of C09_invariants.py prove that single mutating functions preserve the local invariants.  "After
every committed change, for any sequence" is a whole-history statement; this stand-in enumerates *all* sequences
of a fixed menu of director-level operations up to a stated length on the real code (in-memory database, real
Scheduler for dispatch) and, after every transaction, runs the code's own consistency check in strict mode plus
the invariants of the property read directly from the tables.

World: plan.py (static, boot step ./plan.py), a static input s.txt, step A: s.txt -> o.txt, step B: o.txt -> r.txt.
The plan script has five versions (A and B; A only; B first and A's output declared by amendment; a step D on an
undeclared input; a step E that would close a dependency cycle with D, declared before D).

Operations (each is what the director, the executor or the watcher does, in the transactions they use):
  run        pop the next job from the real scheduler and carry it out successfully (plan step: run the script)
  fail       pop the next job and let it fail
  skipcheck  pop the next job; if it is a hash check, find the inputs changed (reset to pending, as the executor)
  edit       switch to the next version of the plan script and report plan.py as changed
  touch      s.txt changed on disk          rm_s   s.txt deleted        rm_o   o.txt deleted
  confirm    hash jobs confirm every UNCONFIRMED file      clean   delete_detached
"""

from __future__ import annotations

import asyncio
import itertools
import os

from vc import extract
from vc.report import bounded

OPS = ["run", "fail", "skipcheck", "edit", "touch", "rm_s", "rm_o", "confirm", "clean"]


def _mods():
    m = {}
    for name in ("workflow", "enums", "exceptions", "hash", "nglob", "sqlite3", "step", "file", "scheduler"):
        m[name] = extract.import_module(f"stepup/core/{name}.py")
    return m


class Internal(Exception):
    """An internal error or an ill-formed committed state."""


class World:
    def __init__(self, m):
        self.m = m
        self.version = 0
        self.counter = 0
        self.plan_dirty = False
        self.dirty = set()  # labels of steps one of whose inputs changed since they last ran (a hash check fails for them)
        self.s_on_disk = True  # whether the source s.txt exists on the (imagined) disk

    # ----- helpers

    def fh(self, tag):
        self.counter += 1
        d = (tag.encode() + bytes([self.counter % 251])).ljust(32, b"x")[:32]
        return self.m["hash"].FileHash(d, 0o100644, float(self.counter), self.counter, 7)

    def find(self, cls, label):
        n = self.wf.find(cls, label)
        return n

    def state_of(self, path):
        f = self.wf.find(self.m["file"].File, path)
        if f is None or f.is_detached():
            return None
        return f.get_state()

    async def read(self, fn):
        async with self.db:
            return fn()

    async def tx(self, fn):
        """One committed transaction, then the checks."""
        E = self.m["exceptions"]
        try:
            async with self.db:
                fn()
        except E.GraphError:
            pass  # a rejected request: rolled back
        except (E.ConsistencyError, AssertionError) as e:
            raise Internal(f"{type(e).__name__}: {str(e)[:200]}") from e
        except Exception as e:  # noqa: BLE001
            if type(e).__name__ in ("IntegrityError", "OperationalError", "InterfaceError", "KeyError", "TypeError",
                                    "AttributeError", "ValueError", "IndexError"):
                raise Internal(f"{type(e).__name__}: {str(e)[:200]}") from e
            raise
        await self.check()

    async def check(self):
        E = self.m["exceptions"]
        async with self.db:
            try:
                self.wf._check_consistency()
            except E.ConsistencyError as e:
                raise Internal(f"ill-formed committed state: {str(e)[:200]}") from e
            self.table_invariants()

    def table_invariants(self):
        """The property's clauses read from the tables (independent of _check_consistency)."""
        db = self.db
        FS, SS = self.m["enums"].FileState, self.m["enums"].StepState
        rows = db.execute("SELECT i, kind, creator, detached FROM node").fetchall()
        by = {r[0]: r for r in rows}
        for i, kind, creator, detached in rows:
            if kind == "root":
                continue
            # detached exactly when not reachable from the root through creator links
            seen, cur_, reach = set(), i, False
            while cur_ is not None and cur_ not in seen:
                seen.add(cur_)
                if by[cur_][1] == "root":
                    reach = True
                    break
                cur_ = by[cur_][2]
            if reach == bool(detached):
                raise Internal(f"node {i} ({kind}) detached={detached} but reachable={reach}")
        kinds = {r[0]: r[1] for r in rows}
        for src, snk in db.execute("SELECT source, sink FROM dependency"):
            pair = (kinds[src], kinds[snk])
            if pair not in (("file", "step"), ("step", "file"), ("st", "file")):
                raise Internal(f"dependency links {pair}")
        # acyclic
        edges = {}
        for src, snk in db.execute("SELECT source, sink FROM dependency"):
            edges.setdefault(src, []).append(snk)
        color = {}

        def visit(n):
            color[n] = 1
            for k in edges.get(n, ()):
                if color.get(k) == 1:
                    raise Internal("dependency cycle")
                if k not in color:
                    visit(k)
            color[n] = 2

        for n in list(edges):
            if n not in color:
                visit(n)
        for node, state, h, detached in db.execute(
                "SELECT file.node, file.state, file.hash, node.detached FROM file JOIN node ON node.i = file.node"):
            if state == FS.UNDECLARED.value and not detached:
                raise Internal(f"file {node} UNDECLARED but attached")
            if state in (FS.CONFIRMED.value, FS.BUILT.value, FS.OUTDATED.value) and h is None:
                raise Internal(f"file {node} in state {state} without hash")
            if state in (FS.MISSING.value, FS.PLANNED.value, FS.VOLATILE.value) and h is not None:
                raise Internal(f"file {node} in state {state} with a stored hash")
        sql = ("SELECT snode.label, fnode.label, file.state FROM step JOIN node AS snode ON snode.i = step.node "
               "JOIN dependency ON dependency.source = step.node JOIN node AS fnode ON fnode.i = dependency.sink "
               "JOIN file ON file.node = fnode.i WHERE step.state = ? AND NOT fnode.detached AND NOT snode.detached")
        for slabel, flabel, fstate in db.execute(sql, (SS.SUCCEEDED.value,)):
            if fstate not in (FS.BUILT.value, FS.VOLATILE.value):
                raise Internal(f"succeeded step {slabel} has output {flabel} in state {fstate}")
        for node, state, deferred in db.execute("SELECT node, state, deferred FROM step"):
            if deferred and state != SS.PENDING.value:
                raise Internal(f"step {node} deferred in state {state}")

    # ----- the plan script

    def plan_script(self, plan):
        wf, m = self.wf, self.m
        Step = m["step"].Step
        v = self.version % 5
        if v == 1:
            # D consumes h.txt, which nothing declares, and builds k.txt
            wf.define_step(plan, "D", inp_paths=["h.txt"], out_paths=["k.txt"])
            # S announces its input k.txt and its output h.txt only when it runs: h -> D -> k -> S -> h would be a cycle
            wf.define_step(plan, "S")
            return
        if v == 2:
            # E would close the cycle h -> D -> k -> E -> h with D (also when D is detached at that moment)
            wf.define_step(plan, "E", inp_paths=["k.txt"], out_paths=["h.txt"])
            wf.define_step(plan, "D", inp_paths=["h.txt"], out_paths=["k.txt"])
            return
        wf.declare_static_files(plan, ["s.txt"])
        if v == 0:
            wf.define_step(plan, "A", inp_paths=["s.txt"], out_paths=["o.txt"])
            wf.define_step(plan, "B", inp_paths=["o.txt"], out_paths=["r.txt"])
        elif v == 3:
            wf.define_step(plan, "A", inp_paths=["s.txt"], out_paths=["o.txt"])
        else:
            wf.define_step(plan, "B", inp_paths=["o.txt"], out_paths=["r.txt"])
            wf.define_step(plan, "A", inp_paths=["s.txt"])
            a = wf.find(Step, "A")
            wf.amend_step(a, out_paths=["o.txt"], ran_concurrently=lambda x, y: False)

    def consumers_of(self, path):
        """Labels of the steps that have the file as an input (to be called inside a transaction)."""
        return {l for (l,) in self.db.execute(
            "SELECT snode.label FROM node AS fnode JOIN dependency ON dependency.source = fnode.i "
            "JOIN node AS snode ON snode.i = dependency.sink WHERE fnode.kind = 'file' AND fnode.label = ? "
            "AND snode.kind = 'step'", (path,))}

    def script_for(self, label):
        """The declarations a step makes when it runs (a plan-like step), or None."""
        if label == "S":
            return self.s_script
        return self.plan_script if label == "./plan.py" else None

    def s_script(self, step):
        una, unf, _ = self.wf.amend_step(step, inp_paths=["k.txt"], out_paths=["h.txt"],
                                         ran_concurrently=lambda a, b: False)
        return "defer" if (una or unf) else None

    # ----- operations

    async def boot(self):
        m = self.m
        self.wf = m["workflow"].Workflow(self.db, dir_queue=asyncio.Queue())
        await self.wf.initialize()
        self.scheduler = m["scheduler"].Scheduler(self.wf, db=self.db)
        await self.scheduler.initialize(None)

        def start():
            wf = self.wf
            wf.declare_static_files(wf.root, ["plan.py"])
            wf.update_file_hashes({"plan.py": self.fh("plan")}, cause=m["enums"].HashUpdateCause.CONFIRMED)
            wf.define_step(wf.root, "./plan.py", inp_paths=["plan.py"], need=m["enums"].Need.PLAN, _safe=True)

        await self.tx(start)

    async def op(self, name):
        m = self.m
        wf = self.wf
        E = m["enums"]
        FS, Cause = E.FileState, E.HashUpdateCause
        File, Step = m["file"].File, m["step"].Step
        if name in ("run", "fail", "skipcheck"):
            try:
                job = await self.scheduler.pop_next_job()
            except (m["exceptions"].ConsistencyError, AssertionError) as e:
                raise Internal(f"pop_next_job: {type(e).__name__}: {str(e)[:200]}") from e
            await self.check()
            if job is None:
                return
            step = job.step
            checking = await self.read(step.get_state) == E.StepState.CHECKING
            stale = (step.label == "./plan.py" and self.plan_dirty) or step.label in self.dirty
            if checking and stale and name in ("run", "fail"):
                # the executor finds the input digest changed (plan.py was edited): reset, then the step runs
                def reset0():
                    step.reset_for_rerun()
                    step.delete_hash()
                    step.set_state(E.StepState.PENDING)
                await self.tx(reset0)
                checking = False
            if checking:
                if name == "skipcheck":
                    def reset():
                        step.reset_for_rerun()
                        step.delete_hash()
                        step.set_state(E.StepState.PENDING)
                    await self.tx(reset)
                    return
                if name == "run":
                    def skip():
                        outs = {f.label: self.fh(f.label) for f in step.products(File)
                                if f.get_state() in (FS.PLANNED, FS.OUTDATED)}
                        wf.update_file_hashes(outs, cause=Cause.SUCCEEDED)
                        step.mark_completed(m["hash"].StepHash(b"i" * 32, None, b"o" * 32, None), False)
                    await self.tx(skip)
                    return
                # fail on a check: the executor resets it and it runs (and fails) later
                def reset2():
                    step.reset_for_rerun()
                    step.delete_hash()
                    step.set_state(E.StepState.PENDING)
                await self.tx(reset2)
                return
            await self.tx(step.reset_for_rerun)
            self.dirty.discard(step.label)
            ok = name == "run"
            defer = False
            script = self.script_for(step.label)
            if script is not None:
                if step.label == "./plan.py":
                    self.plan_dirty = False
                # each RPC request of the script is a transaction of its own; a rejected one fails the step
                try:
                    async with self.db:
                        if script(step) == "defer":
                            ok, defer = False, True
                except m["exceptions"].GraphError:
                    ok = False
                except (m["exceptions"].ConsistencyError, AssertionError) as e:
                    raise Internal(f"plan script: {type(e).__name__}: {str(e)[:200]}") from e
                await self.check()

            def complete():
                outs = {}
                for f in step.products(File):
                    st = f.get_state()
                    if ok and st in (FS.PLANNED, FS.OUTDATED):
                        outs[f.label] = self.fh(f.label)
                    elif not ok and st in (FS.PLANNED, FS.OUTDATED, FS.BUILT):
                        outs[f.label] = m["hash"].FileHash.unknown()
                wf.update_file_hashes(outs, cause=Cause.SUCCEEDED if ok else Cause.FAILED)
                new_hash = m["hash"].StepHash(b"i" * 32, None, b"o" * 32, None) if ok else None
                step.mark_completed(new_hash, defer)

            await self.tx(complete)
        elif name == "edit":
            self.version += 1
            self.plan_dirty = True
            if await self.read(lambda: self.state_of("plan.py")) in (FS.CONFIRMED, FS.MISSING):
                await self.tx(lambda: wf.update_file_hashes({"plan.py": self.fh("plan")}, cause=Cause.EXTERNAL))
        elif name in ("touch", "rm_s", "rm_o"):
            path = "o.txt" if name == "rm_o" else "s.txt"
            st = await self.read(lambda: self.state_of(path))
            known = name == "touch"
            if path == "s.txt":
                self.s_on_disk = known
            key = (Cause.EXTERNAL, st, known)
            if st is not None and key in m["workflow"]._HASH_TRANSITIONS:
                h = self.fh(path) if known else m["hash"].FileHash.unknown()
                self.dirty |= await self.read(lambda: self.consumers_of(path))
                await self.tx(lambda: wf.update_file_hashes({path: h}, cause=Cause.EXTERNAL))
        elif name == "confirm":
            def confirm():
                rows = wf.db.execute(
                    "SELECT label FROM node JOIN file ON file.node = node.i WHERE NOT detached AND file.state = ?",
                    (FS.UNCONFIRMED.value,)).fetchall()
                if rows:
                    wf.update_file_hashes({p: (self.fh(p) if (p != "s.txt" or self.s_on_disk) else m["hash"].FileHash.unknown())
                                           for (p,) in rows}, cause=Cause.CONFIRMED)
            await self.tx(confirm)
        elif name == "clean":
            await self.tx(wf.delete_detached)
        else:
            raise AssertionError(name)


async def _history(m, ops):
    w = World(m)
    with m["sqlite3"].DBSession.open(":memory:") as db:
        w.db = db
        await w.boot()
        for k, name in enumerate(ops):
            try:
                await w.op(name)
            except Internal as e:
                return dict(history=list(ops[:k + 1]), error=str(e))
    return None


def _chunk(args):
    """Worker: run a list of histories, return the failing ones."""
    histories = args
    m = _mods()
    os.environ["STEPUP_DEBUG"] = "1"
    out = []
    for ops in histories:
        r = asyncio.run(_history(m, list(ops)))
        if r is not None:
            out.append(r)
    return out


def run_histories(histories, workers=16):
    import concurrent.futures
    import multiprocessing

    histories = list(histories)
    if not histories:
        return []
    size = max(1, len(histories) // (workers * 8))
    chunks = [histories[i:i + size] for i in range(0, len(histories), size)]
    ctx = multiprocessing.get_context("fork")
    failures = []
    with concurrent.futures.ProcessPoolExecutor(max_workers=workers, mp_context=ctx) as ex:
        for res in ex.map(_chunk, chunks):
            failures.extend(res)
    return failures


@bounded("committed_states", props=["C09"],
         bound="exhaustive: every sequence of 9 director-level operations (run / fail / skipcheck a popped job, edit the "
               "plan, touch / delete files, confirm, clean) of length <= 4 (quick) / <= 6 (thorough) after boot and the "
               "first plan run, on a world of one plan with five script versions, four steps and five files; after "
               "every transaction the code's strict consistency check and the property's invariants read from the tables")
def committed_states(tier, seed):
    depth = 4 if tier == "quick" else 6
    prefix = ("run",)  # the boot step runs the plan script first
    histories = [prefix + ops for length in range(0, depth + 1) for ops in itertools.product(OPS, repeat=length)]
    failures = run_histories(histories)
    # report minimal histories only: drop a failing history that extends another failing one
    failures.sort(key=lambda f: len(f["history"]))
    minimal = []
    for f in failures:
        if not any(f["history"][:len(g["history"])] == g["history"] for g in minimal):
            minimal.append(f)
    return dict(evaluations=len(histories), failures=minimal[:20])
