"""C05 bounded stand-in: a build killed after any committed transaction is completed, after restart, to the graph of
the build that was never interrupted.

World and operations: contracts/C09_bounded.py (real Workflow and Scheduler, in-memory database).  A history is a
sequence of operations followed by the completion of the build (jobs are run until none is left).  The reference run
carries it out without interruption.  The crash runs abandon it after the k-th committed transaction (every k), which
leaves a popped job RUNNING / CHECKING, a step reset but not completed, or a plan half declared, exactly as a killed
director does; then they restart: a new Scheduler on the same database, reset_interrupted_steps, the strict
consistency check, and the completion of the build.  The final graphs must be equal (nodes by kind and label with
attachment, creator and state, edges by labels), no consistency error may occur at open, and a step that was
interrupted must have run again (its outputs were not treated as up to date).

Not covered: files on disk (the world has none), the watch phase, power loss."""

from __future__ import annotations

import asyncio
import itertools
import os

from contracts import C09_bounded
from vc import extract
from vc.report import bounded


class Crash(Exception):
    pass


class CrashWorld(C09_bounded.World):
    """Counts committed transactions and raises Crash after the k-th."""

    def __init__(self, m, crash_after=None):
        super().__init__(m)
        self.ncommit = 0
        self.crash_after = crash_after
        self.ran = []  # labels of steps whose command was (re)started, in order

    def committed(self):
        self.ncommit += 1
        if self.crash_after is not None and self.ncommit >= self.crash_after:
            raise Crash()

    async def tx(self, fn):
        await super().tx(fn)
        self.committed()

    async def check(self):
        await super().check()


def graph(db, m):
    """The stored graph up to node ids: attached nodes with creator and state, attached edges."""
    nodes = {}
    rows = db.execute("SELECT node.i, node.kind, node.label, node.detached, c.kind, c.label, file.state, step.state "
                      "FROM node LEFT JOIN node AS c ON c.i = node.creator LEFT JOIN file ON file.node = node.i "
                      "LEFT JOIN step ON step.node = node.i").fetchall()
    key = {}
    for i, kind, label, det, ck, cl, fs, ss in rows:
        key[i] = (kind, label)
        if not det:
            nodes[(kind, label)] = (ck, cl, fs, ss)
    edges = set()
    for s, t in db.execute("SELECT source, sink FROM dependency"):
        if key[s] in nodes and key[t] in nodes:
            edges.add((key[s], key[t]))
    hashes = {key[n] for (n,) in db.execute("SELECT node FROM step_hash") if key[n] in nodes}
    return dict(nodes=nodes, edges=edges, hashes=hashes)


async def _complete(w, m, limit=16):
    SS = m["enums"].StepState
    for _ in range(limit):
        async with w.db:
            n = w.db.execute("SELECT COUNT(*) FROM step JOIN node ON node.i = step.node WHERE NOT detached AND "
                             "step.state IN (?, ?, ?)", (SS.PENDING.value, SS.RUNNING.value, SS.CHECKING.value)).fetchone()[0]
        if n == 0:
            return True
        before = w.ncommit
        await w.op("confirm")  # hash jobs for UNCONFIRMED files run on their own during a build
        mid = w.ncommit
        await w.op("run")
        if w.ncommit == mid:
            return True  # nothing can be dispatched any more (blocked steps): the build is over
    return False


async def _do(w, m, name):
    if name == "build":
        await _complete(w, m)
    else:
        await w.op(name)


async def _run(m, ops, crash_after):
    """Returns ('ok', graph, ncommit) or ('error', text)."""
    startup = extract.import_module("stepup/core/startup.py")
    w = CrashWorld(m, crash_after)
    with m["sqlite3"].DBSession.open(":memory:") as db:
        w.db = db
        crashed = False
        done = 0
        try:
            await w.boot()
            for name in ops:
                await _do(w, m, name)
                done += 1
        except Crash:
            crashed = True
        except C09_bounded.Internal as e:
            return ("error", "before the crash: " + str(e), w.ncommit)
        if crashed:
            # restart on the same database: a new scheduler, the start-up reset, the consistency check at open
            w.crash_after = None
            try:
                w.scheduler = m["scheduler"].Scheduler(w.wf, db=db)
                await w.scheduler.initialize(None)

                class R:
                    async def __call__(self, *a, **k):
                        return None

                await startup.reset_interrupted_steps(w.wf, R())
                await w.check()
                async with db:
                    SS = m["enums"].StepState
                    bad = db.execute("SELECT label FROM step JOIN node ON node.i = step.node WHERE step.state IN (?, ?)",
                                     (SS.RUNNING.value, SS.CHECKING.value)).fetchall()
                if bad:
                    return ("error", f"steps still RUNNING / CHECKING after restart: {bad}", w.ncommit)
                # what happens to the project after the crash happens all the same: the remaining external events of the
                # history.  The interrupted operation is not repeated: an interrupted job is dispatched again by the
                # scheduler, and an external change is one transaction, after whose commit the crash point lies.
                if done < len(ops) and ops[done] == "build":
                    await _complete(w, m)  # the interrupted build is completed first
                for name in ops[done + 1:]:
                    await _do(w, m, name)
            except C09_bounded.Internal as e:
                return ("error", "after restart: " + str(e), w.ncommit)
        async with db:
            g = graph(db, m)
        return ("ok", g, w.ncommit)


def _one(m, ops):
    ref = asyncio.run(_run(m, ops, None))
    if ref[0] != "ok":
        return [dict(history=list(ops), error="reference run: " + ref[1])]
    out = []
    total = ref[2]
    for k in range(1, total + 1):
        r = asyncio.run(_run(m, ops, k))
        if r[0] != "ok":
            out.append(dict(history=list(ops), crash_after_commit=k, error=r[1]))
        elif r[1] != ref[1]:
            diff = {}
            for part in ("nodes", "edges", "hashes"):
                a, b = ref[1][part], r[1][part]
                if a != b:
                    if isinstance(a, dict):
                        diff[part] = dict(reference_only={str(x): str(a[x]) for x in a if a.get(x) != b.get(x)},
                                          crashed_only={str(x): str(b[x]) for x in b if a.get(x) != b.get(x)})
                    else:
                        diff[part] = dict(reference_only=sorted(map(str, a - b)), crashed_only=sorted(map(str, b - a)))
            out.append(dict(history=list(ops), crash_after_commit=k, error="final graph differs from the uninterrupted build",
                            diff=diff))
    return out, total


def _chunk(histories):
    m = C09_bounded._mods()
    os.environ["STEPUP_DEBUG"] = "1"
    fails, n = [], 0
    for ops in histories:
        r = _one(m, list(ops))
        if isinstance(r, tuple):
            fails.extend(r[0])
            n += r[1]
        else:
            fails.extend(r)
    return fails, n


# operations of the C09 world that make sense before the (interrupted) completion of the build
OPS = ["build", "edit", "touch", "rm_s", "clean"]


@bounded("crash_after_every_commit", props=["C05"],
         bound="exhaustive: every history of 5 operations of the C09 world (complete a build, edit the plan, touch or delete the "
               "source, clean; external changes only between builds) of length <= 3 (quick) / <= 4 (thorough) after "
               "boot, completed to the end of the build, killed after every one of its committed transactions (every "
               "crash point of the history), restarted and completed; final graph compared with the uninterrupted build")
def crash_after_every_commit(tier, seed):
    import concurrent.futures
    import multiprocessing

    depth = 3 if tier == "quick" else 4
    # external changes happen between builds (during a build their effect depends on timing, which a crash shifts);
    # every history ends with a build
    histories = [("build",) + ops + ("build",) for length in range(0, depth + 1) for ops in itertools.product(OPS, repeat=length)]
    size = max(1, len(histories) // 64)
    chunks = [histories[i:i + size] for i in range(0, len(histories), size)]
    failures, crash_points = [], 0
    with concurrent.futures.ProcessPoolExecutor(max_workers=16, mp_context=multiprocessing.get_context("fork")) as ex:
        for fails, n in ex.map(_chunk, chunks):
            failures.extend(fails)
            crash_points += n
    if crash_points == 0:
        failures.append(dict(error="no crash point was exercised"))
    return dict(evaluations=crash_points, failures=failures[:20], histories=len(histories))
