"""Workflow.update_file_hashes applies the transition table, row by row (C09, C03, C05).

Scope (stated as an entry assumption of the contract, reported as such): a request that names exactly TWO paths.
The loops of the function treat every record independently; with a list of fixed length they run natively and the
function is executed for *every* combination of cause, old state and hash-known-ness of both records (the symbolic
enums are decided case by case), every path, every node id and every hash.  Requests of other lengths are not
covered by this contract (they are exercised by the bounded stand-ins of C09 / C05 / C10).

For each of the two records the contract compares what the function does with the table `_HASH_TRANSITIONS` read from
the working tree (whose own invariants -- the role of a file never changes, which transitions act -- are the structural
obligations C09/structure/hash_transitions):

  * combination not in the table (either record): ConsistencyError, and nothing is written;
  * otherwise one UPDATE per record with exactly the table's new state and the given hash for that node;
  * the follow-up named by the table (handle_updated_file / handle_deleted_file / mark_consuming_steps_pending) is
    called for that record's file, once, and no other follow-up is; all writes precede all follow-ups;
  * a request that does not find exactly its paths in the graph is refused (ConsistencyError) before any write."""

from __future__ import annotations

from contracts import common
from contracts.common import FileState
from contracts.trusted import DbStub
from vc import engine, extract, sym
from vc import terms as tm
from vc import types as ty
from vc.engine import contract
from vc.sym import B, I, S, cur, wrap_bool

wfmod = extract.import_module("stepup/core/workflow.py")
hashmod = extract.import_module("stepup/core/hash.py")
HashUpdateCause = common.enums.HashUpdateCause
ConsistencyError = common.ConsistencyError
K = 2


class _FH:
    """A FileHash as the function uses it: is_unknown and to_json()."""

    def __init__(self, name):
        c = cur()
        self.name = name
        self.unknown = sym.SymBool(c.fresh(name + ".is_unknown", tm.BOOL))
        self.json = ty.Str.fresh(name + ".json")
        self.digest = b"\0" * 32
        self.mode = 0

    @property
    def is_unknown(self):
        # decided here (the function uses it as part of a dictionary key)
        return cur().fork(self.unknown.t)

    def to_json(self):
        return self.json


class _Hashes:
    """The mapping path -> FileHash of the request, with exactly K distinct paths."""

    def __init__(self):
        c = cur()
        self.paths = [ty.Str.fresh(f"path{k}") for k in range(K)]
        c.pc.append(tm.Distinct(*[S(p) for p in self.paths]) if K > 1 else tm.TRUE)
        self.hashes = [_FH(f"fh{k}") for k in range(K)]

    def __len__(self):
        return K

    def __symlen__(self):
        return K

    def __iter__(self):
        return iter(self.paths)

    def __getitem__(self, path):
        c = cur()
        for p, h in zip(self.paths, self.hashes):
            if c.fork(tm.Eq(S(p), S(path))):
                return h
        raise KeyError(path)


class _Db(DbStub):
    """The database as the function uses it: the scratch table, the lookup of the requested paths, the UPDATE."""

    def execute(self, sql, args=()):
        c = cur()
        up = " ".join(sql.upper().split())
        if up.startswith("SELECT NODE.I, NODE.LABEL AS PATH, FILE.STATE FROM NODE"):
            c.event("ufh.select", sql=sql)
            return self.rows
        c.event("ufh.sql", sql=sql, args=args)
        return []

    def executemany(self, sql, seq):
        rows = [tuple(r) for r in seq]
        cur().event("ufh.many", sql=" ".join(sql.split()), rows=rows)
        return None


def _self(args):
    c = cur()
    wf = ty.ObjOf(common.Workflow, dict(), name="Workflow").fresh("workflow")
    db = _Db("db")
    # the lookup returns one row per requested path that has a file node: here either both (in the order of the
    # paths, ORDER BY path) or only the first (the other path has no node)
    fh = args["file_hashes"]
    both = sym.SymBool(c.fresh("both_paths_have_nodes", tm.BOOL))
    rows = []
    for k in range(K):
        rows.append((ty.Int.fresh(f"node{k}"), fh.paths[k], ty.EnumOf(FileState).fresh(f"state{k}")))
    c.pc.append(tm.Ne(I(rows[0][0]), I(rows[1][0])))
    db.rows = rows if c.fork(both.t) else rows[:1]
    db.all_rows = rows
    wf._fields["db"] = db
    return wf


def _file(graph, i, label):
    return ("file", i, label)


def _ev(kind):
    def f(self, file):
        cur().event("ufh.followup", which=kind, file=file)

    return f


for _name, _kind in (("handle_updated_file", "updated"), ("handle_deleted_file", "deleted")):
    contract(f"stepup/core/workflow.py::Workflow.{_name}", props=[], verify=False, impl=_ev(_kind),
             note="follow-up of a hash update (marks consumers pending / outdated); recorded as an event here")(
        type("_assumed_" + _name, (), dict(modifies=[])))


def _finish(c, outcome, args, old):
    wf, fh, cause = args["self"], args["file_hashes"], args["cause"]
    db = wf._fields["db"]
    table = wfmod._HASH_TRANSITIONS
    many = [e for e in c.trace if e.kind == "ufh.many"]
    updates = [e for e in many if e.sql.upper().startswith("UPDATE FILE SET STATE = ?, HASH = ? WHERE NODE = ?")]
    follow = [e for e in c.trace if e.kind in ("ufh.followup", "mark_consuming_steps_pending")]
    found_all = len(db.rows) == K
    # the combination of each record is concrete on this path (the table lookup decided the enums)
    def decided_enum(v, cls):
        if isinstance(v, cls):
            return v
        t = I(v)
        if t.is_lit:
            return cls(tm.litval(t))
        for m in cls:
            if c.known.get(tm.Eq(t, tm.mk_int(m.value)).s) is True:
                return m
        return None

    keys = []
    for k in range(K if found_all else 0):
        ku = c.known.get(fh.hashes[k].unknown.t.s)
        keys.append((decided_enum(cause, HashUpdateCause), decided_enum(db.all_rows[k][2], FileState),
                     None if ku is None else (not ku)))
    if outcome[0] == "raise":
        if not isinstance(outcome[1], ConsistencyError):
            return
        c.prove("nothing_written_when_refused", tm.mk_bool(not updates and not follow), kind="trace")
        if found_all:
            # records are looked at in order: the refusal comes from the last combination that was decided
            decided = [k for k in keys if None not in k]
            c.prove("refused_only_for_a_combination_outside_the_table",
                    tm.mk_bool(bool(decided) and decided[-1] not in table and all(k in table for k in decided[:-1])),
                    kind="trace", detail=str(keys))
        return
    if outcome[0] != "return":
        return
    c.prove("every_requested_path_was_found", tm.mk_bool(found_all), kind="trace")
    if not found_all:
        return
    c.prove("combinations_are_decided", tm.mk_bool(all(None not in k for k in keys)), kind="trace", detail=str(keys))
    if any(None in k for k in keys):
        return
    c.prove("accepted_only_for_combinations_in_the_table", tm.mk_bool(all(k in table for k in keys)), kind="trace", detail=str(keys))
    if not all(k in table for k in keys):
        return
    c.prove("one_update_statement", tm.mk_bool(len(updates) == 1 and len(updates[0].rows) == K), kind="trace")
    if len(updates) != 1 or len(updates[0].rows) != K:
        return
    want_follow = []
    for k in range(K):
        new_state, action = table[keys[k]]
        st, js, node = updates[0].rows[k]
        c.prove(f"record{k}.state_and_hash_from_the_table", tm.And(
            tm.Eq(I(st), tm.mk_int(new_state.value)), tm.Eq(S(js), S(fh.hashes[k].json)), tm.Eq(I(node), I(db.all_rows[k][0]))),
            kind="post", detail=f"{keys[k]} -> {new_state.name}")
        if action is not None:
            want_follow.append((action, k))
    got = []
    for e in follow:
        which = e.which if e.kind == "ufh.followup" else "completed"
        f = e.file
        got.append((which, f))
    ok_count = len(got) == len(want_follow)
    c.prove("exactly_the_follow_ups_of_the_table", tm.mk_bool(ok_count and sorted(w for w, _ in got) == sorted(a for a, _ in want_follow)),
            kind="trace", detail=f"want {want_follow}, got {[w for w, _ in got]}")
    if ok_count:
        for action, k in want_follow:
            cand = [f for w, f in got if w == action]
            c.prove(f"record{k}.follow_up_on_its_own_file", tm.Or(*[
                tm.And(tm.Eq(I(f[1]), I(db.all_rows[k][0])), tm.Eq(S(f[2]), S(db.all_rows[k][1]))) for f in cand
                if isinstance(f, tuple)]), kind="post")
    first_follow = min([e.index for e in follow], default=None)
    c.prove("writes_precede_follow_ups", tm.mk_bool(first_follow is None or updates[0].index < first_follow), kind="trace")


from contracts import C03_inputs  # noqa: E402

_u = C03_inputs.update_file_hashes_assumed
_u.verify = True
_u.props = ["C09", "C03", "C05"]
_u.args = dict(file_hashes=lambda a: _Hashes(), self=_self, cause=ty.EnumOf(HashUpdateCause))
_u.env = dict(File=_file, stat=type("stat", (), dict(filemode=staticmethod(lambda m: "-"))), fmt_short_digest=lambda d: "digest")
_u.may_raise_internal = {ConsistencyError: None}
_u.finish = _finish
def _two_paths(file_hashes):
    """Scope of the proof: the request names exactly two distinct paths (the loops run natively over lists of that
    length; every combination of cause, old state and hash-known-ness of both records is executed)."""
    return True


_u.entry = _two_paths
_u.note = "applies new file hashes with the given cause; verified for requests of exactly two paths (C09_hashes)"


# ---------------------------------------------------------------- the follow-ups: handle_updated_file / handle_deleted_file


class _HFile:
    """A file node as the follow-ups use it: its state, its creator (a step, or something else), its path."""

    def __init__(self, name):
        c = cur()
        self.state = ty.EnumOf(FileState).fresh(name + ".state")
        self.path = ty.Str.fresh(name + ".path")
        self.creator_is_step = sym.SymBool(c.fresh(name + ".creator_is_step", tm.BOOL))
        self.step = common.fresh_node(common.Step, None, name + ".creator")
        self.other = common.fresh_node(common.StaticTree, None, name + ".tree")

    def get_state(self):
        return self.state

    def creator(self):
        return self.step if cur().fork(self.creator_is_step.t) else self.other


def _state_is(file, *states):
    return tm.Or(*[tm.Eq(I(file.state), tm.mk_int(s.value)) for s in states])


def _follow_finish(deleted):
    def finish(c, outcome, args, old):
        if outcome[0] != "return":
            return
        file = args["file"]
        steps = [e for e in c.trace if e.kind == "mark_step_pending"]
        cons = [e for e in c.trace if e.kind == "mark_consuming_steps_pending"]
        is_step = file.creator_is_step.t
        if deleted:
            # the producer of an output that is gone runs again; whoever consumes the file reconsiders itself
            want_step = tm.And(_state_is(file, FileState.PLANNED), is_step)
            want_cons = tm.TRUE
        else:
            # a changed static file concerns its consumers; an output whose content is no longer what its producer wrote
            # (PLANNED after an external change, OUTDATED after a failed consumer found it changed) sends the producer
            # back to PENDING -- a SUCCEEDED step has all its outputs BUILT
            want_step = tm.And(_state_is(file, FileState.PLANNED, FileState.OUTDATED), is_step)
            want_cons = _state_is(file, FileState.CONFIRMED)
        c.prove("producer_marked_pending_iff_its_output_is_no_longer_built", tm.Iff(tm.mk_bool(len(steps) == 1), want_step), kind="post")
        c.prove("at_most_one_producer", tm.mk_bool(len(steps) <= 1 and all(e.step is file.step for e in steps)), kind="trace")
        c.prove("consumers_marked_pending_iff_required", tm.Iff(tm.mk_bool(len(cons) == 1), want_cons), kind="post")
        c.prove("consumers_of_this_file", tm.mk_bool(len(cons) <= 1 and all(e.file is file for e in cons)), kind="trace")

    return finish


for _name, _deleted in (("handle_updated_file", False), ("handle_deleted_file", True)):
    _c = engine.REGISTRY[f"stepup/core/workflow.py::Workflow.{_name}"]
    _c.verify = True
    _c.props = ["C09", "C03"]
    _c.args = dict(self=common.workflow_spec(), file=ty.Make(_HFile))
    _c.finish = _follow_finish(_deleted)


# ---------------------------------------------------------------- the table covers every external change that can arrive

from vc.report import structural  # noqa: E402


@structural("C09/scan/hash_transitions_cover_external_changes", props=["C09", "C05", "C04"],
            note="update_file_hashes raises ConsistencyError for a (cause, state, hash known) triple that _HASH_TRANSITIONS "
                 "does not list.  The EXTERNAL cause comes from the watcher and from the scan at start-up (after a kill "
                 "as well: C05): both hash every attached file that is not PLANNED / VOLATILE and pass on the hashes that "
                 "changed.  So for every such state the table needs the row 'now present', and -- unless the state never "
                 "has a stored hash (file_clear_hash: MISSING, PLANNED, VOLATILE), where 'still absent' is no change -- the "
                 "row 'now absent'.  The sets are read from the real code: _RELEVANT_STATES, the start-up query, the table.")
def hash_transitions_cover_external_changes():
    import ast

    HUC = common.enums.HashUpdateCause
    table = wfmod._HASH_TRANSITIONS
    relevant = set(wfmod._RELEVANT_STATES) - {FileState.UNDECLARED}  # UNDECLARED exists on detached nodes only
    # the start-up scan: every attached file whose state is not one of the two bound values
    _, rf = extract.find_def("stepup/core/startup.py", "rescan_files")
    src = ast.unparse(rf)
    scan_ok = "state NOT IN (?, ?) AND NOT detached" in src and "(FileState.PLANNED.value, FileState.VOLATILE.value)" in src
    out = [("scan/hash_transitions_cover_external_changes/startup_scans_all_but_planned_and_volatile", scan_ok,
            "rescan_files: state NOT IN (PLANNED, VOLATILE) AND NOT detached")]
    out.append(("scan/hash_transitions_cover_external_changes/watcher_relevance_is_the_same_set",
                relevant == set(FileState) - {FileState.PLANNED, FileState.VOLATILE, FileState.UNDECLARED}, str(sorted(s.name for s in relevant))))
    never_hashed = {FileState.MISSING, FileState.PLANNED, FileState.VOLATILE}
    for s in sorted(relevant):
        # UNCONFIRMED goes through the CONFIRMED cause at start-up and through EXTERNAL from the watcher
        out.append((f"scan/hash_transitions_cover_external_changes/EXTERNAL.{s.name}.present",
                    (HUC.EXTERNAL, s, True) in table, "row for a file that is on disk now"))
        if s not in never_hashed:
            out.append((f"scan/hash_transitions_cover_external_changes/EXTERNAL.{s.name}.absent",
                        (HUC.EXTERNAL, s, False) in table, "row for a file that is gone now"))
    for known in (True, False):
        out.append((f"scan/hash_transitions_cover_external_changes/CONFIRMED.UNCONFIRMED.{'present' if known else 'absent'}",
                    (HUC.CONFIRMED, FileState.UNCONFIRMED, known) in table, "start-up confirmation of an UNCONFIRMED file"))
    return out
