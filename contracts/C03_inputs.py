"""C03: a step only succeeds on inputs that were final while it ran (per-decision and per-completion clauses)."""

from __future__ import annotations

from contracts import common, trusted
from contracts.C13_hash import FileHashRec, FileMap, is_unknown_rec
from contracts.common import FileState, StepState
from contracts.trusted import DbStub, Reporter
from vc import engine, extract, sqlfront, sym
from vc import terms as tm
from vc import types as ty
from vc.engine import LoopSpec, contract
from vc.report import lemma, structural
from vc.sym import B, I, S, cur, wrap_bool, wrap_int
from vc.terms import BOOL, INT, STR

execmod = extract.import_module("stepup/core/executor.py")
runmod = extract.import_module("stepup/core/run.py")
schedmod = extract.import_module("stepup/core/scheduler.py")
hashmod = extract.import_module("stepup/core/hash.py")
Executor, Run, Scheduler = execmod.Executor, runmod.Run, schedmod.Scheduler
HashUpdateCause = common.enums.HashUpdateCause


# ---------------------------------------------------------------- _classify_execution


def _run_obj(name):
    return ty.ObjOf(Run, dict(success=ty.Bool, unavailable=ty.SetOf(ty.Str), unfresh=ty.SetOf(ty.Str)),
                    name="Run").fresh(name)


def _count(s):
    from vc import vcrt

    return I(vcrt.v_len(s))


def _classify_exec(args):
    wf = ty.ObjOf(common.Workflow, dict(), name="Workflow").fresh("workflow")
    return ty.ObjOf(Executor, dict(), name="Executor").fresh("self").__class__ and _mk_exec(wf)


def _mk_exec(wf):
    e = ty.ObjOf(Executor, dict(), name="Executor").fresh("self")
    e._fields["workflow"] = wf
    return e


@contract("stepup/core/workflow.py::Workflow.update_file_hashes", props=[], verify=False,
          note="applies new file hashes with the given cause (database write; verified under C04 / C09)")
class update_file_hashes_assumed:
    modifies = []

    @staticmethod
    def ensures(self, file_hashes, cause):
        cur().event("update_file_hashes", hashes=file_hashes, cause=cause)
        return True


def _classify_post(run, new_hash, unexpected_input_changes, result, old):
    """A hash comes back (the step may be recorded as succeeded) only if no input changed unexpectedly, no
    amended input was unavailable or unfresh, and the run itself succeeded."""
    h, wants = result
    h_none = h.isnone if isinstance(h, sym.SymOpt) else tm.mk_bool(h is None)
    had_dyn = tm.Or(tm.Gt(_count(old.run.unavailable), tm.mk_int(0)), tm.Gt(_count(old.run.unfresh), tm.mk_int(0)))
    ok = tm.And(tm.Not(B(unexpected_input_changes)), tm.Not(had_dyn), B(old.run.success))
    in_none = new_hash.isnone if isinstance(new_hash, sym.SymOpt) else tm.mk_bool(new_hash is None)
    return wrap_bool(tm.And(
        tm.Implies(tm.Not(h_none), ok),
        tm.Implies(tm.And(ok, tm.Not(in_none)), tm.Not(h_none)),
        # deferral is wanted exactly for unavailable / unfresh amended inputs, and never when inputs changed
        tm.Iff(B(wants), tm.And(had_dyn, tm.Not(B(unexpected_input_changes)))),
        tm.Implies(tm.Not(h_none), B(run.success))))


def _classify_finish(c, outcome, args, old):
    ups = [e for e in c.trace if e.kind == "update_file_hashes"]
    if outcome[0] == "return":
        c.prove("changed_inputs_recorded_as_failed",
                tm.Iff(tm.mk_bool(len(ups) == 1), B(args["unexpected_input_changes"])), kind="post")
        for e in ups:
            c.prove("cause_is_failed", e.cause == HashUpdateCause.FAILED and e.hashes is args["new_inp_hashes"], kind="post")


@contract("stepup/core/executor.py::Executor._classify_execution", props=["C03"])
class classify_execution:
    args = dict(self=lambda a: _mk_exec(ty.ObjOf(common.Workflow, dict(), name="Workflow").fresh("workflow")),
                run=ty.Make(_run_obj), new_hash=ty.Opt(ty.Opaque("StepHash")), new_inp_hashes=FileMap,
                unexpected_input_changes=ty.Bool)
    ensures = _classify_post
    finish = _classify_finish
    result = ty.TupleOf(ty.Opt(ty.Opaque("StepHash")), ty.Bool)
    modifies = ["run.success", "run.unavailable", "run.unfresh"]


# ---------------------------------------------------------------- Scheduler.ran_concurrently


def _times(name):
    return ty.MapOf(ty.Int, ty.Int).fresh(name)


@contract("stepup/core/scheduler.py::Scheduler.ran_concurrently", props=["C03"])
class ran_concurrently:
    """True iff both times exist and the consumer started no later than the producer stopped (a tie counts)."""

    args = dict(self=lambda a: ty.ObjOf(Scheduler, dict(start_times=ty.MapOf(ty.Int, ty.Int), stop_times=ty.MapOf(ty.Int, ty.Int)),
                                        name="Scheduler").fresh("self"), producer_i=ty.Int, consumer_i=ty.Int)
    ensures = lambda self, producer_i, consumer_i, result: wrap_bool(tm.Iff(B(result), tm.And(
        self.stop_times.contains_t(producer_i), self.start_times.contains_t(consumer_i),
        tm.Le(I(self.start_times.value_at(consumer_i)), I(self.stop_times.value_at(producer_i))))))
    result = ty.Bool
    modifies = []


# ---------------------------------------------------------------- Scheduler.record_run_started / record_run_stopped


class _Clock:
    """time.monotonic_ns(): never decreases, and every recorded start / stop time was read from it earlier."""

    @staticmethod
    def monotonic_ns():
        c = cur()
        now = c.fresh(c.fresh_name("now"), INT)
        sched = c.data["args"]["self"]
        from vc import vcrt

        for m in (sched.start_times, sched.stop_times):
            k = tm.Var(c.fresh_name("k!bound"), INT)
            c.pc.append(vcrt.quantified([(k.s, INT)], lambda m=m, k=k: tm.Implies(
                m.contains_t(sym.wrap_int(k)), tm.Le(I(m.value_at(sym.wrap_int(k))), now))))
        c.event("clock", now=now)
        return sym.wrap_int(now)


def _sched_times(a):
    return ty.ObjOf(Scheduler, dict(start_times=ty.MapOf(ty.Int, ty.Int), stop_times=ty.MapOf(ty.Int, ty.Int),
                                    run_counter=ty.Int), name="Scheduler").fresh("self")


def _member_facts(m, key):
    """Definitional instances for one key of a map: a member sits at its position in the sorted enumeration (so a
    bound on every enumerated value bounds its value) and a map with a member is not empty."""
    from vc import vcrt

    c = cur()
    vcrt.index_of(m, key)
    cnt = c.decls.fun("count_" + m.ksort, [m.has.sort], INT)(m.has)
    c.pc.append(tm.Implies(m.contains_t(key), tm.Gt(cnt, tm.mk_int(0))))


def _rrs_post(self, step_i, succeeded, old, ghost):
    """Retention (what ran_concurrently relies on): the stop time of a finished producer -- one recorded before, or the
    step that just succeeded -- is still recorded, unchanged, as long as some run that is still in progress started no
    later than that stop time.  Nothing else appears, and the step itself is no longer in progress."""
    k, j = ghost.k, ghost.j
    st0, sp0 = old.self.start_times, old.self.stop_times
    st, sp = self.start_times, self.stop_times
    for m in (st,):
        _member_facts(m, j)
    just = tm.And(tm.Eq(I(k), I(step_i)), B(succeeded))
    was = sp0.contains_t(k)
    in_progress = tm.And(st0.contains_t(j), tm.Ne(I(j), I(step_i)))
    # the stop time in question: the new one for the step that just succeeded, else the recorded one
    v_now = sp.value_at(k)
    needed = tm.And(tm.Or(just, was), in_progress,
                    tm.Or(just, tm.Le(I(st0.value_at(j)), I(sp0.value_at(k)))))
    kept = tm.And(sp.contains_t(k), tm.Or(just, tm.Eq(I(v_now), I(sp0.value_at(k)))))
    nothing_new = tm.Implies(sp.contains_t(k), tm.Or(just, was))
    progress = tm.And(tm.Not(st.contains_t(step_i)),
                      tm.Implies(tm.Ne(I(j), I(step_i)), tm.And(tm.Iff(st.contains_t(j), st0.contains_t(j)),
                                                                  tm.Implies(st0.contains_t(j), tm.Eq(I(st.value_at(j)), I(st0.value_at(j)))))))
    return wrap_bool(tm.And(tm.Implies(needed, kept), nothing_new, progress))


def _rrs_inv(e):
    """Pruning loop: an entry whose stop time is not older than the oldest start of a run in progress stays; the
    entries of the snapshot that have not been visited yet are still there (so `del` finds its key)."""
    k, p = e.ghost.k, I(e.q.p)
    sp_pre, sp = e.pre.self.stop_times, e.self.stop_times
    if getattr(e.seq, "distinct", None) is not None:
        # the snapshot list(stop_times.items()) holds every key once (positions p and i, p and i - 1)
        cur().pc.append(e.seq.distinct(p, e.i))
        cur().pc.append(e.seq.distinct(p, tm.Sub(I(e.i), tm.mk_int(1))))
    later = tm.And(tm.Le(I(e.i), p), tm.Lt(p, e.seq.length))
    pk, pv = e.seq.elem(p)
    return wrap_bool(tm.And(
        tm.Implies(later, tm.And(sp.contains_t(pk), tm.Eq(I(sp.value_at(pk)), I(pv)))),
        tm.Implies(tm.And(sp_pre.contains_t(k), tm.Ge(I(sp_pre.value_at(k)), I(e.oldest_start))),
                   tm.And(sp.contains_t(k), tm.Eq(I(sp.value_at(k)), I(sp_pre.value_at(k))))),
        tm.Implies(sp.contains_t(k), sp_pre.contains_t(k))))


from vc.report import replayer  # noqa: E402


@replayer("C03/Scheduler.record_run_stopped/")
def replay_record_run_stopped(o):
    """Rebuild the two dicts from the counter-model (restricted to the keys the model talks about), run the real
    method with a clock that returns a later time, and test retention on the result."""
    from vc.report import const_name, model_terms

    names = {n: const_name(o, n) for n in ("self.start_times.has", "self.start_times.val", "self.stop_times.has",
                                           "self.stop_times.val", "step_i", "succeeded", "ghost.k", "ghost.j")}
    if not all(names.values()):
        return dict(reproduced=False, reason="model constants not found")
    sth, stv, sph, spv = (names[x] for x in ("self.start_times.has", "self.start_times.val", "self.stop_times.has", "self.stop_times.val"))
    base = model_terms(o, [(INT, names["step_i"]), (BOOL, names["succeeded"]), (INT, names["ghost.k"]), (INT, names["ghost.j"])])
    if not base:
        return dict(reproduced=False, reason="no model")
    step_i, succ, k, j = (base[names[x]] for x in ("step_i", "succeeded", "ghost.k", "ghost.j"))
    pin = [f"(= {names['step_i']} {_smt_int(step_i)})", f"(= {names['ghost.k']} {_smt_int(k)})", f"(= {names['ghost.j']} {_smt_int(j)})",
           f"(= {names['succeeded']} {'true' if succ else 'false'})"]
    keys = sorted({step_i, k, j})
    terms = []
    for key in keys:
        kk = _smt_int(key)
        terms += [(BOOL, f"(select {sth} {kk})"), (INT, f"(select {stv} {kk})"), (BOOL, f"(select {sph} {kk})"), (INT, f"(select {spv} {kk})")]
    m = model_terms(o, terms, extra=pin)
    if m is None:
        return dict(reproduced=False, reason="no model for the map entries")
    start = {key: m[f"(select {stv} {_smt_int(key)})"] for key in keys if m[f"(select {sth} {_smt_int(key)})"]}
    stop = {key: m[f"(select {spv} {_smt_int(key)})"] for key in keys if m[f"(select {sph} {_smt_int(key)})"]}
    code = (
        "import sys, time, types\n"
        "from stepup.core import scheduler as S\n"
        f"start, stop, step_i, succeeded = {start!r}, {stop!r}, {step_i!r}, {succ!r}\n"
        "now = max([0] + list(start.values()) + list(stop.values())) + 1\n"
        "S.time = types.SimpleNamespace(monotonic_ns=lambda: now)\n"
        "obj = types.SimpleNamespace(start_times=dict(start), stop_times=dict(stop), run_counter=0)\n"
        "S.Scheduler.record_run_stopped(obj, step_i, succeeded=succeeded)\n"
        "bad = []\n"
        "cand = dict(stop)\n"
        "if succeeded: cand[step_i] = now\n"
        "for k, v in cand.items():\n"
        "    for j, t in start.items():\n"
        "        if j != step_i and t <= v and obj.stop_times.get(k) != v:\n"
        "            bad.append(f'stop time {v} of step {k} dropped although step {j} has been running since {t}')\n"
        "for k in obj.stop_times:\n"
        "    if k not in cand: bad.append(f'stop time of step {k} appeared from nowhere')\n"
        "if step_i in obj.start_times: bad.append('the stopped step is still recorded as running')\n"
        "print('start_times', start, 'stop_times', stop, 'stopped', step_i, 'succeeded', succeeded, '->', obj.stop_times, bad)\n"
        "sys.exit(1 if bad else 0)\n")
    import subprocess

    r = subprocess.run(["/venv/bin/python", "-c", code], cwd=extract.REPO, capture_output=True, text=True,
                       env={"PYTHONPATH": extract.REPO, "PATH": "/usr/bin:/bin"})
    return dict(reproduced=r.returncode == 1, python=code, output=(r.stdout + r.stderr)[-1500:],
                witness=dict(start_times=start, stop_times=stop, stopped=step_i, succeeded=succ,
                             claim="the stop time of a finished producer is dropped although a run in progress started before it"))


def _smt_int(v: int) -> str:
    return str(v) if v >= 0 else f"(- {-v})"


@contract("stepup/core/scheduler.py::Scheduler.record_run_stopped", props=["C03"])
class record_run_stopped:
    """The bookkeeping behind ran_concurrently: pruning never drops a stop time that a run still in progress (one
    that started no later than that stop time) could be compared with."""

    args = dict(self=_sched_times, step_i=ty.Int, succeeded=ty.Bool)
    env = dict(time=_Clock)
    ghost = dict(k=ty.Int, j=ty.Int)
    ensures = _rrs_post
    modifies = ["self.start_times", "self.stop_times"]
    loops = {0: LoopSpec(invariant=_rrs_inv, forall=dict(p=ty.Int), havoc=("self",), modifies={"self": ["stop_times"]})}


@contract("stepup/core/scheduler.py::Scheduler.record_run_started", props=["C03"])
class record_run_started:
    """The start time of the step is recorded (read from the clock now); no stop time changes."""

    args = dict(self=_sched_times, step_i=ty.Int)
    env = dict(time=_Clock)
    ghost = dict(k=ty.Int)
    ensures = lambda self, step_i, old, ghost: wrap_bool(tm.And(
        self.start_times.contains_t(step_i),
        tm.Iff(self.stop_times.contains_t(ghost.k), old.self.stop_times.contains_t(ghost.k)),
        tm.Implies(old.self.stop_times.contains_t(ghost.k),
                   tm.Eq(I(self.stop_times.value_at(ghost.k)), I(old.self.stop_times.value_at(ghost.k)))),
        tm.Implies(tm.Ne(I(ghost.k), I(step_i)), tm.Iff(self.start_times.contains_t(ghost.k), old.self.start_times.contains_t(ghost.k)))))
    modifies = ["self.start_times", "self.run_counter"]


# ---------------------------------------------------------------- compute_inp_hashes


def _none_t(v):
    return v.isnone if isinstance(v, sym.SymOpt) else tm.mk_bool(v is None)


def _fh_differs(a, b) -> tm.T:
    """FileHash.__ne__ (attrs equality on digest, mode, size)."""
    return tm.Not(B(a == b))


def _cih_inv(e):
    from vc import vcrt

    if not isinstance(e.messages, sym.SymSeq):
        return True
    k0 = e.q.k
    inp, new, all_ = e.inp_hashes, e.new_inp_hashes, e.all_inp_hashes
    idx = vcrt.index_of(inp, k0)
    in_inp = inp.contains_t(k0)
    in_all = all_.contains_t(k0)
    in_new = new.contains_t(k0)
    av, iv, nv = all_.value_at(k0), inp.value_at(k0), new.value_at(k0)
    return wrap_bool(tm.And(
        tm.Iff(in_all, tm.And(in_inp, tm.Lt(idx, I(e.i)))),
        tm.Iff(in_new, tm.And(in_all, _fh_differs(av, iv))),
        tm.Implies(in_new, B(sym.sym_eq_val(nv, av))),
        tm.Eq(e.messages.length, _count(new))))


def _cih_post(inp_hashes, result, ghost):
    """At the arbitrary path k0: it is in all_hashes iff it is an input; it is in new_hashes iff its new hash differs
    from the recorded one (and new_hashes holds that new hash); there is a message iff some input changed."""
    k0 = ghost.k0
    new, all_ = result.new_hashes, result.all_hashes
    in_inp = inp_hashes.contains_t(k0)
    msgs = result.messages
    nmsg = msgs.length if isinstance(msgs, sym.SymSeq) else tm.mk_int(len(msgs))
    if not isinstance(all_, sym.SymMap):
        # no input at all: the literal empty dictionaries are returned
        return wrap_bool(tm.And(tm.Not(in_inp), tm.Eq(nmsg, tm.mk_int(0))))
    in_all, in_new = all_.contains_t(k0), new.contains_t(k0)
    return wrap_bool(tm.And(
        tm.Iff(in_all, in_inp),
        tm.Iff(in_new, tm.And(in_inp, _fh_differs(all_.value_at(k0), inp_hashes.value_at(k0)))),
        tm.Implies(in_new, B(sym.sym_eq_val(new.value_at(k0), all_.value_at(k0)))),
        tm.Iff(tm.Eq(nmsg, tm.mk_int(0)), tm.Eq(_count(new), tm.mk_int(0)))))


@contract("stepup/core/hash.py::compute_inp_hashes", props=["C03", "C13"])
class compute_inp_hashes:
    """Every input is re-hashed; exactly the inputs whose new hash differs from the recorded one end up in
    new_hashes, one message each; an input that was already missing is a consistency error."""

    args = dict(inp_hashes=FileMap, cancel_event=ty.Make(lambda n: trusted.CancelEvent(n)))
    ghost = dict(k0=ty.Str)
    env = dict(fmt_file_hash_diff=lambda a, b: "diff")
    may_raise = {common.ConsistencyError: None, common.excmod.HashCancelledError: None,
                 common.excmod.HashFailedError: None, OSError: None}
    ensures = _cih_post
    modifies = []
    loops = {0: LoopSpec(locals=dict(messages=ty.SeqOf(ty.Str), new_inp_hashes=FileMap, all_inp_hashes=FileMap),
                         invariant=_cih_inv, forall=dict(k=ty.Str))}


# ---------------------------------------------------------------- compute_out_hashes


def _coh_inv(e):
    from vc import vcrt

    if not isinstance(e.all_out_hashes, sym.SymMap):
        return True
    k0 = e.q.k
    out, new, all_ = e.out_hashes, e.new_out_hashes, e.all_out_hashes
    idx = vcrt.index_of(out, k0)
    in_out, in_all, in_new = out.contains_t(k0), all_.contains_t(k0), new.contains_t(k0)
    av, ov, nv = all_.value_at(k0), out.value_at(k0), new.value_at(k0)
    return wrap_bool(tm.And(
        tm.Iff(in_all, tm.And(in_out, tm.Lt(idx, I(e.i)))),
        tm.Iff(in_new, tm.And(in_all, _fh_differs(av, ov))),
        tm.Implies(in_new, B(sym.sym_eq_val(nv, av)))))


def _coh_post(out_hashes, result, ghost):
    """At the arbitrary path k0: it is in all_hashes iff it is an output; it is in new_hashes iff its new hash differs
    from the recorded one, and new_hashes then holds that new hash (the one all_hashes holds)."""
    k0 = ghost.k0
    new, all_ = result.new_hashes, result.all_hashes
    in_out = out_hashes.contains_t(k0)
    if not isinstance(all_, sym.SymMap):
        return wrap_bool(tm.Not(in_out))
    in_all, in_new = all_.contains_t(k0), new.contains_t(k0)
    return wrap_bool(tm.And(
        tm.Iff(in_all, in_out),
        tm.Iff(in_new, tm.And(in_out, _fh_differs(all_.value_at(k0), out_hashes.value_at(k0)))),
        tm.Implies(in_new, B(sym.sym_eq_val(new.value_at(k0), all_.value_at(k0))))))


@contract("stepup/core/hash.py::compute_out_hashes", props=["C13", "C03"])
class compute_out_hashes:
    """Every output is re-hashed; exactly the outputs whose new hash differs from the recorded one end up in
    new_hashes (with the hash all_hashes holds for them)."""

    args = dict(out_hashes=FileMap, cancel_event=ty.Make(lambda n: trusted.CancelEvent(n)))
    ghost = dict(k0=ty.Str)
    may_raise = {common.excmod.HashCancelledError: None, common.excmod.HashFailedError: None, OSError: None}
    ensures = _coh_post
    modifies = []
    loops = {0: LoopSpec(locals=dict(messages=ty.SeqOf(ty.Str), new_out_hashes=FileMap, all_out_hashes=FileMap),
                         invariant=_coh_inv, forall=dict(k=ty.Str))}


# ---------------------------------------------------------------- execute_job / try_skip_job (effect order)

StepHashRec2 = ty.Rec(hashmod.StepHash, dict(inp_digest=ty.Bytes, inp_info=ty.Ignored(), out_digest=ty.Opt(ty.Bytes),
                                             out_info=ty.Ignored()), eq=["inp_digest", "out_digest"])


def _RunStub(name):
    """The per-job `Run` object as far as the job functions use it."""
    r = ty.ObjOf(Run, dict(success=ty.Bool, unavailable=ty.SetOf(ty.Str), unfresh=ty.SetOf(ty.Str),
                           outcome=ty.Opt(ty.Opaque("Outcome")), interrupted_defer=ty.Bool), name="Run").fresh(name)
    sym.mark_born(r)
    return r


def _ev(name, **kw):
    cur().event(name, **kw)


def _new_run_stub(self, job_i, step, inp_hashes, env_deps):
    c = cur()
    _ev("input_rehash", step=step)
    run = _RunStub(c.fresh_name("run"))
    run._fields["step"] = step
    if c.fork(c.fresh(c.fresh_name("new_run.failed"), BOOL)):
        return run, None
    return run, StepHashRec2.fresh(c.fresh_name("new_hash"))


def _run_command_stub(self, run):
    _ev("launch_command", run=run)


def _full_hash_stub(self, run):
    c = cur()
    _ev("full_rehash", run=run)
    h = ty.Opt(StepHashRec2).fresh(c.fresh_name("full_hash"))
    return h, FileMap.fresh(c.fresh_name("new_inp_hashes")), FileMap.fresh(c.fresh_name("new_out_hashes"))


def _out_hash_stub(h):
    """Exported contract of _compute_out_step_hash: None, or the same hash with a new output digest
    (StepHash.with_out_hashes keeps the input part, proved under C13)."""
    c = cur()
    new_out = FileMap.fresh(c.fresh_name("new_out"))
    _ev("out_rehash", new_out=new_out)
    r = ty.Opt(StepHashRec2).fresh(c.fresh_name("out_hash"))
    c.pc.append(tm.Implies(tm.Not(r.isnone), tm.Eq(S(r.payload.inp_digest), S(h.inp_digest))))
    return r, new_out


def _classify_stub(self, run, new_hash, new_inp_hashes, unexpected):
    c = cur()
    h = ty.Opt(StepHashRec2).fresh(c.fresh_name("classified"))
    wants = sym.SymBool(c.fresh(c.fresh_name("wants_defer"), BOOL))
    # exported part of the contract of _classify_execution
    c.pc.append(tm.Implies(tm.Not(h.isnone), tm.And(tm.Not(B(unexpected)), tm.Not(B(wants)), B(run.success))))
    _ev("classify", unexpected=unexpected, result=h)
    return h, wants


class _SchedRec:
    draining = False

    def record_run_started(self, i):
        _ev("record_run_started")

    def record_run_stopped(self, i, succeeded=False):
        _ev("record_run_stopped", succeeded=succeeded)


def _job_executor(args):
    e = ty.ObjOf(Executor, dict(), name="Executor").fresh("self")
    db = DbStub("db")
    e._fields.update(db=db, scheduler=_SchedRec(), reporter=Reporter(),
                     workflow=ty.ObjOf(common.Workflow, dict(), name="Workflow").fresh("workflow"))
    return e


class _StepStub:
    def __init__(self, name):
        self.i = ty.Int.fresh(name + ".i")
        self.label = ty.Str.fresh(name + ".label")

    def reset_for_rerun(self):
        _ev("reset_for_rerun")

    def mark_completed(self, new_hash, wants_defer):
        _ev("mark_completed", hash=new_hash, wants_defer=wants_defer)
        return sym.SymBool(cur().fresh(cur().fresh_name("interrupted_defer"), BOOL))

    def set_outcome(self, outcome):
        _ev("set_outcome")

    def set_state(self, s):
        _ev("set_state", state=s)


JOB_ENV = dict()


def _patch_methods(con_name, **stubs):
    """Replace methods of the Executor under verification by stubs through assumed contracts with impl."""
    for meth, fn in stubs.items():
        contract(f"stepup/core/executor.py::Executor.{meth}", props=[], verify=False, impl=fn,
                 note="stand-in used while verifying the job functions; its own behaviour is under contract elsewhere "
                      "or assumed")(type(meth, (), dict(modifies=[])))


_patch_methods("job", _new_run=_new_run_stub, _run_command=_run_command_stub, _compute_full_step_hash=_full_hash_stub,
               _report_step_counts=lambda self: None, _report_run=lambda self, run: _ev("report_run"),
               _drain_for_unexpected_input_changes=lambda self: _ev("drain"),
               _compute_out_step_hash=lambda self, run, h: _out_hash_stub(h),
               _finalize_failed_run=lambda self, run: _ev("finalize_failed_run"),
               _noskip=lambda self, run, a, b: _ev("noskip"), _skip=lambda self, run, h: _ev("skip"),
               _outdated_dynamic=lambda self, run, a, b: _ev("outdated_dynamic"),
               _reset_step_to_pending=lambda self, step: _ev("reset_step_to_pending"))
# _drain_for_unexpected_input_changes: the job functions see the event (and must raise it exactly for unexpected input
# changes); the function itself is verified: it puts the scheduler into the draining state, whatever the options of the
# build are (C03: "the build stops dispatching new steps" -- also with --keep-going, which only spares ordinary failures)
_dr = engine.REGISTRY["stepup/core/executor.py::Executor._drain_for_unexpected_input_changes"]
_dr.verify = True
_dr.props = ["C03", "C05"]
_dr.note = ""
_dr.args = dict(self=lambda a: ty.ObjOf(Executor, dict(
    scheduler=ty.ObjOf(Scheduler, dict(draining=ty.Bool), name="Scheduler"), reporter=ty.Make(Reporter),
    keep_going=ty.Bool), name="Executor").fresh("self"))
_dr.ensures = lambda self: self.scheduler.draining == True  # noqa: E712
_dr.modifies = ["self.scheduler.draining"]
# _classify_execution keeps its verified contract; the job functions see this exported summary of it
engine.REGISTRY["stepup/core/executor.py::Executor._classify_execution"].impl = None


def _tx_spans(trace):
    spans = []
    start = None
    for e in trace:
        if e.kind == "tx.begin":
            start = e.index
        elif e.kind == "tx.end" and start is not None:
            spans.append((start, e.index))
            start = None
    return spans


def _in_one_span(trace, events):
    spans = _tx_spans(trace)
    return any(all(a < e.index < b for e in events) for a, b in spans)


def _execute_finish(c, outcome, args, old):
    """Order: inputs are re-hashed before the command starts, everything is re-hashed after it ended, and only
    then is the step completed; a hash reaches mark_completed only through the classification; the completion
    writes form one transaction without an await; unexpected input changes drain the scheduler."""
    if outcome[0] != "return":
        return
    t = c.trace
    launch = [e for e in t if e.kind == "launch_command"]
    rehash = [e for e in t if e.kind == "input_rehash"]
    full = [e for e in t if e.kind == "full_rehash"]
    done = [e for e in t if e.kind == "mark_completed"]
    cls = [e for e in t if e.kind == "call" and e.callee == "Executor._classify_execution"]
    if not launch:
        c.prove("no_completion_without_run", len(done) == 0, kind="post")
        return
    c.prove("one_of_each", len(launch) == 1 and len(rehash) == 1 and len(full) == 1 and len(done) == 1 and len(cls) == 1, kind="post")
    if not (len(launch) == 1 and len(rehash) == 1 and len(full) == 1 and len(done) == 1 and len(cls) == 1):
        return
    c.prove("rehash_before_launch_before_full_rehash_before_completion",
            rehash[0].index < launch[0].index < full[0].index < cls[0].index < done[0].index, kind="post")
    # what an earlier run of the step added to the workflow (created steps, announced inputs and outputs, registered
    # patterns) is withdrawn before the command starts -- on every launch: the earlier run may have ended without
    # leaving any record (the director was killed: C05), in one transaction of its own
    resets = [e for e in t if e.kind == "reset_for_rerun"]
    c.prove("reset_before_every_launch", tm.mk_bool(
        len(resets) == 1 and rehash[0].index < resets[0].index < launch[0].index and _in_one_span(t, resets)), kind="post")
    c.prove("completed_with_the_classified_hash", done[0].hash is cls[0].result[0] and done[0].wants_defer is cls[0].result[1], kind="post")
    writes = [e for e in t if e.kind in ("update_file_hashes", "mark_completed", "set_outcome") and e.index > full[0].index]
    c.prove("completion_writes_in_one_transaction", _in_one_span(t, writes + cls), kind="post")
    span = [s for s in _tx_spans(t) if s[0] < done[0].index < s[1]]
    awaits = [e for e in t if e.kind == "await" and span and span[0][0] < e.index < span[0][1]]
    c.prove("no_await_inside_the_completion_transaction", len(awaits) == 0, kind="post")
    # the producer's stop time is recorded together with the completion that makes its outputs BUILT: a consumer that
    # announces such an output is judged by ran_concurrently, which needs that stop time from the moment the output is
    # visible as BUILT (an await in between lets an amend request slip through with "did not overlap")
    stops = [e for e in t if e.kind == "record_run_stopped"]
    c.prove("stop_time_recorded_with_the_completion", tm.mk_bool(
        len(stops) == 1 and bool(span) and span[0][0] < stops[0].index < span[0][1] and done[0].index < stops[0].index), kind="post")
    drains = [e for e in t if e.kind == "drain"]
    unexpected = cls[0].args["unexpected_input_changes"]
    c.prove("drain_iff_inputs_changed", tm.Iff(tm.mk_bool(len(drains) == 1), B(unexpected)), kind="post")
    from vc import vcrt

    c.prove("unexpected_means_new_input_hashes", tm.Iff(B(unexpected), tm.Gt(I(vcrt.v_len(cls[0].args["new_inp_hashes"])), tm.mk_int(0))), kind="post")


@contract("stepup/core/executor.py::Executor.execute_job", props=["C03", "C05"])
class execute_job:
    args = dict(self=_job_executor, job_i=ty.Int, step=ty.Make(_StepStub), inp_hashes=FileMap, env_deps=lambda a: [])
    finish = _execute_finish
    modifies = []


def _skip_finish(c, outcome, args, old):
    """A step is completed without running only if the recomputed input digest and output digest both equal the
    stored ones; no command is launched; the completion is one transaction."""
    if outcome[0] != "return":
        return
    t = c.trace
    c.prove("never_launches", not any(e.kind == "launch_command" for e in t), kind="post")
    done = [e for e in t if e.kind == "mark_completed"]
    if not done:
        # C06: a skip check that does not complete the step stores nothing.  In particular it does not record the
        # hashes of outputs it found changed: such content was not produced by a run of the step (a user may have
        # written it), and a stored hash is what later lets the clean-up remove the file as "unmodified"
        c.prove("a_failed_skip_check_stores_no_hashes", tm.mk_bool(not any(e.kind == "update_file_hashes" for e in t)), kind="post")
        return
    sh = args["step_hash"]
    c.prove("completed_only_with_a_hash", tm.Not(done[0].hash.isnone) if isinstance(done[0].hash, sym.SymOpt)
            else tm.mk_bool(done[0].hash is not None), kind="post")
    h = done[0].hash.payload if isinstance(done[0].hash, sym.SymOpt) else done[0].hash
    c.prove("both_digests_equal_the_stored_ones",
            tm.And(B(h.inp_digest == sh.inp_digest), B(sym.sym_eq_val(h.out_digest, sh.out_digest))), kind="post")
    writes = [e for e in t if e.kind in ("update_file_hashes", "mark_completed")]
    c.prove("completion_writes_in_one_transaction", _in_one_span(t, writes), kind="post")
    c.prove("not_deferred", done[0].wants_defer is False, kind="post")
    # C09: a step marked succeeded has all its outputs BUILT.  mark_completed only turns OUTDATED outputs back to BUILT;
    # an output that an external change sent to PLANNED (its content restored since) becomes BUILT through the hash
    # update with cause SUCCEEDED -- the hashes found by the output re-hash, stored before the completion
    outs = [e for e in t if e.kind == "out_rehash"]
    ups = [e for e in t if e.kind == "update_file_hashes"]
    ok = (len(ups) == 1 and len(outs) == 1 and ups[0].cause is HashUpdateCause.SUCCEEDED and ups[0].index < done[0].index
          and ups[0].hashes is outs[0].new_out)
    c.prove("found_output_hashes_are_stored_with_the_completion", tm.mk_bool(bool(ok)), kind="post",
            detail=f"{len(ups)} hash update(s), {len(outs)} output re-hash(es)")


@contract("stepup/core/executor.py::Executor.try_skip_job", props=["C03", "C04", "C05"])
class try_skip_job:
    args = dict(self=_job_executor, job_i=ty.Int, step=ty.Make(_StepStub), inp_hashes=FileMap, env_deps=lambda a: [],
                step_hash=StepHashRec2)
    finish = _skip_finish
    modifies = []
    partial_props = {"C06": ["a_failed_skip_check_stores_no_hashes"], "C09": ["found_output_hashes_are_stored_with_the_completion"]}


# ---------------------------------------------------------------- amended inputs: availability and freshness

wfmod = common.wfmod
Availability = common.enums.Availability
SupplyInfo = wfmod._SupplyInfo


def _file_ref(name):
    """A File node reference with a path."""
    c = cur()
    f = sym.SymObj(common.File, dict(graph=ty.Ignored.Unknown(), i=ty.Int.fresh(name + ".i"), label=ty.Str.fresh(name + ".label")),
                   name="File", frozen=True, eq_fields=("i", "label"))
    return f


class _FileH:
    """File objects inside a sequence of supply infos: identified by node id; `path` is the label."""

    def __init__(self, idt):
        self.i = sym.wrap_int(idt)
        self.id = idt
        d = cur().decls
        self.path = trusted.SymPath(d.fun("ghost.label_of_node", [INT], STR)(idt))
        self.label = self.path

    def creator(self):
        c = cur()
        r = producer_of(self.id)
        c.event("file.creator", file=self, result=r)
        return r


def producer_of(file_id):
    """Ghost: the creator of a file node at the time of the request, a function of the node id."""
    d = cur().decls
    none = d.fun("ghost.file_has_no_creator", [INT], BOOL)(file_id)
    return sym.SymOpt(none, _ProducerStub(file_id))


class _ProducerStub:
    def __init__(self, file_id):
        d = cur().decls
        self.i = sym.wrap_int(d.fun("ghost.creator_of_file", [INT], INT)(file_id))
        self.is_step = d.fun("ghost.creator_of_file_is_step", [INT], BOOL)(file_id)

    def __syminstance__(self, cls):
        if cls is common.Step:
            return sym.wrap_bool(self.is_step)
        return False

    # node objects compare by their row: the producer may be the very node another expression denotes (e.g. the
    # creator of the amending step); an identity comparison of the stand-in objects would decide that silently
    def __eq__(self, other):
        oi = getattr(other, "i", None)
        if oi is None:
            return False
        return sym.wrap_bool(tm.Eq(I(self.i), I(oi)))

    def __ne__(self, other):
        r = self.__eq__(other)
        return (not r) if isinstance(r, bool) else ~r

    __hash__ = None


FileH = ty.Handle(_FileH)
SupplyInfoRec = ty.Rec(SupplyInfo, dict(file=FileH, state=ty.EnumOf(FileState), detached=ty.Bool, new_idep=ty.Opt(ty.Int)),
                       eq=["file", "state", "detached", "new_idep"])
engine.CLASS_SPECS[SupplyInfo] = SupplyInfoRec


def availability_t(info) -> tm.T:
    """Spec (from the property: an input is available iff built by a completed step or confirmed static)."""
    st = I(info.state)
    det = B(info.detached)
    avail = tm.And(tm.Not(det), tm.Or(tm.Eq(st, tm.mk_int(FileState.BUILT.value)), tm.Eq(st, tm.mk_int(FileState.CONFIRMED.value))))
    unconf = tm.And(tm.Not(det), tm.Eq(st, tm.mk_int(FileState.UNCONFIRMED.value)))
    return tm.Ite(avail, tm.mk_int(Availability.AVAILABLE.value),
                  tm.Ite(unconf, tm.mk_int(Availability.UNCONFIRMED.value), tm.mk_int(Availability.UNAVAILABLE.value)))


@contract("stepup/core/workflow.py::_SupplyInfo.availability", props=["C03"])
class supply_availability:
    args = dict(self=SupplyInfoRec)
    ensures = lambda self, result: wrap_bool(tm.Eq(I(result), availability_t(self)))
    returns = lambda self: sym.wrap_enum(Availability, availability_t(self))
    result = ty.EnumOf(Availability)
    modifies = []


def _ran_concurrently_stub(producer_i, consumer_i):
    c = cur()
    r = sym.SymBool(c.decls.fun("ghost.ran_concurrently", [INT, INT], BOOL)(I(producer_i), I(consumer_i)))
    c.event("ran_concurrently", producer=producer_i, consumer=consumer_i, result=r)
    return r


def _amend_iter_post(e):
    """One amended input: it is reported unavailable iff it is not available and not merely unconfirmed; it is
    reported unfresh iff it is available, BUILT, produced by a step, and that producer was still running when
    this step started (ran_concurrently); it is queued for confirmation iff UNCONFIRMED."""
    info = e.current
    path = info.file.path
    av = availability_t(info)
    una, unf = e.unavailable, e.unfresh
    una0, unf0 = e.iter_pre.unavailable, e.iter_pre.unfresh
    is_unavailable = tm.Eq(av, tm.mk_int(Availability.UNAVAILABLE.value))
    is_available = tm.Eq(av, tm.mk_int(Availability.AVAILABLE.value))
    c = cur()
    creators = [ev for ev in c.trace if ev.kind == "file.creator"]
    rcs = [ev for ev in c.trace if ev.kind == "ran_concurrently"]
    built = tm.Eq(I(info.state), tm.mk_int(FileState.BUILT.value))
    pr = producer_of(info.file.id)
    has_step_producer = tm.And(tm.Not(pr.isnone), pr.payload.is_step)
    overlapped = c.decls.fun("ghost.ran_concurrently", [INT, INT], BOOL)(I(pr.payload.i), I(e.step.i))
    unfresh_now = tm.And(is_available, built, has_step_producer, overlapped)
    return wrap_bool(tm.And(
        tm.Iff(una.contains_t(path), tm.Or(una0.contains_t(path), is_unavailable)),
        tm.Iff(unf.contains_t(path), tm.Or(unf0.contains_t(path), unfresh_now)),
        # the freshness question is asked about this step as the consumer
        tm.mk_bool(all(sym.I(ev.consumer).s == sym.I(e.step.i).s for ev in rcs))))


@contract("stepup/core/workflow.py::Workflow._supply_files", props=[], verify=False,
          note="links the paths as inputs of the step and returns a snapshot (file, state, detached, new edge) per path; its "
               "effect on the declaration view is proved in contracts/C08_claims.py, which completes this contract")
class supply_files_assumed:
    may_raise = {common.GraphError: None}
    result = lambda: ty.SeqOf(SupplyInfoRec)
    modifies = []

    @staticmethod
    def ensures(self):
        """View (proved for one path as Workflow._resolve_supply_file, contracts/C08_claims.py): an input under an
        attached static tree that has no attached node yet is adopted by that tree (a new STATIC claim); every other
        node it creates is UNDECLARED, hence detached.  Existing claims, step labels, trees and glob registrations do
        not change."""
        c = cur()
        db = common.db_of(self)
        old = common.View(db.__snapshot__())
        db.bump()
        new = common.View(db)
        p = tm.Var(c.fresh_name("p!bound"), STR)
        static = tm.mk_int(common.FileRole.STATIC.value)
        kept = tm.Implies(old.claimed(p), tm.And(new.claimed(p), tm.Eq(new.role(p), old.role(p)), tm.Eq(new.creator(p), old.creator(p))))
        added = tm.Implies(tm.And(new.claimed(p), tm.Not(old.claimed(p))), tm.And(old.owned(p), tm.Eq(new.role(p), static)))
        claims = tm.ForAll([(p.s, STR)], tm.And(kept, added), patterns=[[new.claimed(p)], [new.role(p)], [new.creator(p)]])
        rest = common.frame_view(old, new, claims_changed=True)
        return wrap_bool(tm.And(claims, rest))


@contract("stepup/core/workflow.py::Workflow._hashes_to_check", props=[], verify=False,
          note="the known hashes of the given unconfirmed files, keyed by path")
class hashes_to_check_assumed:
    result = lambda: ty.MapOf(ty.Str, ty.Opaque("FileHashV"))
    modifies = []


@contract("stepup/core/step.py::Step.amend_env_deps", props=[], verify=False, note="records amended environment variables")
class amend_env_deps_assumed:
    modifies = []


def _amend_set(*a):
    """`set()` in amend_step: the three empty accumulators, or set(list) of a declaration list."""
    from vc import vcrt

    if not a:
        c = cur()
        k = c.counters.get("amend.set", 0)
        c.counters["amend.set"] = k + 1
        spec = ty.SetOf(FileH) if k == 2 else ty.SetOf(ty.Str)
        return spec.empty()
    return vcrt.v_set(*a)


def _amend_step_node(args):
    return common.fresh_node(common.Step, args["self"], "step")


# C08 clauses of amend_step: every product the step declares is unclaimed and matched by no registered glob at
# the moment it is declared.  The two filtering comprehensions call _check_declaration (a database read per
# element), so they are read as loops.

extract.COMP_AS_LOOP.add("stepup/core/workflow.py::Workflow.amend_step")


def _c08():
    from contracts import C08_claims

    return C08_claims


@contract("stepup/core/workflow.py::_raise_if_out_and_vol_overlap", props=[], verify=False,
          note="raises GraphError when a path is in both collections; otherwise they are disjoint")
class out_vol_overlap_assumed:
    may_raise = {common.GraphError: None}
    modifies = []

    @staticmethod
    def ensures(out_paths, vol_paths):
        a, b = sym.resolve(out_paths), sym.resolve(vol_paths)
        if not (isinstance(a, sym.SymSeq) and isinstance(b, sym.SymSeq)):
            return True
        from vc import vcrt

        c = cur()
        k, m = tm.Var(c.fresh_name("k!bound"), INT), tm.Var(c.fresh_name("m!bound"), INT)
        return wrap_bool(vcrt.quantified([(k.s, INT), (m.s, INT)], lambda: tm.Implies(
            tm.And(tm.Le(tm.mk_int(0), k), tm.Lt(k, a.length), tm.Le(tm.mk_int(0), m), tm.Lt(m, b.length)),
            tm.Ne(S(a.elem(k)), S(b.elem(m))))))


def _idx(sorted_seq, p):
    has = sorted_seq.container.has
    return cur().decls.fun("index_String", [has.sort, STR], INT)(has, S(p))


def _filter_inv():
    """Loop `kept = [p for p in <sorted set> if self._check_declaration(step, p, role)]` (or the same written as a
    loop that appends): every kept path is unclaimed, comes from a position before i of the sorted input, and
    positions ascend (so paths are distinct).  The kept list and the input are named by role (e.acc, e.seq)."""

    def inv(e):
        kept = e.acc
        if not isinstance(kept, sym.SymSeq):
            return True
        src = e.seq
        db = common.db_of(e.self)
        k, m = I(e.q.k), I(e.q.m)
        p, later = kept.elem(k), kept.elem(m)
        inr = tm.And(tm.Le(tm.mk_int(0), k), tm.Lt(k, kept.length))
        return wrap_bool(tm.Implies(inr, tm.And(
            tm.Not(common.View(db).claimed(p)), tm.Le(tm.mk_int(0), _idx(src, p)), tm.Lt(_idx(src, p), I(e.i)),
            tm.Implies(tm.And(tm.Lt(k, m), tm.Lt(m, kept.length)), tm.Lt(_idx(src, p), _idx(src, later))))))

    return inv


def _all_pending_ok(e, seq, start):
    """Every path of `seq` from position `start` on is unclaimed and matched by no registered glob (now)."""
    db = common.db_of(e.self)
    v = common.View(db)
    k = I(e.q.k)
    p = seq.elem(k)
    # unclaimed, or under an attached static tree (where _declare_file refuses the step anyway)
    return tm.Implies(tm.And(tm.Le(start, k), tm.Lt(k, seq.length)),
                      tm.And(tm.Or(tm.Not(v.claimed(p)), v.owned(p)), tm.Not(v.globmatch(p))))


def _distinct(e, seq):
    k, m = I(e.q.k), I(e.q.m)
    return tm.Implies(tm.And(tm.Le(tm.mk_int(0), k), tm.Lt(k, m), tm.Lt(m, seq.length)), tm.Ne(S(seq.elem(k)), S(seq.elem(m))))


def _disjoint(e, a, b):
    k, m = I(e.q.k), I(e.q.m)
    return tm.Implies(tm.And(tm.Le(tm.mk_int(0), k), tm.Lt(k, a.length), tm.Le(tm.mk_int(0), m), tm.Lt(m, b.length)),
                      tm.Ne(S(a.elem(k)), S(b.elem(m))))


def _out_loop_inv(e):
    return [_all_pending_ok(e, e.out_paths, I(e.i)), _all_pending_ok(e, e.vol_paths, tm.mk_int(0)),
            _distinct(e, e.out_paths), _distinct(e, e.vol_paths), _disjoint(e, e.out_paths, e.vol_paths)]


def _vol_loop_inv(e):
    return [_all_pending_ok(e, e.vol_paths, I(e.i)), _distinct(e, e.vol_paths)]


_DYN = ty.SeqOf(ty.TupleOf(ty.Int))


@contract("stepup/core/workflow.py::Workflow.amend_step", props=["C03", "C08"])
class wf_amend_step:
    args = dict(self=common.workflow_spec(), step=_amend_step_node, inp_paths=ty.SeqOf(ty.Str), env_deps=ty.SetOf(ty.Str),
                out_paths=ty.SeqOf(ty.Str), vol_paths=ty.SeqOf(ty.Str), ran_concurrently=lambda a: _ran_concurrently_stub)
    env = dict(_raise_if_dir_inputs=lambda p: None, set=_amend_set, _creator_phrase=lambda *a: "creator")
    may_raise = {common.GraphError: None, common.ConsistencyError: None}
    modifies = []
    loops = {0: LoopSpec(locals=dict(unavailable=ty.SetOf(ty.Str), unfresh=ty.SetOf(ty.Str), unconfirmed=ty.SetOf(FileH),
                                     dynamic_ideps=_DYN),
                         step_post=_amend_iter_post),
             1: LoopSpec(locals={"@acc": ty.SeqOf(ty.Str)}, forall=dict(k=ty.Int, m=ty.Int), invariant=_filter_inv()),
             2: LoopSpec(locals={"@acc": ty.SeqOf(ty.Str)}, forall=dict(k=ty.Int, m=ty.Int), invariant=_filter_inv()),
             3: LoopSpec(locals=dict(dynamic_ideps=_DYN), forall=dict(k=ty.Int, m=ty.Int), invariant=_out_loop_inv,
                         havoc=("self",), modifies={"self": ["db"]}),
             4: LoopSpec(locals=dict(dynamic_ideps=_DYN), forall=dict(k=ty.Int, m=ty.Int), invariant=_vol_loop_inv,
                         havoc=("self",), modifies={"self": ["db"]})}


# ---------------------------------------------------------------- Scheduler._derive_job

SELECT_INPUTS_ROW = ty.TupleOf(ty.Str, ty.Bool, ty.Int, ty.Bool, ty.Opt(ty.Str))


def _dj_scheduler(args):
    db = DbStub("db", [("SELECT node.label, node.detached, file.state", SELECT_INPUTS_ROW,
                        lambda row, a: wrap_bool(tm.And(tm.Ge(I(row[2]), tm.mk_int(min(FileState).value)),
                                                        tm.Le(I(row[2]), tm.mk_int(max(FileState).value)))))])
    s = ty.ObjOf(Scheduler, dict(job_counter=ty.Int, write_joblog=ty.Bool, jobs=ty.MapOf(ty.Int, ty.Ignored())),
                 name="Scheduler").fresh("self")
    s._fields["db"] = db
    return s


class _DJStep:
    def __init__(self, name):
        self.i = ty.Int.fresh(name + ".i")
        self.label = ty.Str.fresh(name + ".label")

    def get_hash(self):
        return ty.Opt(ty.Opaque("StepHash")).fresh(cur().fresh_name("stored_hash"))

    def env_deps(self):
        return []


def _dj_iter_post(e):
    """An input row that does not raise: it is not VOLATILE; an initial input is attached and BUILT or CONFIRMED;
    its hash is passed on exactly when it is attached and BUILT or CONFIRMED."""
    path, detached, fs, is_dynamic, hv = e.current
    st = I(fs)
    avail = tm.And(tm.Not(B(detached)), tm.Or(tm.Eq(st, tm.mk_int(FileState.BUILT.value)), tm.Eq(st, tm.mk_int(FileState.CONFIRMED.value))))
    m, m0 = e.inp_hashes, e.iter_pre.inp_hashes
    return wrap_bool(tm.And(
        tm.Ne(st, tm.mk_int(FileState.VOLATILE.value)),
        tm.Implies(tm.Not(B(is_dynamic)), avail),
        tm.Iff(m.contains_t(path), tm.Or(m0.contains_t(path), avail)),
        # a dynamic input that is attached and PLANNED / OUTDATED is never accepted
        tm.Implies(B(is_dynamic), tm.Not(tm.And(tm.Not(B(detached)), tm.Or(tm.Eq(st, tm.mk_int(FileState.PLANNED.value)),
                                                                             tm.Eq(st, tm.mk_int(FileState.OUTDATED.value))))))))


class _Job:
    def __init__(self, kind, *a, **k):
        self.kind, self.a, self.k = kind, a, k
        self.name = kind

    def __repr__(self):
        return self.kind


@contract("stepup/core/scheduler.py::Scheduler._derive_job", props=["C03", "C10", "C12"])
class derive_job:
    args = dict(self=_dj_scheduler, step=ty.Make(_DJStep))
    env = dict(RunJob=lambda *a, **k: _Job("RunJob", *a, **k), ValidateDynamicJob=lambda *a, **k: _Job("ValidateDynamicJob", *a, **k),
               append_joblog_record=lambda *a: None)
    may_raise = {common.ConsistencyError: None}
    result = lambda: ty.Make(lambda n: _Job("job"))
    modifies = ["self.job_counter", "self.jobs"]
    loops = {0: LoopSpec(locals=dict(inp_hashes=ty.MapOf(ty.Str, FileHashRec), dynamic_inputs_ready=ty.Bool),
                         step_post=_dj_iter_post)}


# ---------------------------------------------------------------- mark_step_pending wakes a deferred step


class _MspStep:
    def __init__(self, name):
        self.state = ty.EnumOf(StepState).fresh(name + ".state")
        self.label = "step"

    def get_state(self):
        return self.state

    def set_state(self, s, deferred=False):
        cur().event("step.set_state", state=s, deferred=deferred)

    def sinks(self, *a, **k):
        return ty.SeqOf(ty.Make(lambda n: _MspFile(n))).fresh(cur().fresh_name("outputs"))


class _MspFile:
    def __init__(self, name):
        self.state = ty.EnumOf(FileState).fresh(name + ".state")

    def get_state(self):
        return self.state


class _MfoFile:
    """A file node as mark_file_outdated uses it: state (read and written), path (for the log)."""

    def __init__(self, name):
        self.state = ty.EnumOf(FileState).fresh(name + ".state")
        self.path = ty.Str.fresh(name + ".path")

    def get_state(self):
        return self.state

    def set_state(self, s):
        cur().event("file.set_state", file=self, state=s, old=self.state)
        self.state = s

    def __snapshot__(self):
        o = object.__new__(_MfoFile)
        o.__dict__.update(self.__dict__)
        return o


def _mfo_refused(state):
    return wrap_bool(tm.Not(tm.Or(tm.Eq(I(state), tm.mk_int(FileState.BUILT.value)),
                                  tm.Eq(I(state), tm.mk_int(FileState.OUTDATED.value)))))


def _mfo_finish(c, outcome, args, old):
    sets = [e for e in c.trace if e.kind == "file.set_state"]
    marks = [e for e in c.trace if e.kind == "mark_consuming_steps_pending"]
    if outcome[0] == "return":
        was_built = tm.mk_bool(len(sets) == 1)
        c.prove("consumers_marked_iff_the_file_was_built", tm.mk_bool(len(marks) == len(sets) and len(sets) <= 1), kind="trace")


@contract("stepup/core/workflow.py::Workflow.mark_file_outdated", props=["C09", "C03"],
          note="BUILT file becomes OUTDATED")
class mfo_assumed:
    """A BUILT file becomes OUTDATED (and its consumers are marked pending), an OUTDATED file stays as it is, any
    other state is refused: the only transition is BUILT -> OUTDATED, inside the OUTPUT role."""

    args = dict(self=common.workflow_spec(), file=ty.Make(_MfoFile))
    # raises only for a file that is neither BUILT nor OUTDATED (see the function body)
    raises = {common.ConsistencyError: lambda old: _mfo_refused(old.file.state)}
    events = {"file.set_state": lambda e: wrap_bool(tm.And(tm.Eq(I(e.old), tm.mk_int(FileState.BUILT.value)),
                                                           tm.Eq(I(e.state), tm.mk_int(FileState.OUTDATED.value))))}
    finish = _mfo_finish
    modifies = []

    @staticmethod
    def ensures(self, file):
        if cur().data.get("active") != "stepup/core/workflow.py::Workflow.mark_file_outdated":
            cur().event("mark_file_outdated", file=file)
        return True


def _msp_finish(c, outcome, args, old):
    """Every state but RUNNING / CHECKING ends PENDING with the deferred flag cleared (the wake-up of a deferred
    step); the BUILT outputs of a SUCCEEDED or FAILED step, detached ones included, become OUTDATED."""
    st = args["step"].state
    sets = [e for e in c.trace if e.kind == "step.set_state"]
    busy = tm.Or(B(st == StepState.RUNNING), B(st == StepState.CHECKING))
    if outcome[0] == "return":
        c.prove("ignored_iff_busy", tm.Iff(tm.mk_bool(len(sets) == 0), busy), kind="post")
    for e in sets:
        c.prove("pending_and_not_deferred", tm.And(B(e.state == StepState.PENDING), tm.Not(B(e.deferred))), kind="post")
    lp = c.data.get("loops", {}).get(0)
    if outcome[0] == "cut" and lp is not None:
        f = lp.current
        marked = any(e.kind == "mark_file_outdated" and e.file is f for e in c.trace)
        c.prove("built_outputs_become_outdated", tm.Iff(tm.mk_bool(marked), B(f.state == FileState.BUILT)), kind="post")
        inc = [e for e in c.trace if e.kind == "inline" or e.kind == "call"]
    if outcome[0] in ("return", "cut"):
        sinks_calls = [1 for e in c.trace if False]


@contract("stepup/core/workflow.py::Workflow.mark_step_pending", props=["C03", "C05", "C09", "C10", "C02"])
class mark_step_pending:
    args = dict(self=common.workflow_spec(), step=ty.Make(_MspStep))
    finish = _msp_finish
    modifies = []
    loops = {0: LoopSpec()}

    @staticmethod
    def ensures(self, step):
        if cur().data.get("active") != "stepup/core/workflow.py::Workflow.mark_step_pending":
            from contracts import graphdb

            c = cur()
            c.event("mark_step_pending", step=step)  # callers see the call as an effect
            # effect on the stored step states (proved below as the only state it writes): steps only become PENDING
            db = common.db_of(self)
            if hasattr(db, "col_version"):
                old = db.__snapshot__()
                db.version += 1
                for cn in graphdb.table_columns("step"):
                    if cn != "node":
                        db.touch("step", cn)
                for cn in ("state", "hash"):
                    db.touch("file", cn)
                k = tm.Var(c.fresh_name("k!bound"), INT)
                new_s, old_s = graphdb.val(db, "step", "state", k), graphdb.val(old, "step", "state", k)
                return wrap_bool(tm.ForAll([(k.s, INT)], tm.Or(tm.Eq(new_s, old_s), tm.Eq(new_s, tm.mk_int(StepState.PENDING.value))),
                                           patterns=[[new_s]]))
        return True


# ---------------------------------------------------------------- DirectorHandler.amend_step: defer iff not runnable

dirmod = extract.import_module("stepup/core/director.py")
DirectorHandler = dirmod.DirectorHandler


class _ExecDefer:
    def defer(self, job_i, unavailable=None, unfresh=None):
        cur().event("defer", job_i=job_i, unavailable=unavailable, unfresh=unfresh)


class _BuilderPromote:
    def run_promoted_hash_jobs(self, to_check, cause):
        cur().event("run_promoted_hash_jobs", to_check=to_check, cause=cause)


class _SchedJobs:
    def get_job_step(self, job_i):
        return "step"

    ran_concurrently = staticmethod(_ran_concurrently_stub)


class _WfAmend:
    """Workflow as seen by the handler: amend_step returns the three collections; find() gives files with a state."""

    def __init__(self, name):
        self.name = name

    def amend_step(self, step, **kw):
        c = cur()
        r = (ty.SetOf(ty.Str).fresh(c.fresh_name("unavailable")), ty.SetOf(ty.Str).fresh(c.fresh_name("unfresh")),
             ty.MapOf(ty.Str, ty.Opaque("FileHashV")).fresh(c.fresh_name("to_check")))
        c.event("wf.amend_step", result=r)
        return r

    def create_dirs(self, paths):
        pass

    def find(self, cls, path):
        return _MspFile(cur().fresh_name("checked_file"))


def _handler(args):
    h = ty.ObjOf(DirectorHandler, dict(), name="DirectorHandler").fresh("self")
    h._fields.update(db=DbStub("db"), scheduler=_SchedJobs(), workflow=_WfAmend("workflow"), builder=_BuilderPromote(),
                     executor=_ExecDefer())
    return h


def _len(x):
    from vc import vcrt

    return I(vcrt.v_len(x))


def _handler_amend_finish(c, outcome, args, old):
    """The running step is told to carry on iff no amended input is unavailable or unfresh once the promoted hash
    jobs have settled; otherwise it is deferred (exactly then)."""
    if outcome[0] != "return":
        return
    am = [e for e in c.trace if e.kind == "wf.amend_step"]
    defers = [e for e in c.trace if e.kind == "defer"]
    if len(am) != 1:
        c.prove("amended_once", False, kind="post")
        return
    una, unf, to_check = am[0].result
    none_left = tm.And(tm.Eq(_len(una), tm.mk_int(0)), tm.Eq(_len(unf), tm.mk_int(0)))
    c.prove("carry_on_iff_all_inputs_final", tm.Iff(B(outcome[1]), none_left), kind="post")
    c.prove("deferred_iff_not_carry_on", tm.Iff(tm.mk_bool(len(defers) == 1), tm.Not(B(outcome[1]))), kind="post")
    for e in defers:
        c.prove("defer_reports_the_same_sets", e.unavailable is una and e.unfresh is unf, kind="post")


def _handler_iter_post(e):
    """A checked path that did not end CONFIRMED or BUILT is added to the unavailable set."""
    f = [ev for ev in cur().trace if False]
    return True


@contract("stepup/core/director.py::DirectorHandler.amend_step", props=["C03"])
class handler_amend_step:
    args = dict(self=_handler, job_i=ty.Int, inp_paths=ty.SeqOf(ty.Str), env_deps=ty.SetOf(ty.Str),
                out_paths=lambda a: [], vol_paths=lambda a: [])
    env = dict(chain=lambda *a: [], Path=trusted.Path)
    finish = _handler_amend_finish
    modifies = []
    loops = {0: LoopSpec(havoc=("unavailable",))}


# ---------------------------------------------------------------- the re-hash after the command covers every input


@structural("C03/scan/full_rehash_covers_every_input", props=["C03", "C05"],
            note="Executor._compute_full_step_hash (a stand-in in the contract of execute_job): the inputs handed to the "
                 "re-hash after the command are the recorded hashes of *every* input record of the step that is BUILT or "
                 "CONFIRMED -- declared and amended alike; only the state may exclude one -- and the second value returned "
                 "is that re-hash's set of changed inputs (what execute_job calls unexpected input changes)")
def full_rehash_covers_every_input():
    import ast

    _, fn = extract.find_def("stepup/core/executor.py", "Executor._compute_full_step_hash")
    out = []
    parts = [c for c in ast.walk(fn) if isinstance(c, ast.Call) and ast.unparse(c.func).endswith("partial")
             and c.args and ast.unparse(c.args[0]) == "compute_both_hashes"]
    ok_call = len(parts) == 1 and len(parts[0].args) == 3 and isinstance(parts[0].args[1], ast.Name)
    out.append(("scan/full_rehash_covers_every_input/one_rehash_of_inputs_and_outputs", ok_call,
                f"{[ast.unparse(p) for p in parts]}"))
    if ok_call:
        name = parts[0].args[1].id
        assigns = [n for n in ast.walk(fn) if isinstance(n, (ast.Assign, ast.AugAssign, ast.AnnAssign))
                   and any(isinstance(t, ast.Name) and t.id == name for t in (n.targets if isinstance(n, ast.Assign) else [n.target]))]
        stores = [n for n in ast.walk(fn) if isinstance(n, ast.Subscript) and isinstance(n.ctx, (ast.Store, ast.Del))
                  and ast.unparse(n.value) == name]
        good = False
        if len(assigns) == 1 and isinstance(assigns[0], ast.Assign) and isinstance(assigns[0].value, ast.DictComp) and not stores:
            dc = assigns[0].value
            if len(dc.generators) == 1 and isinstance(dc.generators[0].target, ast.Name):
                g, v = dc.generators[0], dc.generators[0].target.id
                cond_ok = len(g.ifs) == 1 and isinstance(g.ifs[0], ast.Compare) and len(g.ifs[0].ops) == 1 \
                    and isinstance(g.ifs[0].ops[0], ast.In) and ast.unparse(g.ifs[0].left) == f"{v}.state" \
                    and isinstance(g.ifs[0].comparators[0], (ast.Tuple, ast.Set, ast.List)) \
                    and sorted(ast.unparse(x) for x in g.ifs[0].comparators[0].elts) == ["FileState.BUILT", "FileState.CONFIRMED"]
                good = (ast.unparse(dc.key) == f"{v}.path" and ast.unparse(dc.value) == f"{v}.hash"
                        and ast.unparse(g.iter) == "run.step.inp_paths()" and cond_ok and not g.is_async)
        out.append(("scan/full_rehash_covers_every_input/every_built_or_confirmed_input_is_rehashed", good,
                    f"{name} = {ast.unparse(assigns[0].value)[:160] if assigns else None}; item stores: {len(stores)}"))
    last = fn.body[-1]
    ret = ast.unparse(last.value) if isinstance(last, ast.Return) and last.value is not None else None
    res = [n for n in ast.walk(fn) if isinstance(n, ast.Assign) and isinstance(n.targets[0], ast.Tuple)
           and ast.unparse(n.targets[0]) in ("(inp_result, out_result)", "inp_result, out_result")]
    out.append(("scan/full_rehash_covers_every_input/changed_inputs_are_returned_as_found",
                ret == "(step_hash, inp_result.new_hashes, out_result.new_hashes)" and len(res) == 1
                and ast.unparse(res[0].value) == "result", f"return {ret}"))
    return out


# ---------------------------------------------------------------- Executor._new_run: the refusal at launch

HUC = common.enums.HashUpdateCause


class _NrWorkflow:
    def update_file_hashes(self, file_hashes, *, cause):
        _ev("nr.update_file_hashes", hashes=file_hashes, cause=cause)


def _cis_stub(self, run, inp_hashes, env_deps):
    c = cur()
    changed = FileMap.fresh(c.fresh_name("changed_inputs"))
    _ev("nr.input_rehash", run=run, changed=changed)
    return ty.Opt(StepHashRec2).fresh(c.fresh_name("inp_hash")), changed


contract("stepup/core/executor.py::Executor._compute_inp_step_hash", props=[], verify=False, impl=_cis_stub,
         note="assumed: re-hashes the inputs before the launch; returns the input part of the step hash, or None with "
              "the inputs whose hash differs from the recorded one (empty when the computation was cancelled)")(
    type("_cis", (), dict(modifies=[])))


def _nr_executor(args):
    e = _job_executor(args)
    e._fields["workflow"] = _NrWorkflow()
    return e


def _nr_finish(c, outcome, args, old):
    """A step whose inputs are not what the database records is refused: the changed hashes are stored (cause FAILED)
    in a transaction *before* the step is completed as failed -- while it is still RUNNING / CHECKING, so that the
    follow-ups of the hash update (consumers of a changed static file are made pending) do not take the failure of
    this very step back (C19: a step reported as failed ends FAILED) -- and the scheduler is drained afterwards
    (C03).  Without changed inputs (a cancelled computation) the step is only completed as failed."""
    if outcome[0] != "return":
        return
    from vc import vcrt

    t = c.trace
    res = outcome[1]
    upd = [e for e in t if e.kind == "nr.update_file_hashes"]
    fin = [e for e in t if e.kind == "call" and e.callee.endswith("_finalize_failed_run")] + [e for e in t if e.kind == "finalize_failed_run"]
    drains = [e for e in t if e.kind == "drain"]
    rehash = [e for e in t if e.kind == "nr.input_rehash"]
    c.prove("inputs_are_rehashed_once_first", tm.mk_bool(len(rehash) == 1 and all(e.index > rehash[0].index for e in upd + fin + drains)), kind="post")
    h = res[1]
    if h is not None:
        c.prove("a_run_with_a_hash_touches_nothing", tm.mk_bool(not upd and not fin and not drains), kind="post")
        return
    c.prove("refused_run_is_completed_as_failed_once", tm.mk_bool(len(fin) == 1), kind="post")
    if len(fin) != 1:
        return
    if upd:
        ok = (len(upd) == 1 and upd[0].cause is HUC.FAILED and upd[0].index < fin[0].index and _in_one_span(t, upd)
              and len(drains) == 1 and drains[0].index > fin[0].index)
        c.prove("changed_hashes_stored_before_the_completion_then_drained", tm.mk_bool(ok), kind="post")
    if rehash:
        some = tm.Gt(I(vcrt.v_len(rehash[0].changed)), tm.mk_int(0))
        c.prove("hashes_stored_and_scheduler_drained_iff_inputs_changed", tm.And(
            tm.Iff(tm.mk_bool(len(upd) == 1), some), tm.Iff(tm.mk_bool(len(drains) == 1), some),
            tm.mk_bool(not upd or upd[0].hashes is rehash[0].changed)), kind="post")


_nr = engine.REGISTRY["stepup/core/executor.py::Executor._new_run"]
_nr.verify = True
_nr.props = ["C03", "C19", "C05"]
_nr.note = ""
_nr.args = dict(self=_nr_executor, job_i=ty.Int, step=ty.Make(_StepStub), inp_hashes=FileMap, env_deps=lambda a: [])
_nr.finish = _nr_finish


def _nr_run(step, job_i=None):
    run = _RunStub(cur().fresh_name("run"))
    run._fields["step"] = step
    return run


_nr.env = dict(Run=_nr_run)
