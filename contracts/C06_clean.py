"""C06: cleaning never destroys what StepUp does not own — guard obligations on every deleting path."""

from __future__ import annotations

from contracts import common, trusted
import contracts.C10_dispatch  # noqa: F401  (Step.delete_hash stand-in)
from contracts.C13_hash import FileHashRec, HashFailedError, is_unknown_rec
from contracts.common import FileState, Workflow, workflow_spec
from contracts.trusted import DbStub, PathStr, Reporter, SymPath
from vc import engine, extract, sqlfront, sym
from vc import terms as tm
from vc import types as ty
from vc.engine import LoopSpec, contract
from vc.report import lemma, structural
from vc.sym import B, I, S, cur, wrap_bool, wrap_int
from vc.terms import BOOL, INT, STR

finmod = extract.import_module("stepup/core/finalize.py")
hashmod = extract.import_module("stepup/core/hash.py")
FileHash = hashmod.FileHash
HashError = common.excmod.HashError
File = common.File

ToBeDeleted = ty.MapOf(ty.Str, ty.Opt(FileHashRec))
SEP = tm.mk_str("/")

VOL, BUILT, OUTD = FileState.VOLATILE, FileState.BUILT, FileState.OUTDATED


@contract("stepup/core/hash.py::FileHash.from_json", props=[], verify=False,
          note="cattrs/json round trip (bounded stand-in in C13): None gives the unknown hash, otherwise the "
               "stored FileHash, a function of the JSON text")
class from_json_assumed:
    result = FileHashRec
    modifies = []

    @staticmethod
    def ensures(value, result):
        isn = value.isnone if isinstance(value, sym.SymOpt) else tm.mk_bool(value is None)
        pay = value.payload if isinstance(value, sym.SymOpt) else value
        if pay is None:
            return is_unknown_rec(result)
        d = cur().decls
        jt = S(pay)
        stored = ((result.digest == sym.wrap_bytes(d.fun("json.digest", [STR], STR)(jt)))
                  & (result.mode == wrap_int(d.fun("json.mode", [STR], INT)(jt)))
                  & (result.size == wrap_int(d.fun("json.size", [STR], INT)(jt))))
        return wrap_bool(tm.Ite(isn, B(is_unknown_rec(result)), B(stored)))


def _state_fact(row, args):
    db = cur().data["args_db"]
    return wrap_bool(tm.Eq(I(row[0]), db.fact("file.state", args[0], sort=INT)))


def _hash_fact(row, args):
    db = cur().data["args_db"]
    h = row[0]
    isn = h.isnone if isinstance(h, sym.SymOpt) else tm.mk_bool(h is None)
    pay = h.payload if isinstance(h, sym.SymOpt) else h
    facts = [tm.Iff(isn, db.fact("file.hash.null", args[0]))]
    if pay is not None:
        facts.append(tm.Eq(S(pay), db.fact("file.hash", args[0], sort=STR)))
    return wrap_bool(tm.And(*facts))


FILE_QUERIES = [
    # requires: `self` is a file node of this graph, so its row in the file table exists
    ("SELECT state FROM file WHERE node = ?", ty.TupleOf(ty.Int), _state_fact, True),
    ("SELECT hash FROM file WHERE node = ?", ty.TupleOf(ty.Opt(ty.Str)), _hash_fact, True),
]


def file_label_ok(label):
    """Class invariant of File nodes, established by File.adjust_label at every creation."""
    lt = S(label)
    return wrap_bool(tm.And(tm.Not(tm.SuffixOf(SEP, lt)), tm.Ne(lt, tm.mk_str("")), tm.Ne(lt, tm.mk_str(".")),
                            tm.Ne(lt, tm.mk_str(".."))))


@contract("stepup/core/file.py::File.adjust_label", props=["C06", "C08"])
class file_adjust_label:
    args = dict(cls=lambda a: engine.RepoClass(File), label=ty.Str)
    may_raise = {common.excmod.PathError: None}
    ensures = lambda label, result: (result == label) & file_label_ok(result)
    result = ty.Str
    modifies = []


def _file_node(args):
    wf = workflow_spec(queries=FILE_QUERIES, to_be_deleted=ToBeDeleted).fresh("graph")
    cur().data["args_db"] = wf._fields["db"]
    f = common.fresh_node(File, wf, "file")
    cur().assume(file_label_ok(f.label))
    return f


def _bd_post(self, old):
    """Whole-view postcondition of File.before_delete on Workflow.to_be_deleted, at an arbitrary key k."""
    c = cur()
    db = self.graph._fields["db"]
    new, was = self.graph.to_be_deleted, old.self.graph.to_be_deleted
    k = c.fresh(c.fresh_name("k"), STR)
    state = db.fact("file.state", self.i, sort=INT)
    hnull = db.fact("file.hash.null", self.i)
    # the hash StepUp recorded for this file
    rec = FileHashRec.fresh(c.fresh_name("recorded"))
    c.assume(from_json_assumed.ensures(sym.SymOpt(hnull, sym.SymStr(db.fact("file.hash", self.i, sort=STR))), rec)
             if False else True)
    is_vol = tm.Eq(state, tm.mk_int(VOL.value))
    is_out = tm.Or(tm.Eq(state, tm.mk_int(BUILT.value)), tm.Eq(state, tm.mk_int(OUTD.value)))
    key_is_file = tm.Eq(k, S(self.label))
    nv, ov = new.value_at(wrap_k(k)), was.value_at(wrap_k(k))
    in_new, in_old = tm.Select(new.has, k, BOOL), tm.Select(was.has, k, BOOL)
    nv_none = nv.isnone if isinstance(nv, sym.SymOpt) else tm.mk_bool(nv is None)
    # (1) keys that are not directories and not this file are untouched
    untouched = tm.Implies(tm.And(tm.Not(tm.SuffixOf(SEP, k)), tm.Not(key_is_file)),
                           tm.And(tm.Iff(in_new, in_old), B(sym.sym_eq_val(nv, ov))))
    # (2) the file itself is queued only in an output state; never for a static or undeclared file
    only_outputs = tm.Implies(tm.And(key_is_file, in_new, tm.Not(in_old), tm.Not(tm.SuffixOf(SEP, k))),
                              tm.Or(is_vol, is_out))
    # (3) a volatile file is queued without hash; a regular output with a hash to verify
    value_ok = tm.Implies(tm.And(key_is_file, in_new, tm.Not(in_old), tm.Not(tm.SuffixOf(SEP, k))),
                          tm.Iff(nv_none, is_vol))
    # (4) directory keys are only ever added with value None
    dirs_none = tm.Implies(tm.And(tm.SuffixOf(SEP, k), in_new, tm.Not(in_old)), nv_none)
    return wrap_bool(tm.And(untouched, only_outputs, value_ok, dirs_none))


def wrap_k(k):
    return sym.wrap_str(k)


@contract("stepup/core/file.py::File.before_delete", props=["C06", "C07"])
class before_delete:
    args = dict(self=_file_node)
    env = dict(Path=trusted.Path)
    ensures = _bd_post
    modifies = ["self.graph.to_be_deleted"]

    @staticmethod
    def finish(c, outcome, args, old):
        # the hash queued for a regular output is the one read from the file table by get_hash()
        if outcome[0] != "return":
            return
        calls = [e for e in c.trace if e.kind == "call" and e.callee == "FileHash.from_json"]
        m = args["self"].graph.to_be_deleted
        db = args["self"].graph._fields["db"]
        state = db.fact("file.state", args["self"].i, sort=INT)
        is_out = tm.Or(tm.Eq(state, tm.mk_int(BUILT.value)), tm.Eq(state, tm.mk_int(OUTD.value)))
        lab = S(args["self"].label)
        in_new = tm.Select(m.has, lab, BOOL)
        in_old = tm.Select(old.self.graph.to_be_deleted.has, lab, BOOL)
        if calls:
            stored = m.value_at(args["self"].label)
            got = calls[-1].result
            pay = stored.payload if isinstance(stored, sym.SymOpt) else stored
            if pay is not None:
                c.prove("queued_hash_is_recorded_hash",
                        tm.Implies(tm.And(is_out, in_new, tm.Not(in_old), tm.Not(tm.SuffixOf(SEP, lab))),
                                   B(sym.sym_eq_val(pay, got))), kind="post")
        else:
            c.prove("no_hash_read_only_if_not_regular_output",
                    tm.Not(tm.And(is_out, in_new, tm.Not(in_old), tm.Not(tm.SuffixOf(SEP, lab)))), kind="post")


# ---------------------------------------------------------------- remove_deletable_files / _prune_empty_dirs


def _wf_with_queue(args):
    return ty.ObjOf(Workflow, dict(to_be_deleted=ToBeDeleted), name="Workflow").fresh("workflow")


def _remove_guard(e, old, trace):
    """A file is removed only if it was queued (key without trailing separator) and either queued without a
    hash (volatile) or its current hash equals the queued one (refreshed(p) == queued, attrs equality)."""
    q = old.workflow.to_be_deleted
    p = S(e.path)
    queued = tm.Select(q.has, p, BOOL)
    val = q.value_at(e.path)
    isnone = val.isnone if isinstance(val, sym.SymOpt) else tm.mk_bool(val is None)
    calls = [ev for ev in trace if ev.kind == "call" and ev.callee == "FileHash.refreshed"
             and S(ev.args["path"]).s == p.s]
    if calls:
        same = B(calls[-1].result == calls[-1].old.self)
        queued_hash_used = B(sym.sym_eq_val(calls[-1].old.self, val.payload if isinstance(val, sym.SymOpt) else val))
        unchanged = tm.And(same, queued_hash_used)
    else:
        unchanged = tm.FALSE
    return wrap_bool(tm.And(queued, tm.Not(tm.SuffixOf(SEP, p)), tm.Or(isnone, unchanged)))


@contract("stepup/core/finalize.py::remove_deletable_files", props=["C06", "C07"])
class remove_deletable_files:
    args = dict(workflow=_wf_with_queue, reporter=ty.Make(Reporter))
    events = {"Path.remove": _remove_guard,
              "Path.rmdir": lambda e: False}  # directories are removed by _prune_empty_dirs only
    # OSError: the queued file became unreadable between stat and open (propagates from refreshed)
    may_raise = {OSError: None}
    modifies = ["workflow.to_be_deleted"]
    loops = {0: LoopSpec()}
    # the queue is keyed by path and only valid for the graph it was filled from: nothing is carried over to a later
    # clean-up (an entry left behind would let a later pass remove whatever then sits at that path)
    ghost = dict(k0=ty.Str)
    ensures = lambda workflow, ghost: wrap_bool(tm.Not(workflow.to_be_deleted.contains_t(ghost.k0)))



def _rmdir_guard(e, trace):
    """rmdir(d) is dominated, in the same iteration, by d.is_dir() and an empty listing of d."""
    p = S(e.path).s
    isdir = [ev for ev in trace if ev.kind == "Path.is_dir" and S(ev.path).s == p]
    listing = [ev for ev in trace if ev.kind == "Path.iterdir" and S(ev.path).s == p]
    if not isdir or not listing:
        return False
    # both must come after the last loop head (the await events mark reporter calls; use index order)
    return wrap_bool(tm.And(B(isdir[-1].result), tm.Not(B(listing[-1].nonempty))))


def _prune_iteration(e):
    """C07 (nothing empty is left behind): one directory is taken from the stack; exactly when it was removed and its
    parent has a name (is not the root, `.` or `..`), the parent is put on the stack -- every time, also when it was
    looked at before, because it may have become empty only now."""
    c = cur()
    before, after = e.iter_pre.todo, e.todo
    if not (isinstance(before, sym.SymSeq) and isinstance(after, sym.SymSeq)):
        return False
    popped = before.elem(tm.Sub(before.length, tm.mk_int(1)))
    rm = [ev for ev in e.iter_trace if ev.kind == "Path.rmdir"]
    if len(rm) > 1:
        return False
    removed = tm.mk_bool(False)
    if rm:
        known = c.known.get(rm[0].fails.s)
        removed = tm.And(tm.mk_bool(known is False), tm.Eq(S(rm[0].path), S(popped)))
    parent = trusted._path_fun("posix.dirname", S(popped))
    pname = trusted._path_fun("posix.basename", parent)
    named = tm.And(*[tm.Ne(pname, tm.mk_str(x)) for x in ("..", ".", "")])
    pushed = tm.And(removed, named)
    n0 = before.length
    return wrap_bool(tm.And(
        tm.Implies(pushed, tm.And(tm.Eq(after.length, n0), tm.Eq(S(after.elem(tm.Sub(n0, tm.mk_int(1)))), parent))),
        tm.Implies(tm.Not(pushed), tm.Eq(after.length, tm.Sub(n0, tm.mk_int(1))))))


@contract("stepup/core/finalize.py::_prune_empty_dirs", props=["C06", "C07"])
class prune_empty_dirs:
    args = dict(dirs=ty.SetOf(PathStr), reporter=ty.Make(Reporter))
    events = {"Path.rmdir": _rmdir_guard, "Path.remove": lambda e: False}
    modifies = []
    loops = {0: LoopSpec(locals=dict(todo=ty.SeqOf(PathStr)), step_post=_prune_iteration)}


# ---------------------------------------------------------------- revert_optional_steps

OPT_TBD_SELECT = "SELECT label, state, hash FROM optional_to_be_deleted"


def _opt_rows_facts(row, args):
    """Rows of the scratch table satisfy the WHERE clause of the statement that created it
    (same transaction, no write to the table in between: trusted SQLite semantics)."""
    create = extract.module_constant("stepup/core/finalize.py", "CREATE_OPTIONAL_TO_BE_DELETED_TABLE")
    sel = create[create.upper().index("SELECT"):]
    return trusted.where_holds(sel, (), dict(state=row[1])) & file_label_ok(row[0])


def _revert_post(workflow, old, ghost, trace):
    """At the arbitrary non-directory key k0: if it is newly queued, it is the label of a row of
    optional_to_be_deleted (an output of a reverted optional step in state VOLATILE/BUILT/OUTDATED), and
    it is queued without a hash iff that row is VOLATILE; an entry queued before is kept."""
    k0 = S(ghost.k0)
    new, was = workflow.to_be_deleted, old.workflow.to_be_deleted
    nodir = tm.Not(tm.SuffixOf(SEP, k0))
    in_new = new.contains_t(ghost.k0)
    in_old = was.contains_t(ghost.k0)
    nv = new.value_at(ghost.k0)
    nv_none = nv.isnone if isinstance(nv, sym.SymOpt) else tm.mk_bool(nv is None)
    c = cur()
    if trace is None:
        # as a callee contract only the stability of already queued entries is exported
        return wrap_bool(tm.Implies(tm.And(nodir, in_old), in_new))
    ups = [e for e in c.trace if e.kind == "map.update" and e.target is workflow.to_be_deleted]
    m = ups[-1].other if ups else None  # the dict built from the rows of optional_to_be_deleted
    if m is None:
        # no row was selected: nothing new is queued
        return wrap_bool(tm.Implies(nodir, tm.Iff(in_new, in_old)))
    in_rows = m.contains_t(ghost.k0)
    mv = m.value_at(ghost.k0)
    mv_none = mv.isnone if isinstance(mv, sym.SymOpt) else tm.mk_bool(mv is None)
    return wrap_bool(tm.Implies(nodir, tm.And(
        tm.Iff(in_new, tm.Or(in_old, in_rows)),
        tm.Implies(in_rows, tm.Iff(nv_none, mv_none)))))


@contract("stepup/core/finalize.py::revert_optional_steps", props=["C06", "C07", "C11"])
class revert_optional_steps:
    args = dict(workflow=lambda a: ty.ObjOf(Workflow, dict(
        db=ty.Make(lambda n: DbStub(n, [(OPT_TBD_SELECT, ty.TupleOf(ty.Str, ty.Int, ty.Opt(ty.Str)), _opt_rows_facts)])),
        to_be_deleted=ToBeDeleted), name="Workflow").fresh("workflow"),
        reporter=ty.Make(Reporter))
    ghost = dict(k0=ty.Str)
    ensures = _revert_post
    modifies = ["workflow.to_be_deleted"]
    events = {"Path.remove": lambda e: False, "Path.rmdir": lambda e: False}
    loops = {0: LoopSpec(invariant=lambda e: _revert_inv(e), havoc=("workflow",),
                         modifies={"workflow": ["to_be_deleted"]})}

    @staticmethod
    def finish(c, outcome, args, old):
        _revert_finish(c, outcome, args, old)


def _revert_inv(e):
    """Marking directories only touches keys with a trailing separator: the entry at k0 is stable."""
    k0 = e.ghost.k0
    m = e.workflow.to_be_deleted
    snap = e.pre.workflow.to_be_deleted
    nodir = tm.Not(tm.SuffixOf(SEP, S(k0)))
    return wrap_bool(tm.Implies(nodir, tm.And(tm.Iff(m.contains_t(k0), snap.contains_t(k0)),
                                              B(sym.sym_eq_val(m.value_at(k0), snap.value_at(k0))))))


def _revert_finish(c, outcome, args, old):
    """The dictionary merged into the queue maps a row's label to None iff the row is VOLATILE, and every
    row is an output in state VOLATILE, BUILT or OUTDATED (WHERE clause of the scratch table)."""
    ups = [e for e in c.trace if e.kind == "map.update" and e.target is args["workflow"].to_be_deleted]
    if not ups:
        return
    m = ups[-1].other
    k = c.fresh(c.fresh_name("k"), STR)
    kk = sym.wrap_str(k)
    in_rows = m.contains_t(kk)  # instantiates the comprehension's defining fact at k
    mv = m.value_at(kk)
    mv_none = mv.isnone if isinstance(mv, sym.SymOpt) else tm.mk_bool(mv is None)
    # the witness row of k: its state column
    wit = [n for n in c.decls.order if n.startswith("dictcomp.witness")]
    c.prove("rows_are_outputs_and_none_iff_volatile", _rows_goal(c, m, k, in_rows, mv_none), kind="post")


def _rows_goal(c, m, k, in_rows, mv_none):
    """in_rows(k) implies: the row at the witness position has state in {VOLATILE, BUILT, OUTDATED}, its label
    is a file label, and the stored value is None iff that state is VOLATILE."""
    # the defining fact of the comprehension mentions the witness position j = wit(k); recover the state term
    import re

    for f in reversed(c.pc):
        mt = re.search(r"\(select (q\d+\.rows![^ ]*\.elem\.1![^ ]*) (\(dictcomp\.witness[^)]*\))\)", f.s)
        if mt and k.s in f.s:
            st = tm.T(INT, mt.group(0))
            ok_state = tm.Or(*[tm.Eq(st, tm.mk_int(v.value)) for v in (VOL, BUILT, OUTD)])
            return tm.Implies(in_rows, tm.And(ok_state, tm.Iff(mv_none, tm.Eq(st, tm.mk_int(VOL.value))),
                                              tm.Not(tm.SuffixOf(SEP, k))))
    return tm.FALSE


# ---------------------------------------------------------------- SQL selections of the cleanup

from contracts.sqlspec import where_equiv  # noqa: E402
from contracts.common import Need  # noqa: E402

where_equiv("C06/sql/CREATE_OPTIONAL_STEP_TABLE", "stepup/core/finalize.py", "CREATE_OPTIONAL_STEP_TABLE",
            lambda r: tm.And(tm.Eq(r(None, "_implied_need"), tm.mk_int(Need.OPTIONAL.value)),
                             tm.Eq(r("node", "detached"), tm.mk_int(0))),
            props=["C06", "C07", "C11"], hyps=lambda r: [tm.Or(tm.Eq(r("node", "detached"), tm.mk_int(0)),
                                                               tm.Eq(r("node", "detached"), tm.mk_int(1)))])
where_equiv("C06/sql/CREATE_OPTIONAL_TO_BE_DELETED_TABLE", "stepup/core/finalize.py",
            "CREATE_OPTIONAL_TO_BE_DELETED_TABLE",
            lambda r: tm.Or(*[tm.Eq(r("file", "state"), tm.mk_int(s.value)) for s in (VOL, BUILT, OUTD)]),
            props=["C06", "C07", "C11"])


@structural("C06/sql/optional_to_be_deleted.joins", props=["C06", "C07", "C11"],
            note="the scratch table joins file rows to optional_step through an output edge (dependency source = step, "
                 "sink = file)")
def optional_joins():
    sql = extract.module_constant("stepup/core/finalize.py", "CREATE_OPTIONAL_TO_BE_DELETED_TABLE")
    toks = sqlfront.tokenize(sql[sql.upper().index("SELECT"):])
    parts = sqlfront.split_select(toks)
    aliases, ons = sqlfront.from_aliases(parts.get("FROM", []))
    want = {("file.node", "node.i"), ("dependency.sink", "node.i"), ("dependency.source", "optional_step.i")}
    got = set()
    for e in ons:
        for cj in sqlfront.conjuncts(e):
            if cj[0] == "cmp" and cj[1] == "=" and cj[2][0] == "col" and cj[3][0] == "col":
                a = f"{cj[2][1]}.{cj[2][2]}"
                b = f"{cj[3][1]}.{cj[3][2]}"
                got.add((a, b))
                got.add((b, a))
    out = []
    for a, b in sorted(want):
        out.append((f"sql/optional_to_be_deleted.joins/{a}={b}", (a, b) in got, f"join condition {a} = {b}"))
    out.append(("sql/optional_to_be_deleted.joins/tables",
                set(aliases.values()) == {"file", "node", "dependency", "optional_step"}, str(aliases)))
    return out


# ---------------------------------------------------------------- the `stepup clean` tool

cleanmod = extract.import_module("stepup/core/clean.py")
OUTPUT_STATES = (BUILT, OUTD, VOL)

where_equiv("C06/sql/SELECT_OUTPUTS", "stepup/core/clean.py", "SELECT_OUTPUTS",
            lambda r: tm.Or(*[tm.Eq(r("file", "state"), tm.mk_int(s.value)) for s in OUTPUT_STATES]),
            props=["C06"])


def _consuming_elem_ok(t, detached_only=None):
    path, state, detached, fh = t
    ok = tm.Or(*[B(state == s) for s in OUTPUT_STATES])
    if detached_only is not None:
        ok = tm.And(ok, tm.Implies(B(detached_only), B(detached)))
    return wrap_bool(ok)


ConsumingRow = ty.TupleOf(PathStr, ty.EnumOf(FileState), ty.Bool, FileHashRec)


def _scp_rows_facts(row, args):
    c = cur()
    ev = [e for e in c.trace if e.kind == "sql" and "all_sink" in e.norm and "SELECT label" in e.norm]
    sql = ev[-1].sql if ev else ""
    return trusted.where_holds(sql, (), dict(state=row[1], detached=row[2]))


def _scp_post(detached_only, result):
    c = cur()
    i = c.fresh(c.fresh_name("i"), INT)
    c.pc.append(tm.And(tm.Le(tm.mk_int(0), i), tm.Lt(i, result.length)))
    return _consuming_elem_ok(result.elem(i), detached_only)


@contract("stepup/core/clean.py::search_consuming_paths", props=["C06"])
class search_consuming_paths:
    """Every returned path is a (volatile) output (state BUILT, OUTDATED or VOLATILE) and, without --all, a
    detached one."""

    args = dict(con=ty.Make(lambda n: DbStub(n, [
        ("WITH RECURSIVE all_sink", ty.TupleOf(ty.Str, ty.Int, ty.Int, ty.Opt(ty.Str)), _scp_rows_facts)])),
        initial_paths=ty.SetOf(ty.Str), detached_only=ty.Bool)
    ensures = _scp_post
    result = lambda detached_only: ty.SeqOf(ConsumingRow, invariant=lambda t: _consuming_elem_ok(t, detached_only))
    modifies = []


class _Console:
    def __init__(self, *a, **k):
        pass

    def print(self, *a, **k):
        return None


def _translate_back(p, *a):
    return SymPath(cur().decls.fun("translate_back", [STR], STR)(S(p)))


def _sympath_exists_stub():
    pass


def _remove_p(self):
    cur().event("Path.remove_p", path=self)
    return self


SymPath.remove_p = _remove_p


def _clean_remove_guard(e, args, trace):
    """remove_p(p): only with --commit, for an existing path of a selected output, and with --safe (default)
    only if the output is VOLATILE or its content still has the recorded hash."""
    p = S(e.path).s
    calls = [ev for ev in trace if ev.kind == "call" and ev.callee == "FileHash.refreshed" and S(ev.args["path"]).s == p]
    exists = [ev for ev in trace if ev.kind == "Path.exists" and S(ev.path).s == p]
    if not exists:
        return False
    unchanged = B(calls[-1].result == calls[-1].old.self) if calls else tm.FALSE
    lp = cur().data.get("loops", {}).get(0)  # the row of tr_consuming_paths being processed
    is_vol = B(lp.current[1] == VOL) if lp is not None else tm.FALSE
    return wrap_bool(tm.And(B(args.commit), B(exists[0].result), tm.Or(tm.Not(B(args.safe)), is_vol, unchanged)))


def _clean_rmdir_guard(e, args, trace):
    p = S(e.path).s
    isdir = [ev for ev in trace if ev.kind == "Path.is_dir" and S(ev.path).s == p]
    listing = [ev for ev in trace if ev.kind == "Path.iterdir" and S(ev.path).s == p]
    if not isdir or not listing:
        return False
    return wrap_bool(tm.And(B(args.commit), B(isdir[-1].result), tm.Not(B(listing[-1].nonempty))))


class _Args:
    """argparse.Namespace of `stepup clean`."""

    def __init__(self, name):
        c = cur()
        self.all = sym.SymBool(c.fresh(name + ".all", BOOL))
        self.commit = sym.SymBool(c.fresh(name + ".commit", BOOL))
        self.safe = sym.SymBool(c.fresh(name + ".safe", BOOL))


def _clean_finish(c, outcome, args, old):
    # the detached-only filter follows --all
    for ev in c.trace:
        if ev.kind == "call" and ev.callee == "search_consuming_paths":
            c.prove("detached_only_unless_all", tm.Iff(B(ev.args["detached_only"]), tm.Not(B(args["args"].all))),
                    kind="post")


@contract("stepup/core/clean.py::clean", props=["C06"])
class clean_tool:
    args = dict(con=ty.Make(lambda n: DbStub(n)), tr_paths=ty.SetOf(PathStr, invariant=lambda p: p != ""),
                args=ty.Make(_Args))
    env = dict(Console=_Console, translate_back=_translate_back, set=lambda *a: ty.SetOf(PathStr).empty())
    events = {"Path.remove_p": _clean_remove_guard, "Path.rmdir": _clean_rmdir_guard,
              "Path.remove": lambda e: False}
    may_raise = {common.excmod.HashCancelledError: None, common.excmod.HashFailedError: None, OSError: None}
    finish = _clean_finish
    modifies = []
    loops = {0: LoopSpec(), 1: LoopSpec(), 2: LoopSpec(havoc=("parent",))}


# ---------------------------------------------------------------- Trellis.delete_detached

Trellis = common.trmod.Trellis
Step, StaticTree, Node = common.Step, common.StaticTree, common.Node
DD_SELECT = "SELECT i, kind, label, creator FROM node WHERE detached AND"


def _node_from_row(self, i, kind, label):
    """Assumed contract of Trellis.node_from_row: a node object of the class registered for `kind`."""
    c = cur()
    for cls in (File, Step, StaticTree):
        if c.fork(tm.Eq(S(kind), tm.mk_str(cls.kind()))):
            n = sym.SymObj(cls, dict(graph=self, i=i, label=label), name=cls.__name__, frozen=True,
                           eq_fields=("graph", "i", "label"))
            if cls is File:
                c.assume(file_label_ok(label))  # class invariant of File nodes (File.adjust_label)
            return n
    return sym.SymObj(Node, dict(graph=self, i=i, label=label), name="Node", frozen=True,
                      eq_fields=("graph", "i", "label"))


@contract("stepup/core/trellis.py::Trellis.node_from_row", props=[], verify=False, impl=_node_from_row,
          note="returns a node object (graph, i, label) of the class registered for the row's kind")
class node_from_row_assumed:
    modifies = []


def _is_dd_select(ev) -> bool:
    return ev.kind == "sql" and sqlfront.match_key(ev.sql).startswith(sqlfront.match_key(DD_SELECT))


def _dd_rows_facts(row, args):
    c = cur()
    ev = [e for e in c.trace if _is_dd_select(e)]
    return trusted.where_holds(ev[-1].sql, (), dict(i=row[0], kind=row[1], label=row[2], detached=sym.wrap_int(
        tm.Ite(ev[-1].db.fact(f"selected.detached.q{ev[-1].ordinal}", row[0], versioned=False), tm.mk_int(1), tm.mk_int(0)))))


def _dd_delete_guard(e, trace):
    """DELETE FROM node WHERE i = ? is issued only for the row being processed, which the selecting query
    returned (detached, without products, without sinks), and after that node's before_delete()."""
    if not e.norm.upper().startswith("DELETE FROM NODE"):
        return True
    c = cur()
    lp = c.data.get("loops", {}).get(1)
    if lp is None:
        return False
    row = lp.current
    sel = [ev for ev in trace if _is_dd_select(ev)]
    if not sel:
        return False
    def same_node(n):
        return isinstance(n, sym.SymObj) and I(n.i).s == I(row[0]).s

    before = [ev for ev in trace if ev.index < e.index and ev.index > sel[-1].index and (
        (ev.kind == "call" and ev.callee.endswith(".before_delete") and same_node(ev.args["self"]))
        or (ev.kind == "inline" and ev.callee.endswith(".before_delete") and ev.args and same_node(ev.args[0])))]
    was_detached = sel[-1].db.fact(f"selected.detached.q{sel[-1].ordinal}", row[0], versioned=False)
    return wrap_bool(tm.And(tm.Eq(I(e.args[0]), I(row[0])), was_detached, tm.mk_bool(bool(before))))


_DD_NO_PRODUCT = (r"SELECT 1 FROM node (?:AS )?(?P<a>\w+) WHERE (?:node \. i = (?P=a) \. creator|(?P=a) \. creator = node \. i)")
_DD_NO_SINK = (r"SELECT 1 FROM dependency WHERE (?:node \. i = dependency \. source|dependency \. source = node \. i)",
               r"SELECT 1 FROM dependency (?:AS )?(?P<a>\w+) WHERE (?:node \. i = (?P=a) \. source|(?P=a) \. source = node \. i)")


def _dd_select_shape(e):
    """The selecting predicate: detached, no product, no sink (three conjuncts in any order, two NOT EXISTS; the
    alias of the inner table is free, but must not capture the outer `node`)."""
    import re

    if not _is_dd_select(e):
        return True
    w = sqlfront.where_of(e.sql)
    cj = sqlfront.conjuncts(w)
    if len(cj) != 3:
        return False
    subs = [sqlfront.normalize(sqlfront.show(x[1][1])) for x in cj if x[0] == "not" and x[1][0] == "exists"]
    plain = [x for x in cj if not (x[0] == "not" and x[1][0] == "exists")]
    if len(subs) != 2 or plain != [("col", None, "detached")] and plain != [("col", "node", "detached")]:
        return False

    def is_no_product(t):
        m = re.fullmatch(_DD_NO_PRODUCT, t, re.I)
        return m is not None and m.group("a").lower() != "node"

    def is_no_sink(t):
        for pat in _DD_NO_SINK:
            m = re.fullmatch(pat, t, re.I)
            if m is not None and m.groupdict().get("a", "x").lower() != "node":
                return True
        return False

    return (is_no_product(subs[0]) and is_no_sink(subs[1])) or (is_no_product(subs[1]) and is_no_sink(subs[0]))


class _TrellisStub:
    pass


def _trellis_obj(args):
    wf = workflow_spec(queries=[
        (DD_SELECT, ty.TupleOf(ty.Int, ty.Str, ty.Str, ty.Opt(ty.Int)), _dd_rows_facts),
        # assumed graph invariant: a creator is a step, a static tree or the root, never a file
        ("SELECT kind, label FROM node WHERE i = ?", ty.TupleOf(ty.Str, ty.Str),
         lambda row, args: row[0] != "file"),
    ] + FILE_QUERIES, to_be_deleted=ToBeDeleted).fresh("graph")
    cur().data["args_db"] = wf._fields["db"]
    return wf


@contract("stepup/core/trellis.py::Trellis.delete_detached", props=["C06", "C07"])
class delete_detached:
    args = dict(self=_trellis_obj)
    env = dict(set=lambda *a: ty.SetOf(ty.Int).empty())
    events = {"sql": lambda e, trace: wrap_bool(tm.And(B(_dd_select_shape(e)), B(_dd_delete_guard(e, trace)))),
              "Path.remove": lambda e: False, "Path.rmdir": lambda e: False}
    # C07: the loop only stops after a pass in which the selecting query returned no row
    ensures = lambda self: wrap_bool(tm.Eq(self._fields["db"].last_select_len, tm.mk_int(0)))
    modifies = ["self.to_be_deleted"]
    loops = {
        0: LoopSpec(invariant=lambda e: e.cleaned_some | wrap_bool(
            tm.Eq(e.self._fields["db"].last_select_len, tm.mk_int(0))), havoc=("self",),
            modifies={"self": ["db", "to_be_deleted"]}),
        1: LoopSpec(invariant=lambda e: wrap_bool(tm.Iff(B(e.cleaned_some), tm.Gt(I(e.i), tm.mk_int(0)))),
                    havoc=("self",), modifies={"self": ["to_be_deleted"]}),
        2: LoopSpec(),
    }


# ---------------------------------------------------------------- Builder.finalize

buildermod = extract.import_module("stepup/core/builder.py")
Builder = buildermod.Builder
ReturnCode = common.enums.ReturnCode


@contract("stepup/core/builder.py::Builder._report_counts", props=[], verify=False, note="reporting only")
class report_counts_assumed:
    modifies = []


class _SchedulerStub:
    def __init__(self, name):
        self.run_counter = sym.SymInt(cur().fresh(name + ".run_counter", INT))

    def build_completed(self):
        cur().event("scheduler.build_completed")


CLEANUP_CALLEES = ("revert_optional_steps", "Workflow.delete_detached", "remove_deletable_files")


def _finalize_call_guard(e, self):
    """The three cleanup calls happen only after an unrestricted, complete build with cleaning enabled."""
    if e.callee not in CLEANUP_CALLEES:
        return True
    from vc import vcrt

    wf = self.workflow
    no_targets = tm.And(tm.Eq(I(vcrt.v_len(wf.targets)), tm.mk_int(0)), tm.Eq(I(vcrt.v_len(wf.target_dirs)), tm.mk_int(0)))
    rc = sym.SymFlag.of(ReturnCode, self.returncode)
    complete = tm.And(*[tm.Not(t) for m, t in rc.bits.items() if m is not ReturnCode.WARNING])
    return wrap_bool(tm.And(no_targets, complete, B(self.do_remove_outdated)))


def _finalize_finish(c, outcome, args, old):
    """Conversely, such a build does run all three, in order, with the graph deletion inside a transaction."""
    if outcome[0] != "return":
        return
    names = [e.callee for e in c.trace if e.kind == "call" and e.callee in CLEANUP_CALLEES]
    c.prove("cleanup_all_or_nothing", tm.mk_bool(names in ([], list(CLEANUP_CALLEES))), kind="post",
            detail=f"cleanup calls on this path: {names}")
    if names == list(CLEANUP_CALLEES):
        # C05: what the clean-up decided to remove has to survive a kill.  The nodes of the orphans are deleted in the
        # transaction around delete_detached; the paths to remove are queued in the in-memory Workflow.to_be_deleted
        # and worked through by remove_deletable_files.  Unless the removal happens before that transaction ends (or
        # the queue is stored), a kill in between leaves files that no later build knows about.
        pos = {e.callee: e.index for e in c.trace if e.kind == "call" and e.callee in CLEANUP_CALLEES}
        begins = [e.index for e in c.trace if e.kind == "tx.begin"]
        ends = [e.index for e in c.trace if e.kind == "tx.end"]
        d = pos["Workflow.delete_detached"]
        span = [(a, b) for a, b in zip(begins, ends) if a < d < b]
        inside = bool(span) and span[0][0] < pos["remove_deletable_files"] < span[0][1]
        c.prove("queued_removals_survive_a_kill", tm.mk_bool(inside), kind="post",
                detail="the transaction that deletes the nodes of the orphans ends before remove_deletable_files starts, "
                       "and the queue Workflow.to_be_deleted lives in memory only")
    rc_calls = [e for e in c.trace if e.kind == "call" and e.callee == "report_unbuilt"]
    c.prove("returncode_is_report", tm.mk_bool(len(rc_calls) == 1 and args["self"].returncode is rc_calls[0].result),
            kind="post")


@contract("stepup/core/builder.py::Builder.finalize", props=["C06", "C07", "C19"])
class builder_finalize:
    args = dict(self=lambda a: ty.ObjOf(Builder, dict(
        reporter=ty.Make(Reporter), scheduler=ty.Make(_SchedulerStub), db=ty.Make(lambda n: DbStub(n)),
        workflow=ty.ObjOf(Workflow, dict(targets=ty.SetOf(PathStr), target_dirs=ty.SetOf(PathStr),
                                         to_be_deleted=ToBeDeleted), name="Workflow"),
        returncode=ty.FlagOf(ReturnCode), do_remove_outdated=ty.Bool), name="Builder").fresh("self"))
    events = {"call": _finalize_call_guard, "Path.remove": lambda e: False, "Path.rmdir": lambda e: False}
    finish = _finalize_finish
    may_raise = {OSError: None}
    modifies = ["self.returncode", "self.workflow.to_be_deleted"]
    # C05: the clean-up of a complete build does not depend on what this session happened to execute (a restarted build
    # that only skips must still remove what a killed session left detached)
    partial_props = {"C05": ["cleanup_all_or_nothing", "queued_removals_survive_a_kill"]}
    only_partial = ("queued_removals_survive_a_kill",)  # a statement about kills: C05 only


@structural("C06/scan/clean_tool_is_read_only", props=["C06"],
            note="`stepup clean` opens the workflow database read-only")
def clean_read_only():
    import ast

    out = []
    _, node = extract.find_def("stepup/core/tool.py", "connect_graph_db")
    ok = False
    for n in ast.walk(node):
        if isinstance(n, ast.Call) and getattr(n.func, "id", "") == "connect":
            ok = any(k.arg == "read_only" and isinstance(k.value, ast.Constant) and k.value.value is True
                     for k in n.keywords)
    out.append(("scan/clean_tool_is_read_only/connect_graph_db", ok, "connect(..., read_only=True)"))
    _, node = extract.find_def("stepup/core/clean.py", "clean_tool")
    calls = [getattr(n.func, "id", "") for n in ast.walk(node) if isinstance(n, ast.Call)]
    out.append(("scan/clean_tool_is_read_only/clean_tool", "connect_graph_db" in calls and "connect" not in calls,
                f"calls {sorted(set(calls))}"))
    return out


from vc.report import replayer  # noqa: E402


@replayer("C05/Builder.finalize/queued_removals_survive_a_kill")
def replay_f12(o):
    """The committed history specs/replay/F12_kill_between_delete_and_remove.py: build, drop a step from the plan,
    rebuild; once uninterrupted, once killed between the delete transaction and the removal and restarted."""
    import os
    import subprocess

    from vc.report import VERIF

    script = os.path.join(VERIF, "specs", "replay", "F12_kill_between_delete_and_remove.py")
    r = subprocess.run(["/venv/bin/python", script], cwd=extract.REPO, capture_output=True, text=True,
                       env={"PYTHONPATH": extract.REPO, "PATH": "/usr/bin:/bin"})
    return dict(reproduced=r.returncode == 1, python=open(script).read(), output=(r.stdout + r.stderr)[-1500:],
                witness=dict(history="build; drop `cp a.txt out.txt` from the plan; rebuild, killed after the commit of "
                                     "delete_detached; restart",
                             claim="out.txt stays on disk for good; the uninterrupted rebuild removes it"))
