"""C11 bounded stand-in: exactly the needed steps are executed.

The contracts decide the local need equation (sched/sql/UPDATE_CHECK_AFTER.need_equation), the dispatch threshold and
revert_optional_steps.  Need is a fixed point over the whole graph that the scheduler recomputes *incrementally*
(flags set by triggers and calls); whether the cached value equals the fixed point after an arbitrary history is not a
per-function statement.  This stand-in drives the real Workflow and Scheduler through every short history of plan
edits, restarts with another target set, source changes and dispatched jobs, and after every dispatch decision

  * recomputes the need of every attached step from scratch, straight from the property: the maximum of its declared
    need, TARGET if one of its regular outputs is a named file target or (for a DEFAULT step) lies under a named
    directory target, and the needs of the attached steps that consume its outputs;
  * compares it with the cached step._implied_need;
  * checks that the dispatched step is needed (need above the threshold: OPTIONAL without targets, DEFAULT with
    targets) and that nothing is dispatched while ... is left: when no job is popped, no needed, ready step is PENDING.

World: a source s.txt; steps A: s.txt -> d/o.txt, C: d/o.txt -> q.txt, B: q.txt or d/o.txt -> r.txt with needs that vary
over seven versions of the plan script (chains of optional steps, a dropped consumer, a DEFAULT producer under d/); target
sets: none, {r.txt}, {d/o.txt}, the directory d/."""

from __future__ import annotations

import asyncio
import itertools
import os

from contracts import C09_bounded
from vc import extract
from vc.report import bounded

OPS = ["build", "run", "edit", "retarget", "touch", "mode"]
TARGET_SETS = [((), ()), (("r.txt",), ()), (("d/o.txt",), ()), ((), ("d/",))]


class World(C09_bounded.World):
    def __init__(self, m):
        super().__init__(m)
        self.tset = 0
        self.mode_on = True  # content of mode.txt: whether ./sub1.py creates ./sub2.py / whether U announces its input
        self.alt = False  # the second family of plans: an optional producer needed only through an announced input

    def script_for(self, label):
        if label == "U":
            return self.u_script
        if label == "./sub1.py":
            return self.sub1_script
        if label == "./sub2.py":
            return self.sub2_script
        return super().script_for(label)

    def u_script(self, step):
        """U reads mode.txt and, when it says so, announces the output of an optional step as an input at run time."""
        if not self.mode_on:
            return None
        path = "q.txt" if self.version % 2 else "d/o.txt"
        una, unf, _ = self.wf.amend_step(step, inp_paths=[path], ran_concurrently=lambda a, b: False)
        return "defer" if (una or unf) else None

    def sub1_script(self, step):
        if self.mode_on:
            self.wf.define_step(step, "./sub2.py", need=self.m["enums"].Need.PLAN)

    def sub2_script(self, step):
        # the consumer of the optional step's output is created two levels below the plan
        self.wf.define_step(step, "B", inp_paths=["d/o.txt"], out_paths=["r.txt"], need=self.m["enums"].Need.DEFAULT)

    def plan_script(self, plan):
        wf, m = self.wf, self.m
        N = m["enums"].Need
        v = self.version % 7
        wf.declare_static_files(plan, ["s.txt"])
        if self.alt:
            # A (optional) is needed only while U, when it runs, announces A's output (even versions) or the output of
            # the optional step C that consumes it (odd versions)
            wf.declare_static_files(plan, ["mode.txt"])
            wf.define_step(plan, "A", inp_paths=["s.txt"], out_paths=["d/o.txt"], need=N.OPTIONAL)
            if self.version % 2:
                wf.define_step(plan, "C", inp_paths=["d/o.txt"], out_paths=["q.txt"], need=N.OPTIONAL)
            wf.define_step(plan, "U", inp_paths=["mode.txt"], out_paths=["u.txt"], need=N.DEFAULT)
            return
        if v == 0:
            # three levels: plan -> ./sub1.py -> ./sub2.py -> B, which consumes the output of the optional step A
            wf.declare_static_files(plan, ["mode.txt"])
            wf.define_step(plan, "A", inp_paths=["s.txt"], out_paths=["d/o.txt"], need=N.OPTIONAL)
            wf.define_step(plan, "./sub1.py", inp_paths=["mode.txt"], need=N.PLAN)
            return
        opt, dfl = N.OPTIONAL, N.DEFAULT
        if v == 1:
            wf.define_step(plan, "A", inp_paths=["s.txt"], out_paths=["d/o.txt"], need=opt)
            wf.define_step(plan, "B", inp_paths=["d/o.txt"], out_paths=["r.txt"], need=dfl)
        elif v == 6:
            wf.define_step(plan, "A", inp_paths=["s.txt"], out_paths=["d/o.txt"], need=opt)
        elif v == 2:
            wf.define_step(plan, "A", inp_paths=["s.txt"], out_paths=["d/o.txt"], need=opt)
            wf.define_step(plan, "C", inp_paths=["d/o.txt"], out_paths=["q.txt"], need=opt)
            wf.define_step(plan, "B", inp_paths=["q.txt"], out_paths=["r.txt"], need=dfl)
        elif v == 3:
            wf.define_step(plan, "A", inp_paths=["s.txt"], out_paths=["d/o.txt"], need=opt)
            wf.define_step(plan, "C", inp_paths=["d/o.txt"], out_paths=["q.txt"], need=opt)
        elif v == 4:
            wf.define_step(plan, "A", inp_paths=["s.txt"], out_paths=["d/o.txt"], need=dfl)
            wf.define_step(plan, "B", inp_paths=["d/o.txt"], out_paths=["r.txt"], need=opt)
        else:
            wf.define_step(plan, "B", inp_paths=["d/o.txt"], out_paths=["r.txt"], need=dfl)
            wf.define_step(plan, "A", inp_paths=["s.txt"], out_paths=["d/o.txt"], need=opt)

    async def boot(self):
        await self._open()

        def start():
            m, wf = self.m, self.wf
            wf.declare_static_files(wf.root, ["plan.py"])
            wf.update_file_hashes({"plan.py": self.fh("plan")}, cause=m["enums"].HashUpdateCause.CONFIRMED)
            wf.define_step(wf.root, "./plan.py", inp_paths=["plan.py"], need=m["enums"].Need.PLAN, _safe=True)

        await self.tx(start)

    async def _open(self):
        m = self.m
        files, dirs = TARGET_SETS[self.tset % len(TARGET_SETS)]
        self.wf = m["workflow"].Workflow(self.db, dir_queue=asyncio.Queue(), targets=files, target_dirs=dirs)
        await self.wf.initialize()
        self.scheduler = m["scheduler"].Scheduler(self.wf, db=self.db)
        await self.scheduler.initialize(None)

    async def retarget(self):
        """Stop and start again with the next target set (what `stepup build <targets>` does on a resumed database)."""
        self.tset += 1
        await self._open()
        E = self.m["exceptions"]
        try:
            async with self.db:
                self.wf.reconcile_targets()
        except E.GraphError:
            pass  # e.g. a target that is a static file: the command is refused; the stand-in goes on untargeted
        await self.check()

    # ----- the oracle

    def oracle(self):
        """need*(step) for every attached step, from scratch."""
        db, m = self.db, self.m
        N, FS = m["enums"].Need, m["enums"].FileState
        files, dirs = TARGET_SETS[self.tset % len(TARGET_SETS)]
        steps = {i: need for i, need in db.execute(
            "SELECT step.node, step.need FROM step JOIN node ON node.i = step.node WHERE NOT node.detached")}
        outs = {}
        for s, f, label, state, det in db.execute(
                "SELECT dependency.source, fnode.i, fnode.label, file.state, fnode.detached FROM dependency "
                "JOIN node AS fnode ON fnode.i = dependency.sink JOIN file ON file.node = fnode.i"):
            if s in steps:
                outs.setdefault(s, []).append((f, label, state, det))
        consumers = {}
        for f, t in db.execute("SELECT source, sink FROM dependency"):
            if t in steps:
                consumers.setdefault(f, []).append(t)
        need = {}
        for s, declared in steps.items():
            n = declared
            for f, label, state, det in outs.get(s, []):
                regular = (not det) and state != FS.VOLATILE.value
                if regular and label in files:
                    n = max(n, N.TARGET.value)
                if regular and declared == N.DEFAULT.value and any(label.startswith(d) for d in dirs):
                    n = max(n, N.TARGET.value)
            need[s] = n
        changed = True
        while changed:
            changed = False
            for s in steps:
                for f, _label, _state, _det in outs.get(s, []):
                    for t in consumers.get(f, []):
                        if need[t] > need[s]:
                            need[s] = need[t]
                            changed = True
        return need

    def compare_now(self):
        want = self.oracle()
        got = {i: n for i, n in self.db.execute(
            "SELECT step.node, step._implied_need FROM step JOIN node ON node.i = step.node WHERE NOT node.detached")}
        labels = {i: l for i, l in self.db.execute("SELECT i, label FROM node")}
        bad = {labels[i]: dict(cached=got.get(i), fixed_point=want[i]) for i in want if got.get(i) != want[i]}
        return want, labels, bad

    async def op(self, name):
        m = self.m
        if name == "alt":
            self.alt = True  # (first operation of a history of the second family, before the plan runs)
            return
        if name == "mode":
            # mode.txt is edited: the step that reads it runs again and creates (or no longer creates) ./sub2.py
            self.mode_on = not self.mode_on
            E = m["enums"]
            st = await self.read(lambda: self.state_of("mode.txt"))
            if st in (E.FileState.CONFIRMED, E.FileState.MISSING):
                self.dirty |= await self.read(lambda: self.consumers_of("mode.txt"))
                await self.tx(lambda: self.wf.update_file_hashes({"mode.txt": self.fh("mode")}, cause=E.HashUpdateCause.EXTERNAL))
            return
        if name == "retarget":
            await self.retarget()
            return
        if name == "build":
            # run jobs (and the hash jobs of files to be confirmed) until nothing can be dispatched
            for _ in range(14):
                before = self.counter, await self.read(lambda: self.db.execute(
                    "SELECT COUNT(*) FROM step WHERE state = ?", (m["enums"].StepState.SUCCEEDED.value,)).fetchone()[0])
                await super().op("confirm")
                popped = await self.run_one()
                if not popped:
                    break
            return
        if name != "run":
            await super().op(name)
            return
        await self.run_one()

    async def run_one(self):
        """One dispatch decision and the job it yields; returns whether a job was popped."""
        m = self.m
        # a dispatch decision: compare the cached need with the fixed point right after the metadata pass
        cls = type(self.scheduler)
        orig = cls._get_next_step
        seen = {}

        def spy(sched_self):
            # inside pop_next_job's transaction, right after the metadata passes: the moment of the decision
            seen["cmp"] = self.compare_now()
            r = orig(sched_self)
            seen["r"] = r
            return r

        cls._get_next_step = spy  # the class is the worker process's own copy
        try:
            await super().op("run")
        finally:
            cls._get_next_step = orig
        if "cmp" not in seen:
            return False
        want, labels, bad = seen["cmp"]
        if bad:
            raise C09_bounded.Internal(f"at a dispatch decision the cached need differs from the fixed point: {bad}")
        thr = self.wf.need_threshold.value
        r = seen.get("r")
        if r is not None:
            step = r[0]
            if want.get(step.i, 99) <= thr and step.i in want:
                raise C09_bounded.Internal(f"step {step.label} was dispatched with need {want[step.i]} <= threshold {thr}")
        return r is not None


async def _history(m, ops):
    w = World(m)
    with m["sqlite3"].DBSession.open(":memory:") as db:
        w.db = db
        try:
            await w.boot()
            for k, name in enumerate(ops):
                await w.op(name)
        except C09_bounded.Internal as e:
            return dict(history=list(ops[:k + 1]) if "k" in dir() else [], error=str(e))
    return None


def _chunk(histories):
    m = C09_bounded._mods()
    os.environ["STEPUP_DEBUG"] = "1"
    out = []
    for ops in histories:
        r = asyncio.run(_history(m, list(ops)))
        if r is not None:
            out.append(r)
    return out


@bounded("need_is_the_fixed_point", props=["C11"],
         bound="exhaustive: every sequence of 6 operations (complete the build, run one popped job, next plan version of 7, "
               "restart with the next of 4 target sets, touch the source, toggle the mode file that decides whether a "
               "sub-plan creates its sub-plan or a step announces an optional step's output as its input) of length <= 4 (quick) / <= 6 (thorough) after boot, for two families of plans (the seven versions, and two versions in which an optional step is needed only through an input announced at run time); after every "
               "dispatch decision the cached need of every attached step against the fixed point computed from scratch")
def need_is_the_fixed_point(tier, seed):
    import concurrent.futures
    import multiprocessing

    depth = 4 if tier == "quick" else 6
    histories = [("run",) + ops for length in range(0, depth + 1) for ops in itertools.product(OPS, repeat=length)]
    histories += [("alt", "run") + ops for length in range(0, depth + 1) for ops in itertools.product(OPS, repeat=length)]
    size = max(1, len(histories) // 128)
    chunks = [histories[i:i + size] for i in range(0, len(histories), size)]
    failures = []
    with concurrent.futures.ProcessPoolExecutor(max_workers=16, mp_context=multiprocessing.get_context("fork")) as ex:
        for res in ex.map(_chunk, chunks):
            failures.extend(res)
    failures.sort(key=lambda f: len(f["history"]))
    minimal = []
    for f in failures:
        if not any(f["history"][:len(g["history"])] == g["history"] for g in minimal):
            minimal.append(f)
    return dict(evaluations=len(histories), failures=minimal[:20])
