"""C09: the stored workflow satisfies its invariants after every transaction (scoped: local invariants are
preserved by the functions that write the creator links and states; the whole-history statement is the bounded
stand-in contracts/C09_bounded.py).

Invariants over the relational ghost view (contracts/graphdb.py):

  I1(m)  for a non-root node m:  detached(m)  <=>  creator(m) IS NULL  or  detached(creator(m))
         (the local form of "detached exactly when not reachable from the root through creator links"; the
         equivalence with reachability needs creator chains to be well founded, which _check_consistency tests and
         the bounded stand-in observes)
  FK(m)  creator(m) IS NOT NULL  =>  the creator row exists
  I3(m)  file m with state UNDECLARED  =>  detached(m)

The recursive statement RECURSIVELY_SET_DETACHED is an assumed closure: its text is compared with the text the
assumption was written for (specs/sql/recursively_set_detached.sql)."""

from __future__ import annotations

import os

from contracts import common, graphdb, trusted
from contracts.common import ConsistencyError, File, FileRole, FileState, GraphError, Node, Step, StepState, db_of, fresh_node
from contracts.trusted import DbStub
from vc import engine, extract, sqlfront, sym
from vc import terms as tm
from vc import types as ty
from vc.engine import LoopSpec, contract
from vc.report import VERIF, structural
from vc.sym import B, I, S, cur, wrap_bool
from vc.terms import BOOL, INT, STR

trmod = common.trmod
ROOT = tm.mk_str("root")
FILE_K, STEP_K = tm.mk_str("file"), tm.mk_str("step")


# ---------------------------------------------------------------- the view and the invariants


def nexists(db, i):
    return graphdb.exists(db, "node", I(i))


def kind(db, i):
    return graphdb.val(db, "node", "kind", i)


def det(db, i):
    return graphdb.detached_at(db, I(i))


def creator(db, i):
    return graphdb.column(db, "node", "creator", I(i))


def I1(db, m) -> tm.T:
    cr = creator(db, m)
    return tm.Implies(tm.And(nexists(db, m), tm.Ne(kind(db, m), ROOT)),
                      tm.Iff(det(db, m), tm.Or(cr.null, det(db, cr.t))))


def FK(db, m) -> tm.T:
    cr = creator(db, m)
    return tm.Implies(tm.And(nexists(db, m), tm.Not(cr.null)), nexists(db, cr.t))


def root_facts(db, m) -> tm.T:
    """CHECK constraints of the node table: the root is its own creator and never detached; no other node is
    its own creator."""
    cr = creator(db, m)
    return tm.Implies(nexists(db, m), tm.And(
        tm.Implies(tm.Eq(kind(db, m), ROOT), tm.And(tm.Not(cr.null), tm.Eq(cr.t, I(m)), tm.Not(det(db, m)))),
        tm.Implies(tm.Ne(kind(db, m), ROOT), tm.Or(cr.null, tm.Ne(cr.t, I(m))))))


def forall_nodes(pred, db, name="m"):
    from vc import vcrt

    c = cur()
    v = tm.Var(c.fresh_name(name + "!bound"), INT)
    return vcrt.quantified([(v.s, INT)], lambda: pred(db, v))


def creator_kind(db, m) -> tm.T:
    """Triggers node_check_creator_kind_ins / _upd: a file never is the creator of a node."""
    cr = creator(db, m)
    return tm.Implies(tm.And(nexists(db, m), tm.Not(cr.null)), tm.Ne(kind(db, cr.t), tm.mk_str("file")))


def product_of(db, m, x) -> tm.T:
    cr = creator(db, m)
    return tm.And(nexists(db, m), tm.Not(cr.null), tm.Eq(cr.t, I(x)))


def well_formed(db, x=None) -> tm.T:
    """The local invariants for every node.  With `x` given: I1 is suspended for the products of node x, which are
    all detached instead (the state inside Trellis.create between re-attaching a recycled node x and detaching
    its former products)."""
    if x is None:
        i1 = forall_nodes(I1, db)
    else:
        i1 = forall_nodes(lambda d, m: tm.Ite(product_of(d, m, x), det(d, m), I1(d, m)), db)
    ids = forall_nodes(lambda d, m: tm.Implies(nexists(d, m), tm.Ge(m, tm.mk_int(1))), db)  # rowids are positive
    return tm.And(i1, forall_nodes(FK, db), forall_nodes(root_facts, db), forall_nodes(creator_kind, db), ids)


# ---------------------------------------------------------------- the assumed closure


def desc(db, n, m) -> tm.T:
    """m is a transitive product of n (through creator links), in the graph of the given version."""
    v = db.col_version("node", "creator")
    return cur().decls.fun(f"db.desc.v{v}", [INT, INT], BOOL)(I(n), I(m))


def desc_unfold(db, n, m=None):
    """Definition of the closure (assumed for every m, or for the given one): m descends from n iff its creator is
    n or descends from n; the closure is the least one: the root, which is its own creator, is reached from no
    other node."""
    c = cur()

    def facts(mm):
        cr = creator(db, mm)
        return tm.And(
            tm.Iff(desc(db, n, mm), tm.And(nexists(db, mm), tm.Not(cr.null), tm.Or(tm.Eq(cr.t, I(n)), desc(db, n, cr.t)))),
            tm.Implies(tm.And(nexists(db, mm), tm.Eq(kind(db, mm), ROOT), tm.Ne(I(n), I(mm))), tm.Not(desc(db, n, mm))))

    if m is not None:
        c.pc.append(facts(m))
        return
    v = tm.Var(c.fresh_name("m!bound"), INT)
    c.pc.append(tm.ForAll([(v.s, INT)], facts(v), patterns=[[desc(db, n, v)]]))


def _spec_text(name):
    with open(os.path.join(VERIF, "specs", "sql", name)) as fh:
        return sqlfront.normalize(fh.read())


def _read_set_detached(db, old, args):
    """RECURSIVELY_SET_DETACHED (n, d): detached := d for every transitive product of n, nothing else changes
    (assumed closure; triggers on `UPDATE OF detached ON node` write cached step columns only)."""
    c = cur()
    n, d = args
    db.touch("node", "detached")
    for wt, wc in graphdb._trigger_writes("node", "UPDATE", ["detached"]):
        if (wt, wc) != ("node", "detached"):
            db.touch(wt, wc)
    k = tm.Var(c.fresh_name("k!bound"), INT)
    dv = B(d) if not isinstance(d, bool) else tm.mk_bool(d)
    body = tm.Iff(det(db, k), tm.Ite(desc(old, n, k), dv, det(old, k)))
    return wrap_bool(tm.ForAll([(k.s, INT)], body, patterns=[[det(db, k)]]))


graphdb.CLOSURE_READERS.append((_spec_text("recursively_set_detached.sql"), _read_set_detached))
trusted.trusted("RECURSIVELY_SET_DETACHED (recursive CTE, specs/sql/recursively_set_detached.sql): sets detached for "
                "exactly the transitive products of the given node")


@structural("closure_texts", props=["C09"],
            note="the recursive statements whose closures are assumed still have the text the assumption was written for")
def closure_texts():
    out = []
    for const, spec in (("RECURSIVELY_SET_DETACHED", "recursively_set_detached.sql"), ("RECURSE_SINKS", "recurse_sinks.sql"),
                        ("SELECT_CYCLIC", "select_cyclic.sql")):
        now = sqlfront.normalize(extract.module_constant("stepup/core/trellis.py", const))
        out.append((f"sql/closure_text/{const}", now == _spec_text(spec), f"{const} differs from specs/sql/{spec}"))
    return out


# ---------------------------------------------------------------- Node.detach


def _node_self(args, cls=Step):
    db = DbStub("db", [graphdb.query("SELECT creator, detached FROM node WHERE i", ty.TupleOf(ty.Opt(ty.Int), ty.Bool),
                                     none_keys=lambda a: [dict(node=I(a[0]))]),
                       graphdb.query("SELECT detached FROM node WHERE i", ty.TupleOf(ty.Bool),
                                     none_keys=lambda a: [dict(node=I(a[0]))])])
    db.write_reader = graphdb.read_write
    graph = ty.ObjOf(common.Workflow, dict(), name="Workflow").fresh("graph")
    graph._fields["db"] = db
    return fresh_node(cls, graph, "self")


def _stub_writes(qual, db, cols):
    """Stub use of a verified contract: the callee's statements are not executed, so the columns it writes move to
    a new version here (exactly those, plus what the triggers on them may write)."""
    if cur().data.get("active") == qual:
        return
    db.version += 1
    for t, cn in cols:
        db.touch(t, cn)
    for wt, wc in graphdb._trigger_writes("node", "UPDATE", [cn for t, cn in cols if t == "node"]):
        db.touch(wt, wc)


def _detach_post(self, old, ghost):
    """The local invariants hold again for every node (here: the arbitrary node m0), the node is detached and has
    no creator any more (when it had a row), and no creator link other than its own changed."""
    db, db0 = db_of(self), db_of(old.self)
    _stub_writes("stepup/core/trellis.py::Node.detach", db, [("node", "creator"), ("node", "detached")])
    n = I(self.i)
    desc_unfold(db0, n)
    desc_unfold(db, n)  # the closure statement runs on the graph after the node's own row was updated
    same_creators = forall_nodes(lambda d, m: tm.Implies(tm.Ne(m, n), graphdb._same(creator(db, m), creator(db0, m))), db)
    return wrap_bool(tm.And(
        well_formed(db, ghost.x),
        tm.Implies(tm.Not(creator(db0, n).null), tm.And(det(db, n), creator(db, n).null)),
        tm.Implies(creator(db0, n).null, creator(db, n).null),
        same_creators,
        # no node becomes attached (with the file table untouched, "UNDECLARED implies detached" is kept for every file)
        forall_nodes(lambda d, m: tm.Implies(det(db0, m), det(db, m)), db),
        # a node that was detached already has detached products: no other flag changes
        tm.Implies(det(db0, n), forall_nodes(lambda d, m: tm.Implies(tm.Ne(m, n), tm.Iff(det(db, m), det(db0, m))), db))))


def _wf_pre(self, ghost):
    db = db_of(self)
    return wrap_bool(tm.And(well_formed(db, ghost.x), nexists(db, self.i), tm.Ne(kind(db, self.i), ROOT)))


@contract("stepup/core/trellis.py::Node.detach", props=["C09"])
class node_detach:
    """Detaching a node keeps `detached <=> no creator or detached creator` for every node."""

    args = dict(self=_node_self)
    # x: a node whose products are exempt from I1 and all detached (0: no such node; see well_formed)
    ghost = dict(x=ty.Int)
    requires = _wf_pre
    ensures = _detach_post
    may_raise = {ValueError: lambda self: wrap_bool(tm.Not(nexists(db_of(self), self.i)))}
    modifies = []


# ---------------------------------------------------------------- Node.reattach


def _reattach_self(args):
    db = DbStub("db", [
        graphdb.query("SELECT detached FROM node WHERE i", ty.TupleOf(ty.Bool), none_keys=lambda a: [dict(node=I(a[0]))]),
        graphdb.query("SELECT i, kind, label, detached FROM node WHERE i = (", ty.TupleOf(ty.Int, ty.Str, ty.Str, ty.Bool),
                      subquery=graphdb.scalar_lookup),
    ])
    db.write_reader = graphdb.read_write
    graph = ty.ObjOf(common.Workflow, dict(), name="Workflow").fresh("graph")
    graph._fields["db"] = db
    return fresh_node(Node, graph, "self")


@contract("stepup/core/trellis.py::Node.after_lost_product", props=[], verify=False,
          note="invalidates cached results of a detached node that lost a product; writes no node row "
               "(Step.after_lost_product deletes the step hash)")
class after_lost_product:
    modifies = []


def _reattach_pre(self, new_creator, ghost):
    db = db_of(self)
    # the new creator is a step (its class); a file as creator is refused by trigger node_check_creator_kind_upd
    return wrap_bool(tm.And(well_formed(db), nexists(db, self.i), nexists(db, new_creator.i),
                            tm.Ne(kind(db, self.i), ROOT), tm.Ne(I(new_creator.i), I(self.i)),
                            tm.Eq(kind(db, new_creator.i), tm.mk_str("step"))))


def _reattach_post(self, new_creator, old, ghost):
    """The local invariants hold for every node; the node's creator is the new creator and it inherits the
    creator's detached flag."""
    db, db0 = db_of(self), db_of(old.self)
    _stub_writes("stepup/core/trellis.py::Node.reattach", db, [("node", "creator"), ("node", "detached")])
    m0, n = ghost.m0, I(self.i)
    desc_unfold(db0, n)
    desc_unfold(db, n)
    cr = creator(db, n)
    return wrap_bool(tm.And(well_formed(db),
                            tm.Not(cr.null), tm.Eq(cr.t, I(new_creator.i)),
                            tm.Implies(tm.Ne(I(m0), n), graphdb._same(creator(db, m0), creator(db0, m0)))))


@contract("stepup/core/trellis.py::Node.reattach", props=["C09"])
class node_reattach:
    """Re-attaching a detached node to a new creator keeps the local invariants for every node; it is refused for
    a node that is not detached."""

    args = dict(self=_reattach_self, new_creator=lambda a: fresh_node(Step, a["self"].graph, "new_creator"))
    ghost = dict(m0=ty.Int)
    requires = _reattach_pre
    ensures = _reattach_post
    raises = {ValueError: lambda old: wrap_bool(tm.Not(det(db_of(old.self), old.self.i)))}
    may_raise = {ConsistencyError: lambda self: wrap_bool(tm.FALSE)}
    modifies = []


# ---------------------------------------------------------------- Trellis.create

def fstate(db, i):
    return graphdb.val(db, "file", "state", i)


def I3(db, m) -> tm.T:
    """A file whose state is UNDECLARED is detached (checked by the file-side triggers at every write of the state;
    the statements that attach a node are the ones to look at)."""
    return tm.Implies(tm.And(nexists(db, m), tm.Eq(kind(db, m), FILE_K), graphdb.exists(db, "file", I(m)),
                             tm.Eq(fstate(db, m), tm.mk_int(FileState.UNDECLARED.value))), det(db, m))


def _create_graph(args):
    db = DbStub("db", [
        graphdb.query("SELECT i, detached FROM node WHERE kind", ty.TupleOf(ty.Int, ty.Bool)),
        graphdb.query("SELECT detached FROM node WHERE i", ty.TupleOf(ty.Bool), none_keys=lambda a: [dict(node=I(a[0]))]),
        graphdb.query("SELECT i, kind, label, detached FROM node WHERE i = (", ty.TupleOf(ty.Int, ty.Str, ty.Str, ty.Bool),
                      subquery=graphdb.scalar_lookup),
    ])
    db.write_reader = graphdb.read_write
    g = ty.ObjOf(common.Workflow, dict(), name="Workflow").fresh("graph")
    g._fields["db"] = db
    return g


def _create_creator(args):
    """The creating node: a step, or None (a node that is created detached)."""
    c = cur()
    if c.fork(c.fresh("creator.is_none", BOOL)):
        return None
    return fresh_node(Step, args["self"], "creator")


@contract("stepup/core/trellis.py::Node.del_all_sources", props=[], verify=False,
          note="deletes the dependency rows whose sink is this node; writes no node or file row")
class del_all_sources:
    modifies = []

    @staticmethod
    def ensures(self):
        db = db_of(self)
        old = db.__snapshot__()
        db.version += 1
        db.touch("dependency", "exists")
        for wt, wc in graphdb._trigger_writes("dependency", "DELETE", None):
            db.touch(wt, wc)
        return True


@contract("stepup/core/step.py::Step.initialize_row", props=[], verify=False,
          note="inserts or updates the step row of the node; writes no node or file row")
class step_initialize_row:
    modifies = []

    @staticmethod
    def ensures(self):
        db = db_of(self)
        db.version += 1
        for cn in graphdb.table_columns("step"):
            db.touch("step", cn)
        db.touch("step", "exists")
        return True


@contract("stepup/core/step.py::Step.validate_row", props=[], verify=False,
          note="checks that the step row exists (read); it does, initialize_row has just written it")
class step_validate_row:
    modifies = []


def _create_pre(self, creator, ghost):
    """Global invariants of the stored graph on entry (every operation is entered with them and proved to re-establish
    them): well-formedness (I1, foreign keys, root facts, creator kinds), an UNDECLARED file is detached; scoping: the
    creator, if any, is an existing attached step."""
    db = db_of(self)
    pre = [well_formed(db), forall_nodes(I3, db)]
    if creator is not None:
        # an attached creator: a detached (still running) step that creates nodes is outside this contract; the one
        # case that matters, a node re-created as its own creator, is refused by the CHECK constraint of the table
        pre += [nexists(db, creator.i), tm.Eq(kind(db, creator.i), STEP_K), tm.Not(det(db, creator.i))]
    return wrap_bool(tm.And(*pre))


def _create_post(self, creator, old, result, ghost):
    """The local invariants hold for every node; the returned node has the requested creator and inherits its
    detached flag (or is detached without creator)."""
    db, db0 = db_of(self), db_of(old.self)
    n = I(result.i)
    cr = creator_col = globals()["creator"](db, n)
    desc_unfold(db0, n)
    desc_unfold(db, n)
    if creator is None:
        own = tm.And(cr.null, det(db, n))
    else:
        own = tm.And(tm.Not(cr.null), tm.Eq(cr.t, I(creator.i)), tm.Iff(det(db, n), det(db0, creator.i)))
    return wrap_bool(tm.And(well_formed(db), nexists(db, n), own))


def _create_node_type(args):
    """The node class: File (with its state) or Step (its row is written by the assumed Step.initialize_row)."""
    c = cur()
    if c.fork(c.fresh("node_type.is_file", BOOL)):
        args["kwargs"] = dict(state=ty.EnumOf(FileState).fresh("state"))
        return engine.RepoClass(File)
    args["kwargs"] = dict()
    return engine.RepoClass(Step)


@contract("stepup/core/file.py::File.initialize_row", props=[], verify=False,
          note="writes the file row of the node (upsert of the state; a recycled BUILT/OUTDATED state is kept when "
               "UNDECLARED or PLANNED is requested); the triggers file_check_undeclared_detached_* refuse the state "
               "UNDECLARED for an attached node; writes no node row")
class file_initialize_row:
    modifies = []

    @staticmethod
    def ensures(self, state):
        db = db_of(self)
        old = db.__snapshot__()
        db.version += 1
        for cn in graphdb.table_columns("file"):
            db.touch("file", cn)
        db.touch("file", "exists")
        for ev in ("INSERT", "UPDATE"):
            for wt, wc in graphdb._trigger_writes("file", ev, None):
                db.touch(wt, wc)
        c = cur()
        k = tm.Var(c.fresh_name("k!bound"), INT)
        n = I(self.i)
        und = tm.mk_int(FileState.UNDECLARED.value)
        others = tm.ForAll([(k.s, INT)], tm.Implies(tm.Ne(k, n), tm.And(
            tm.Iff(graphdb.exists(db, "file", k), graphdb.exists(old, "file", k)),
            tm.Eq(fstate(db, k), fstate(old, k)))), patterns=[[fstate(db, k)], [graphdb.exists(db, "file", k)]])
        mine = tm.And(graphdb.exists(db, "file", n),
                      tm.Implies(tm.Eq(fstate(db, n), und), tm.And(tm.Eq(I(state), und), det(db, n))))
        return wrap_bool(tm.And(others, mine))


@contract("stepup/core/file.py::File.validate_row", props=[], verify=False,
          note="checks that the file row exists (read); it does, initialize_row has just written it")
class file_validate_row:
    modifies = []


def _create_post_full(self, creator, old, result, ghost):
    db = db_of(self)
    return wrap_bool(tm.And(B(_create_post(self, creator, old, result, ghost)), forall_nodes(I3, db)))


_tc = common.trellis_create
_tc.props = list(_tc.props) + ["C09"]
_tc.verify = True
_tc.args = dict(self=_create_graph, node_type=_create_node_type, creator=_create_creator, label=ty.Str,
                kwargs=lambda a: a["kwargs"])
_tc.ghost = dict(m0=ty.Int)
# the invariant is a global one (assumed at entry, re-established at exit); that the creator is an attached step is a
# scoping restriction of this proof (see _create_pre): neither is demanded from the call sites
_tc.entry = _create_pre
_tc.ensures = _create_post_full
_in_create = lambda: wrap_bool(tm.mk_bool(cur().data.get("active") == "stepup/core/trellis.py::Trellis.create"))  # noqa: E731
# label validation (File.adjust_label / Step.adjust_label) may refuse the label; the call sites under contract pass
# labels that were validated before (normalised paths, adjusted commands): assumed there, so not raised in stub use
_tc.may_raise = {ConsistencyError: None, common.excmod.PathError: lambda: _in_create(), ValueError: lambda: _in_create()}


def _create_loop_inv(e):
    """Between re-attaching the recycled node and detaching its former products: the invariants hold with the
    remaining products of the node exempt (they are detached); the products handled so far have no creator; creator
    links only changed to NULL since the products were listed."""
    db = db_of(e.self)
    nd = I(e.node.i)
    ps = e.seq
    j = I(e.q.j)
    done = tm.Implies(tm.And(tm.Le(tm.mk_int(0), j), tm.Lt(j, I(e.i))), creator(db, tm.Select(ps.ids, j, INT)).null)
    db_list = db_of(e.pre.self)  # the graph when the products were listed (loop entry)
    only_nulled = forall_nodes(lambda d, m: tm.Or(creator(db, m).null, graphdb._same(creator(db, m), creator(db_list, m))), db)
    # the re-attached node itself may still carry the state UNDECLARED until initialize_row writes its new state
    i3 = forall_nodes(lambda d, m: tm.Implies(tm.Ne(m, nd), I3(d, m)), db)
    # a creator link that became NULL since the listing belongs to a product that was already handled
    nulled = forall_nodes(lambda d, m: tm.Implies(tm.And(creator(db, m).null, tm.Not(creator(db_list, m).null)),
                                                  tm.And(product_of(db_list, m, nd), tm.Lt(ps.idx(m), I(e.i)))), db)
    stable = forall_nodes(lambda d, m: tm.And(tm.Iff(nexists(db, m), nexists(db_list, m)),
                                              tm.Eq(kind(db, m), kind(db_list, m))), db)
    own_flag = tm.Iff(det(db, nd), det(db_list, nd))
    return [well_formed(db, nd), i3, done, only_nulled, nulled, stable, own_flag, nexists(db, nd), tm.Ne(kind(db, nd), ROOT)]


_tc.loops = {0: LoopSpec(forall=dict(j=ty.Int), invariant=_create_loop_inv, havoc=("self",), modifies={"self": ["db"]})}
# the exempt node of each detach call is the (current) creator of the product being detached: the recycled node
_tc.instantiate = {"Node.detach": lambda a, ghost: dict(x=sym.wrap_int(creator(db_of(a.self), a.self.i).t))}


# ---------------------------------------------------------------- the hash transition table (finite enumeration)

ROLE = common.enums.FILE_ROLE_BY_STATE
HASHED = (FileState.CONFIRMED, FileState.BUILT, FileState.OUTDATED)
UNHASHED = (FileState.MISSING, FileState.PLANNED, FileState.VOLATILE)


@structural("hash_transitions", props=["C09"],
            note="complete enumeration of the real _HASH_TRANSITIONS table against the state machine of the FileState "
                 "docstrings: a hash update never changes the role of a file, a state that requires a hash is only "
                 "entered with a known hash, a state without hash only with an unknown one or through the states the "
                 "file_clear_hash trigger clears, and the new state depends on the old one only through its role")
def hash_transitions():
    table = extract.module_constant("stepup/core/workflow.py", "_HASH_TRANSITIONS")
    Cause = common.enums.HashUpdateCause
    out = []
    bad_role = [k for k, (new, _) in table.items() if k[1] not in ROLE or ROLE[k[1]] != ROLE.get(new)]
    out.append(("table/role_is_preserved", not bad_role, f"entries that change the role: {bad_role}"))
    bad_hash = [k for k, (new, _) in table.items() if new in HASHED and not k[2]]
    out.append(("table/hashed_state_needs_known_hash", not bad_hash, f"{bad_hash}"))
    bad_unknown = [k for k, (new, _) in table.items() if not k[2] and new not in (FileState.MISSING, FileState.PLANNED)]
    out.append(("table/unknown_hash_means_absent_file", not bad_unknown, f"{bad_unknown}"))
    bad_del = [k for k, (new, act) in table.items() if (act == "deleted") != (not k[2] and act is not None)]
    out.append(("table/deleted_action_iff_file_is_gone", not bad_del, f"{bad_del}"))
    by = {}
    for (cause, old, known), (new, _) in table.items():
        by.setdefault((cause, ROLE[old], known), set()).add(new)
    multi = {k: v for k, v in by.items() if len(v) > 1}
    out.append(("table/new_state_depends_on_role_only", not multi, f"{multi}"))
    bad_succ = [k for k, (new, _) in table.items() if k[0] == Cause.SUCCEEDED and (new != FileState.BUILT or not k[2]
                                                                                    or ROLE[k[1]] != FileRole.OUTPUT)]
    out.append(("table/succeeded_builds_outputs_only", not bad_succ, f"{bad_succ}"))
    bad_conf = [k for k in table if k[0] == Cause.CONFIRMED and ROLE[k[1]] != FileRole.STATIC]
    out.append(("table/confirmation_is_for_static_files", not bad_conf, f"{bad_conf}"))
    never = [k for k in table if k[1] in (FileState.UNDECLARED, FileState.VOLATILE)]
    out.append(("table/no_hash_for_undeclared_or_volatile", not never, f"{never}"))
    return out


# ---------------------------------------------------------------- constraints and aborting triggers (text against spec)


@structural("schema_guards", props=["C09", "C08"],
            note="the CHECK constraints and RAISE(ABORT) triggers the invariants lean on are present with the expected "
                 "conditions (text of the working tree, normalised)")
def schema_guards():
    norm = sqlfront.normalize
    trellis = norm(extract.module_constant("stepup/core/trellis.py", "TRELLIS_SCHEMA"))
    filesch = norm(extract.module_constant("stepup/core/file.py", "FILE_SCHEMA"))
    stepsch = norm(extract.module_constant("stepup/core/step.py", "STEP_SCHEMA"))
    wfsch = norm(extract.module_constant("stepup/core/workflow.py", "WORKFLOW_SCHEMA"))
    und = FileState.UNDECLARED.value
    out = []

    def has(name, text, *needles):
        missing = [n for n in needles if norm(n) not in text]
        out.append((f"schema/{name}", not missing, f"missing: {missing}"))

    has("unique_kind_label", trellis, "CREATE UNIQUE INDEX IF NOT EXISTS node_kind_label ON node (kind, label)")
    has("root_is_own_creator_and_attached", trellis, "CHECK (kind != 'root' OR creator IS i)", "CHECK (kind != 'root' OR NOT detached)",
        "CHECK (kind != 'root' OR i = 1)")
    has("no_self_creation", trellis, "CHECK (kind = 'root' OR creator IS NULL OR creator != i)")
    has("attached_node_has_creator", trellis, "CHECK (kind = 'root' OR creator IS NOT NULL OR detached)")
    has("creator_foreign_key", trellis, "FOREIGN KEY (creator) REFERENCES node(i)")
    has("dependency_foreign_keys", trellis, "FOREIGN KEY (source) REFERENCES node(i)", "FOREIGN KEY (sink) REFERENCES node(i)",
        "UNIQUE (source,sink)")
    has("undeclared_file_is_detached_on_insert", filesch,
        f"CREATE TRIGGER IF NOT EXISTS file_check_undeclared_detached_ins AFTER INSERT ON file WHEN NEW.state = {und} BEGIN "
        "SELECT RAISE(ABORT, 'an UNDECLARED file must be detached') FROM node WHERE node.i = NEW.node AND NOT node.detached; END;")
    has("undeclared_file_is_detached_on_update", filesch,
        f"CREATE TRIGGER IF NOT EXISTS file_check_undeclared_detached_upd AFTER UPDATE OF state ON file WHEN NEW.state = {und} BEGIN "
        "SELECT RAISE(ABORT, 'an UNDECLARED file must be detached') FROM node WHERE node.i = NEW.node AND NOT node.detached; END;")
    hashed = ", ".join(str(s.value) for s in HASHED)
    has("hash_present_where_required", filesch, f"CHECK ( state NOT IN ({hashed}) OR hash IS NOT NULL )")
    has("deferred_only_when_pending", stepsch, f"CHECK (NOT deferred OR state = {StepState.PENDING.value})")
    has("safe_ignoring_hold", stepsch, "CHECK (_safe_ignoring_hold >= _safe)")
    def trigger_is(name, raw_schema, trig, expected):
        import re as _re

        m = _re.search(r"CREATE TRIGGER IF NOT EXISTS " + trig + r"\b.*?END;", _re.sub(r"--[^\n]*", "", raw_schema), _re.S)
        got = norm(m.group(0)) if m else None
        out.append((f"schema/{name}", got == norm(expected), f"trigger {trig} is: {got}"))

    raw_wf = extract.module_constant("stepup/core/workflow.py", "WORKFLOW_SCHEMA")
    kinds = ("NOT ( ( NEW.kind = 'file' AND c.kind IN ('step', 'st', 'root') ) OR (NEW.kind = 'step' AND c.kind IN ('step', 'root')) "
             "OR (NEW.kind = 'st' AND c.kind = 'step') )")
    trigger_is("creator_kinds_on_insert", raw_wf, "node_check_creator_kind_ins",
               "CREATE TRIGGER IF NOT EXISTS node_check_creator_kind_ins AFTER INSERT ON node WHEN NEW.creator IS NOT NULL AND "
               "NEW.kind != 'root' BEGIN SELECT RAISE(ABORT, 'invalid creator kind for new node') FROM node AS c WHERE "
               "c.i = NEW.creator AND " + kinds + "; END;")
    trigger_is("creator_kinds_on_update", raw_wf, "node_check_creator_kind_upd",
               "CREATE TRIGGER IF NOT EXISTS node_check_creator_kind_upd AFTER UPDATE OF creator ON node WHEN NEW.creator IS NOT "
               "NULL AND NEW.kind != 'root' BEGIN SELECT RAISE(ABORT, 'invalid creator kind after recycle') FROM node AS c WHERE "
               "c.i = NEW.creator AND " + kinds + "; END;")
    trigger_is("dependency_kinds", raw_wf, "dependency_check_kinds_ins",
               "CREATE TRIGGER IF NOT EXISTS dependency_check_kinds_ins AFTER INSERT ON dependency BEGIN SELECT RAISE(ABORT, "
               "'invalid dependency source/sink kind combination') FROM node AS s, node AS k WHERE s.i = NEW.source AND "
               "k.i = NEW.sink AND NOT ( (s.kind = 'file' AND k.kind = 'step') OR (s.kind = 'step' AND k.kind = 'file') OR "
               "(s.kind = 'st' AND k.kind = 'file') ); END;")
    # the trigger that nulls the hash fires for every state that may not carry one
    cleared = ", ".join(str(s.value) for s in (FileState.MISSING, FileState.PLANNED, FileState.VOLATILE))
    has("hash_cleared_for_states_without_hash", filesch, f"NEW.state IN ( {cleared} )", "UPDATE file SET hash = NULL WHERE node = NEW.node")
    return out


# ---------------------------------------------------------------- Node.add_source: the acyclicity guard


def reach(db, a, b) -> tm.T:
    """b is a, or a transitive sink of a, in the dependency table of the given version (assumed closure of
    RECURSE_SINKS: all_sink seeded with a, following source -> sink)."""
    v = db.col_version("dependency", "exists")
    return cur().decls.fun(f"db.reach.v{v}", [INT, INT], BOOL)(I(a), I(b))


def _cyclic_row_fact(row, args):
    """SELECT EXISTS (SELECT 1 FROM all_sink WHERE current = ?) over the closure seeded with args[0]."""
    c = cur()
    db = c.data["cursor"].db
    return wrap_bool(tm.Iff(tm.Gt(I(row[0]), tm.mk_int(0)), reach(db, args[0], args[1])))


def _add_source_self(args):
    db = DbStub("db", [(_spec_text("recurse_sinks.sql") + " " + _spec_text("select_cyclic.sql"), ty.TupleOf(ty.Int),
                        _cyclic_row_fact, True)])
    db.write_reader = graphdb.read_write
    graph = ty.ObjOf(common.Workflow, dict(), name="Workflow").fresh("graph")
    graph._fields["db"] = db
    return fresh_node(File, graph, "self")


def _add_source_insert_guard(e, self, source, skip_cycle_check, old):
    """The edge source -> self is inserted only if self does not reach source (the new edge closes no cycle), unless
    the caller has checked that already (skip_cycle_check, see check_sources_acyclic)."""
    if not e.norm.upper().startswith("INSERT INTO DEPENDENCY"):
        return True
    db0 = db_of(old.self)
    ok_args = tm.And(tm.Eq(I(e.args[0]), I(source.i)), tm.Eq(I(e.args[1]), I(self.i)))
    return wrap_bool(tm.And(ok_args, tm.Or(C08_claims.cycle_checked(self.i, source.i), tm.Not(reach(db0, self.i, source.i)))))


CyclicError = common.excmod.CyclicError


from contracts import C08_claims  # noqa: E402  (the assumed view effect of add_source lives there)

_as = C08_claims.node_add_source
_as.props = list(_as.props) + ["C09"]
_as.verify = True
_as.args = dict(self=_add_source_self, source=lambda a: fresh_node(Step, a["self"].graph, "source"), skip_cycle_check=ty.Bool)
_as.events = {"sql": _add_source_insert_guard}
# the cycle check may be skipped only for an edge that a batch check (check_sources_acyclic on the same sink) covered
_as.requires = lambda self, source, skip_cycle_check: wrap_bool(
    tm.Implies(B(skip_cycle_check), C08_claims.cycle_checked(self.i, source.i)))
_as.raises = {}
_as.may_raise = {CyclicError: lambda self, source, skip_cycle_check, old: wrap_bool(
    tm.And(tm.Not(B(skip_cycle_check)), reach(db_of(old.self), self.i, source.i))), GraphError: None}
_as.env = dict(sqlite3=type("sqlite3", (), dict(IntegrityError=type("IntegrityError", (Exception,), {}))))
trusted.trusted("dependency graph: inserting the edge a -> b into an acyclic graph closes a cycle iff b reaches a "
                "(graph theory); RECURSE_SINKS computes the nodes reachable from its seed (assumed closure)")


# the call sites of Node.add_source: the precondition (a skipped cycle check is covered by a batch check) is an
# obligation of C09 in every function that adds an edge
from contracts import C03_inputs  # noqa: E402

for _c in (C03_inputs.wf_amend_step, C08_claims.define_step, C03_inputs.supply_files_assumed):
    _c.partial_props = dict(_c.partial_props, C09=["call.Node.add_source"])


# ---------------------------------------------------------------- File.initialize_row: which state a (re)created file gets


class _FirGraph:
    def __init__(self, db):
        self.db = db

    def mark_file_outdated(self, file):
        cur().event("fir.mark_file_outdated", file=file)


def _fir_self(args):
    def remember(row, a):
        cur().data["fir.row"] = row
        return True

    db = DbStub("db", [("SELECT state, hash FROM file WHERE node", ty.TupleOf(ty.EnumOf(FileState), ty.Opt(ty.Str)), remember)])
    f = fresh_node(File, None, "self")
    f._fields["graph"] = _FirGraph(db)
    return f


def _fir_finish(c, outcome, args, old):
    """The state written is the requested one, except that a node that was BUILT or OUTDATED keeps that state (and its
    hash) when it is re-created as UNDECLARED or PLANNED; a file that ends up BUILT is immediately marked outdated (a
    recycled output is never taken for final).  One upsert, for this node."""
    if outcome[0] != "return":
        return
    me, req = args["self"], args["state"]
    ups = [e for e in c.trace if e.kind == "sql" and e.norm.upper().startswith("INSERT INTO FILE")]
    c.prove("one_upsert", tm.mk_bool(len(ups) == 1 and isinstance(ups[0].args, dict)), kind="trace")
    if len(ups) != 1 or not isinstance(ups[0].args, dict):
        return
    a = ups[0].args
    sel = [e for e in c.trace if e.kind == "sql.fetchone"]
    reqt = I(req)
    soft = tm.Or(tm.Eq(reqt, tm.mk_int(FileState.UNDECLARED.value)), tm.Eq(reqt, tm.mk_int(FileState.PLANNED.value)))
    c.prove("the_old_row_is_read_iff_the_request_is_soft", tm.Iff(tm.mk_bool(len(sel) == 1), soft), kind="trace")
    written = I(a["state"])
    built, outd = tm.mk_int(FileState.BUILT.value), tm.mk_int(FileState.OUTDATED.value)
    hash_none = a["hash"].isnone if isinstance(a["hash"], sym.SymOpt) else tm.mk_bool(a["hash"] is None)
    row = c.data.get("fir.row") if (len(sel) == 1 and c.known.get(sel[0].isnone.s) is False) else None
    if row is None:
        # no previous row (or a request that is not soft): the requested state, no hash
        c.prove("without_a_previous_row_the_request_is_written", tm.And(tm.Eq(written, reqt), hash_none), kind="post")
    else:
        r = I(row[0])
        was_output = tm.Or(tm.Eq(r, built), tm.Eq(r, outd))
        c.prove("a_previous_output_state_is_kept_with_its_hash", tm.Implies(was_output, tm.And(
            tm.Eq(written, r), B(sym.sym_eq_val(a["hash"], row[1])))), kind="post")
        c.prove("otherwise_the_request_is_written", tm.Implies(tm.Not(was_output), tm.And(tm.Eq(written, reqt), hash_none)), kind="post")
    c.prove("for_this_node", tm.Eq(I(a["node"]), I(me.i)), kind="post")
    marks = [e for e in c.trace if e.kind == "fir.mark_file_outdated"]
    c.prove("a_built_file_is_marked_outdated", tm.Iff(tm.mk_bool(len(marks) == 1 and all(e.file is me for e in marks)), tm.Eq(written, built)), kind="post")


_fir = file_initialize_row
_fir.assume_post = _fir.ensures  # the effect on the ghost view of the tables stays an assumption exported to callers
_fir.ensures = None
_fir.verify = True
_fir.props = ["C09"]
_fir.args = dict(self=_fir_self, state=ty.EnumOf(FileState))
_fir.finish = _fir_finish
