"""C18: "under this directory" selects exactly the paths under it.

Spec predicate (from the property): under(d, l) := d ends with "/" and l starts with d.
Every selection site is proved equivalent to it.  String order in SQL (`>=`, `<`) is the
pair of uninterpreted relations sle/slt, about which only the range lemma is known:
    (sle(q+"/", l) and slt(l, q+"0"))  iff  l starts with q+"/"
proved in the array encoding (specs/smt/range_prefix_{fwd,bwd}.smt2, z3 and cvc5).
"""

from __future__ import annotations

from contracts import trusted
from contracts.trusted import DbStub, SymPath
from vc import engine, extract, sqlfront, sym
from vc import terms as tm
from vc import types as ty
from vc.engine import LoopSpec, contract
from vc.report import file_lemma, lemma, replayer, structural
from vc.sym import B, S, cur, wrap_bool, wrap_str
from vc.terms import BOOL, INT, STR

SLASH = tm.mk_str("/")


def under_t(d: tm.T, l: tm.T) -> tm.T:
    return tm.And(tm.SuffixOf(SLASH, d), tm.PrefixOf(d, l))


def range_axiom(q: tm.T, l: tm.T) -> tm.T:
    """Instance of the range lemma for the uninterpreted order relations."""
    d = cur().decls
    sle = d.fun("sle", [STR, STR], BOOL)
    slt = d.fun("slt", [STR, STR], BOOL)
    qs = tm.Concat(q, SLASH)
    q0 = tm.Concat(q, tm.mk_str("0"))
    return tm.Iff(tm.And(sle(qs, l), slt(l, q0)), tm.PrefixOf(qs, l))


def chop(d: tm.T) -> tm.T:
    """d without its last character."""
    return tm.Substr(d, tm.mk_int(0), tm.Sub(tm.Len(d), tm.mk_int(1)))


file_lemma("C18/lemma/range_is_prefix.fwd", "specs/smt/range_prefix_fwd.smt2", props=["C18", "C11"],
           note="array encoding; lexicographic order by first difference index")
file_lemma("C18/lemma/range_is_prefix.bwd", "specs/smt/range_prefix_bwd.smt2", props=["C18", "C11"],
           note="array encoding; witnesses k1=|q|+1, k2=|q|")
trusted.trusted("SQLite BINARY collation and Python str comparison order strings lexicographically by code "
                "point (UTF-8 preserves code point order); SMT strings and the array encoding of the range "
                "lemma denote the same sequences")

pathmod = extract.import_module("stepup/core/path.py")


@contract("stepup/core/path.py::dir_range_upper", props=["C18", "C11"])
class dir_range_upper:
    args = dict(parent=ty.Str)
    raises = {ValueError: lambda parent: ~parent.endswith("/")}
    ensures = lambda parent, result: result == wrap_str(tm.Concat(chop(S(parent)), tm.mk_str("0")))
    result = ty.Str
    modifies = []


# ---------------------------------------------------------------- translation of a selection


def selection_formula(conj_list, label_t, params, cols=None):
    """Conjunction of SQL conjuncts with every `label` column bound to label_t."""
    c = cur()

    def column(alias, name):
        if name == "label":
            return sqlfront.Val(label_t, "str")
        if cols and (alias, name) in cols:
            return sqlfront.Val(cols[(alias, name)], "str")
        raise sqlfront.SQLError(f"column {alias}.{name} in a directory selection")

    def param(idx):
        try:
            v = params[idx]
        except (IndexError, KeyError, TypeError):
            raise sqlfront.SQLError(f"parameter {idx} not bound") from None
        return sqlfront.Val(S(v), "str")

    tr = sqlfront.Translator(c.decls, column, param)
    return tm.And(*[tr.holds(e) for e in conj_list])


def prove_selection(tag, sql, params, directory, expected_groups=1, cols=None, hyps=None, under=None):
    """Obligations: the statement has exactly `expected_groups` directory selections and each is
    equivalent to under(directory, label) for an arbitrary label."""
    c = cur()
    groups = sqlfront.dir_selections(sql)
    if callable(expected_groups):
        c.prove(f"{tag}.count", expected_groups(len(groups)), kind="sql",
                detail=f"{len(groups)} directory selections in: {sqlfront.normalize(sql)[:200]}")
    else:
        c.prove(f"{tag}.count", len(groups) == expected_groups, kind="sql",
                detail=f"{len(groups)} directory selections in: {sqlfront.normalize(sql)[:200]}")
    d = S(directory) if directory is not None else None
    for k, g in enumerate(groups):
        l = c.fresh(c.fresh_name("label"), STR)
        try:
            f = selection_formula(g, l, params, cols)
        except sqlfront.SQLError as e:
            c.prove(f"{tag}.sel{k}.translatable", False, kind="sql", detail=str(e))
            continue
        if d is not None:
            c.pc.append(range_axiom(chop(d), l))
        patterns = c.data.get("patterns", {})
        for fact in _pattern_facts(l, params, patterns):
            c.pc.append(fact)
        goal = (under or under_t)(d, l)
        c.prove(f"{tag}.sel{k}.iff_under", tm.Iff(f, goal), kind="sql")


def _pattern_facts(l, params, patterns):
    """Instances, at label l, of the postcondition of prefix_clause for every bound pattern."""
    out = []
    if not isinstance(params, (list, tuple)):
        return out
    for p in params:
        if isinstance(p, (sym.SymStr, str)):
            info = patterns.get(S(p).s)
            if info is not None:
                out.append(info(l))
    return out


# ---------------------------------------------------------------- prefix_clause and the SQL pattern operators

BSL = "\\"


def chain_like(x: tm.T) -> tm.T:
    r = tm.ReplaceAll(x, tm.mk_str(BSL), tm.mk_str(BSL + BSL))
    r = tm.ReplaceAll(r, tm.mk_str("%"), tm.mk_str(BSL + "%"))
    return tm.ReplaceAll(r, tm.mk_str("_"), tm.mk_str(BSL + "_"))


def chain_glob(x: tm.T) -> tm.T:
    r = tm.ReplaceAll(x, tm.mk_str("["), tm.mk_str("[[]"))
    r = tm.ReplaceAll(r, tm.mk_str("*"), tm.mk_str("[*]"))
    return tm.ReplaceAll(r, tm.mk_str("?"), tm.mk_str("[?]"))


def operator_axioms(l: tm.T, x: tm.T):
    """Assumed contracts of the SQLite pattern operators on escaped literal prefixes (validated
    against the SQLite library by the bounded stand-in C18/bounded/pattern_operators)."""
    d = cur().decls
    like = d.fun("sql_like_esc", [STR, STR, STR], BOOL)
    glob = d.fun("sql_glob", [STR, STR], BOOL)
    return [
        # LIKE folds ASCII case (SQLite documentation: "LIKE is case-insensitive for ASCII")
        tm.Iff(like(l, tm.Concat(chain_like(x), tm.mk_str("%")), tm.mk_str(BSL)),
               tm.PrefixOf(tm.ToLower(x), tm.ToLower(l))),
        # GLOB is case sensitive; [c] matches the single character c
        tm.Iff(glob(l, tm.Concat(chain_glob(x), tm.mk_str("*"))), tm.PrefixOf(x, l)),
    ]


trusted.trusted("SQLite: `x LIKE esc(p)||'%' ESCAPE '\\'` holds iff lower(x) starts with lower(p) (ASCII folding); "
                "`x GLOB esc(p)||'*'` holds iff x starts with p, for the two escape chains of C18 (validated bounded)")

OP_TEXTS = {" LIKE ? ESCAPE '\\'": "like", " GLOB ?": "glob"}


def pattern_holds(opname, l: tm.T, pattern: tm.T) -> tm.T:
    d = cur().decls
    if opname == "like":
        return d.fun("sql_like_esc", [STR, STR, STR], BOOL)(l, pattern, tm.mk_str(BSL))
    return d.fun("sql_glob", [STR, STR], BOOL)(l, pattern)


def _prefix_clause_post(column, prefix, result):
    clause, pattern = result
    c = cur()
    for text, opname in OP_TEXTS.items():
        if S(clause).s == tm.Concat(S(column), tm.mk_str(text)).s:
            l = c.fresh(c.fresh_name("label"), STR)
            for ax in operator_axioms(l, S(prefix)):
                c.pc.append(ax)
            return wrap_bool(tm.Iff(pattern_holds(opname, l, S(pattern)), tm.PrefixOf(S(prefix), l)))
    return False


def _record_pattern(args, result):
    c = cur()
    _, pattern = result
    x = S(args["prefix"])
    c.data.setdefault("patterns", {})[S(pattern).s] = lambda l: tm.And(*operator_axioms(l, x))


@contract("stepup/core/sqlite3.py::prefix_clause", props=["C18"], inline=True, on_inline=_record_pattern)
class prefix_clause:
    args = dict(column=ty.Str, prefix=ty.Str)
    ensures_named = dict(selects_exactly_the_prefix=_prefix_clause_post)
    modifies = []


@replayer("C18/prefix_clause/post.selects_exactly_the_prefix")
def replay_prefix_clause(o):
    """Run the counter-model (prefix, label) through the real prefix_clause and the SQLite library."""
    from vc.report import model_of

    m = model_of(o, ["prefix", "label"], solvers=("cvc5",))
    if not m or not isinstance(m.get("prefix"), str) or not isinstance(m.get("label"), str):
        return dict(reproduced=False, reason=f"no usable model: {m}")
    p, l = m["prefix"], m["label"]
    code = (
        "import sqlite3, sys\n"
        "from stepup.core.sqlite3 import prefix_clause\n"
        f"p, l = {p!r}, {l!r}\n"
        "con = sqlite3.connect(':memory:'); con.execute('CREATE TABLE node (label TEXT)')\n"
        "con.execute('INSERT INTO node VALUES (?)', (l,))\n"
        "clause, pattern = prefix_clause('label', p)\n"
        "sel = con.execute(f'SELECT label FROM node WHERE {clause}', (pattern,)).fetchall() != []\n"
        "print('prefix', repr(p), 'label', repr(l), 'selected', sel, 'startswith', l.startswith(p))\n"
        "sys.exit(1 if sel != l.startswith(p) else 0)\n")
    import subprocess

    r = subprocess.run(["/venv/bin/python", "-c", code], cwd=extract.REPO, capture_output=True, text=True,
                       env={"PYTHONPATH": extract.REPO, "PATH": "/usr/bin:/bin"})
    return dict(reproduced=r.returncode == 1, python=code, output=r.stdout + r.stderr,
                witness=dict(prefix=p, label=l, claim="prefix_clause selects a label that does not start with "
                                                      "the prefix (or misses one that does)"))


# ---------------------------------------------------------------- bounded validation of the operator contracts

from vc.report import bounded  # noqa: E402


@bounded("pattern_operators", props=["C18"],
         bound="exhaustive: prefixes up to length 2 (quick) / 3 (thorough) and labels up to length 3 / 4 over "
               "the alphabet a A / % _ \\ [ ] * ? ^ é, plus seeded random longer strings; real SQLite library, "
               "real prefix_clause; also validates the assumed LIKE/GLOB contracts used by the proof")
def pattern_operators(tier, seed):
    import itertools
    import random
    import sqlite3

    sq = extract.import_module("stepup/core/sqlite3.py")
    alphabet = ["a", "A", "/", "%", "_", "\\", "[", "]", "*", "?", "^", "é"]
    np_, nl = (2, 3) if tier == "quick" else (3, 4)
    labels = ["".join(t) for n in range(nl + 1) for t in itertools.product(alphabet, repeat=n)]
    rnd = random.Random(seed)
    labels += ["".join(rnd.choice(alphabet) for _ in range(rnd.randint(5, 9))) for _ in range(2000)]
    prefixes = ["".join(t) for n in range(np_ + 1) for t in itertools.product(alphabet, repeat=n)]
    prefixes += [l[: rnd.randint(1, len(l))] for l in rnd.sample(labels[-2000:], 200)]
    con = sqlite3.connect(":memory:")
    con.execute("CREATE TABLE node (label TEXT)")
    con.executemany("INSERT INTO node VALUES (?)", [(l,) for l in labels])
    failures = []
    evals = 0

    def lower(s):
        return "".join(chr(ord(c) + 32) if "A" <= c <= "Z" else c for c in s)

    for p in prefixes:
        clause, pattern = sq.prefix_clause("label", p)
        got = {r[0] for r in con.execute(f"SELECT label FROM node WHERE {clause}", (pattern,))}
        want = {l for l in labels if l.startswith(p)}
        evals += len(labels)
        if got != want:
            bad = sorted(got ^ want)[:3]
            failures.append(dict(prefix=p, labels=bad, selected=[b in got for b in bad]))
        # the assumed operator contracts themselves (both escape chains), independent of the code
        esc_l = p.replace("\\", "\\\\").replace("%", "\\%").replace("_", "\\_") + "%"
        got_l = {r[0] for r in con.execute("SELECT label FROM node WHERE label LIKE ? ESCAPE '\\'", (esc_l,))}
        if got_l != {l for l in labels if lower(l).startswith(lower(p))}:
            failures.append(dict(assumed_contract="LIKE", prefix=p))
        esc_g = p.replace("[", "[[]").replace("*", "[*]").replace("?", "[?]") + "*"
        got_g = {r[0] for r in con.execute("SELECT label FROM node WHERE label GLOB ?", (esc_g,))}
        if got_g != {l for l in labels if l.startswith(p)}:
            failures.append(dict(assumed_contract="GLOB", prefix=p))
        if len(failures) > 5:
            break
    return dict(evaluations=evals, failures=failures)


# ---------------------------------------------------------------- selection sites in Python functions

from contracts import common  # noqa: E402
from contracts.common import Workflow, workflow_spec  # noqa: E402


def _norm_dir(p: tm.T) -> tm.T:
    """`Path(p) / ""`: p with a trailing separator (assumed contract of posixpath.join)."""
    return trusted._join_t(p, tm.mk_str(""))


@contract("stepup/core/workflow.py::Workflow.has_regular_output_under", props=["C18", "C11"])
class has_regular_output_under:
    args = dict(self=workflow_spec(queries=[("SELECT EXISTS (", ty.TupleOf(ty.Int))]), dir_path=ty.Str)
    may_raise = {ValueError: lambda dir_path: ~dir_path.endswith("/")}
    events = {"sql": lambda e, dir_path: _site(e, dir_path)}
    modifies = []


def _site(e, directory, groups=1, tag=None, under=None):
    prove_selection(tag or f"sql{e.ordinal}", e.sql, e.args, directory, expected_groups=groups, under=under)
    return True


StaticTreeRec = ty.Rec(common.StaticTree, dict(graph=ty.SameRef(), i=ty.Int, label=ty.Str),
                       eq=["graph", "i", "label"])


def OT(db, path) -> tm.T:
    """Ghost choice function: an attached static tree that owns `path`, if there is one."""
    return db.fact("owningtree", path, sort=tm.INT)


def owns_t(db, t, path) -> tm.T:
    """Spec: t is an attached static tree whose label is a prefix of Path(path)/""."""
    from contracts import graphdb

    t = sym.I(t)
    return tm.And(graphdb.exists(db, "node", t), tm.Eq(graphdb.val(db, "node", "kind", t), tm.mk_str("st")),
                  tm.Not(db.fact("detached", t)), tm.PrefixOf(graphdb.val(db, "node", "label", t), _norm_dir(S(path))))


def owned(db, path) -> tm.T:
    return common.View(db).owned(path)


def owner_axiom(db, path, *ids):
    """Definition of the abstract view at `path`: owned(path) iff the choice OT(path) is an owner; any owner
    implies that OT(path) is one."""
    cur().pc.append(tm.Iff(owned(db, path), owns_t(db, OT(db, path), path)))
    for t in ids:
        cur().pc.append(tm.Implies(owns_t(db, t, path), owned(db, path)))


def _fost_witness(keys, args, row):
    c = cur()
    owner_axiom(c.data["cursor"].db, c.data["args"]["path"], keys["node"])


def _fost_none_keys(args):
    c = cur()
    owner_axiom(c.data["args"]["self"]._fields["db"], c.data["args"]["path"])
    return [dict(node=OT(c.data["args"]["self"]._fields["db"], c.data["args"]["path"]))]


def _fost_query():
    from contracts import graphdb

    return graphdb.query("SELECT i, label FROM node WHERE kind = 'st'", ty.TupleOf(ty.Int, ty.Str),
                         witness=_fost_witness, none_keys=_fost_none_keys)


def _label_of(db, i):
    from contracts import graphdb

    return graphdb.val(db, "node", "label", sym.I(i))


def _fost_post(self, path, result):
    """None exactly when no attached static tree owns `path` (its label a prefix of Path(path)/""); otherwise
    the result is such a tree."""
    db = self._fields["db"]
    r = sym.resolve(result)
    if r is None:
        return wrap_bool(tm.Not(owned(db, path)))
    from contracts import graphdb

    owner_axiom(db, path, r.i)
    return wrap_bool(tm.And(owns_t(db, r.i, path), tm.Eq(S(r.label), graphdb.val(db, "node", "label", sym.I(r.i)))))


@contract("stepup/core/workflow.py::Workflow._find_owning_static_tree", props=["C18", "C08"])
class find_owning_static_tree:
    """`label = substr(P, 1, length(label))` with P = Path(path)/"" selects the tree labels that are a
    prefix of P, i.e. the trees T with under(T, P) (tree labels end with a separator)."""

    args = dict(self=lambda a: workflow_spec(queries=[_fost_query()]).fresh("workflow"), path=ty.Str)
    env = dict(Path=trusted.Path)
    may_raise = {common.excmod.GraphError: None}
    events = {"sql": lambda e, path: _site(
        e, None, under=lambda d, l: tm.PrefixOf(l, _norm_dir(S(path))))}
    ensures = _fost_post
    result = lambda self: ty.Opt(ty.Make(lambda n: common.fresh_node(common.StaticTree, self, "tree")))
    modifies = []
    loops = {0: LoopSpec(
        locals=dict(trees=ty.SeqOf(StaticTreeRec)),
        invariant=lambda e: (sym.wrap_int(e.trees.length) == e.i) & wrap_bool(tm.Implies(
            tm.Ge(e.trees.length, tm.mk_int(1)),
            tm.And(owns_t(e.entry.self._fields["db"], e.trees.elem(tm.mk_int(0)).i, e.entry.path),
                   tm.Eq(S(e.trees.elem(tm.mk_int(0)).label), _label_of(e.entry.self._fields["db"], e.trees.elem(tm.mk_int(0)).i)))))
        if isinstance(e.trees, sym.SymSeq) else True)}


def _ijwn_exists(labels, body) -> tm.T:
    c = cur()
    j = tm.Var(c.fresh_name("j!bound"), INT)
    return tm.Exists([(j.s, INT)], tm.And(tm.Le(tm.mk_int(0), j), tm.Lt(j, labels.length), body(S(labels.elem(j)))))


def _ijwn_forall(labels, body) -> tm.T:
    c = cur()
    j = tm.Var(c.fresh_name("j!bound"), INT)
    return tm.ForAll([(j.s, INT)], tm.Implies(tm.And(tm.Le(tm.mk_int(0), j), tm.Lt(j, labels.length)), body(S(labels.elem(j)))))


def _ijwn_post(path, tree_labels, result, trace):
    """Justified exactly when (A) the match is a static tree or lies inside one: some tree label is a prefix of the
    match with a separator appended; or the match is a directory (ends with the separator) and (B1) contains a
    static tree: the match is a prefix of some tree label (a root match contains every tree), or (B2) the scan of
    the stored static files finds one.  A match that is not a directory is never justified by a tree or file that
    merely shares a name prefix with it."""
    p = S(path)
    sep = tm.SuffixOf(SLASH, p)
    probe = tm.Ite(sep, p, tm.Concat(p, SLASH))
    root = tm.Or(tm.Eq(p, tm.mk_str("./")), tm.Eq(p, tm.mk_str("/")))
    inside = _ijwn_exists(tree_labels, lambda l: tm.PrefixOf(l, probe))
    contains_tree = tm.Or(tm.And(root, tm.Gt(tree_labels.length, tm.mk_int(0))),
                          _ijwn_exists(tree_labels, lambda l: tm.PrefixOf(p, l)))
    fetches = [e for e in trace if e.kind == "sql.fetchone"]
    if len(fetches) > 1:
        return False
    hit = tm.Not(fetches[0].isnone) if fetches else tm.FALSE
    decided_without_store = tm.Or(inside, tm.Not(sep), contains_tree)
    return wrap_bool(tm.And(tm.Iff(B(result), tm.Or(inside, tm.And(sep, tm.Or(contains_tree, hit)))),
                            tm.Iff(tm.mk_bool(len(fetches) == 0), decided_without_store)))


@replayer("C18/Workflow._is_justified_without_node/post")
def replay_is_justified(o):
    """Run the counter-model (path, tree labels) through the real function on a workflow without static files, and
    compare with the property's reading: justified iff inside a tree, or a directory that contains one."""
    from vc.report import const_name, model_terms

    pn, ln, en = const_name(o, "path"), const_name(o, "tree_labels.len"), const_name(o, "tree_labels.elem")
    if not (pn and ln and en):
        return dict(reproduced=False, reason="model constants not found")
    m = None
    for bound in (1, 2, 4, 8):  # a small counter-model first
        m = model_terms(o, [(STR, pn), (INT, ln)], extra=[f"(<= {ln} {bound})", f"(<= (str.len {pn}) 12)"])
        if m:
            break
    if not m or not isinstance(m.get(ln), int) or m[ln] > 8:
        return dict(reproduced=False, reason=f"no usable model: {m}")
    n = m[ln]
    pin = [f"(= {pn} {tm.smt_str(m[pn])})", f"(= {ln} {n})"]
    sel = [(STR, f"(select {en} {k})") for k in range(n)]
    m2 = model_terms(o, sel, extra=pin) if n else {}
    if m2 is None:
        return dict(reproduced=False, reason="no model for the labels")
    path, labels = m[pn], [m2[t] for _, t in sel]
    if not all(isinstance(x, str) for x in [path] + labels):
        return dict(reproduced=False, reason="non-string model values")
    code = (
        "import asyncio, os, sys\n"
        "from stepup.core.sqlite3 import DBSession\n"
        "from stepup.core.workflow import Workflow\n"
        f"path, labels = {path!r}, {labels!r}\n"
        "async def main():\n"
        "    with DBSession.open(':memory:') as db:\n"
        "        wf = Workflow(db, dir_queue=asyncio.Queue())\n"
        "        await wf.initialize()\n"
        "        async with db:\n"
        "            return wf._is_justified_without_node(path, labels)\n"
        "got = asyncio.run(main())\n"
        "probe = path if path.endswith('/') else path + '/'\n"
        "inside = any(probe.startswith(l) for l in labels)\n"
        "contains = path.endswith('/') and ((path in ('./', '/') and bool(labels)) or any(l.startswith(path) for l in labels))\n"
        "# (the store holds no static file: the scan finds nothing)\n"
        "want = inside or contains\n"
        "print('path', repr(path), 'tree labels', labels, 'justified', got, 'expected', want)\n"
        "sys.exit(1 if got != want else 0)\n")
    import subprocess

    r = subprocess.run(["/venv/bin/python", "-c", code], cwd=extract.REPO, capture_output=True, text=True,
                       env={"PYTHONPATH": extract.REPO, "PATH": "/usr/bin:/bin"})
    return dict(reproduced=r.returncode == 1, python=code, output=(r.stdout + r.stderr)[-1500:],
                witness=dict(path=path, tree_labels=labels, claim="a glob match without node is (not) justified by static "
                                                                  "trees against the property's reading"))


@contract("stepup/core/workflow.py::Workflow._is_justified_without_node", props=["C18"])
class is_justified_without_node:
    """The SQL arm scans exactly the labels under `path` unless `path` is a root, where no range is used; the Python
    arms compare whole components (see _ijwn_post)."""

    ensures = _ijwn_post
    # the callers' invariants (docstring): a match is a non-empty root-relative path, every tree label ends with the
    # separator; assumed on entry so that counter-models are well-formed inputs
    entry = lambda path, tree_labels: wrap_bool(tm.And(
        tm.Gt(tm.Len(S(path)), tm.mk_int(0)),
        _ijwn_forall(tree_labels, lambda l: tm.And(tm.SuffixOf(SLASH, l), tm.Gt(tm.Len(l), tm.mk_int(1))))))

    args = dict(self=workflow_spec(queries=[("SELECT 1 FROM node JOIN file", ty.TupleOf(ty.Int))]),
                path=ty.Str, tree_labels=ty.SeqOf(ty.Str))
    events = {"sql": lambda e, path: _site(
        e, path, groups=lambda n: wrap_bool(tm.And(tm.mk_bool(n <= 1), tm.Iff(
            tm.mk_bool(n == 1), tm.Not(tm.Or(tm.Eq(S(path), tm.mk_str("./")), tm.Eq(S(path), tm.mk_str("/"))))))))}
    modifies = []


def _rst_site(e, path):
    """register_static_tree: the three scans that use the prefix pattern select under(Path(path)/"", label)."""
    n = len(sqlfront.dir_selections(e.sql))
    if n == 0:
        return True
    return _site(e, wrap_str(_norm_dir(S(path))), groups=1)


def _fresh_bool(name):
    c = cur()
    return sym.SymBool(c.fresh(c.fresh_name(name), BOOL))


def _rst_finish(c, outcome):
    """A normal return that installed the tree went through all three prefix scans."""
    if outcome[0] != "return":
        return
    created = [e for e in c.trace if e.kind == "create"]
    if not created:
        return
    scans = [e for e in c.trace if e.kind == "sql" and sqlfront.dir_selections(e.sql)]
    n = len(scans)
    c.prove("three_scans_before_install", n == 3, kind="sql", detail=f"{n} prefix scans on the installing path")
    if n == 3:
        # C08 (a static tree exclusively owns every path beneath it): the last scan, whose rows the tree adopts, selects
        # *every* detached file node under the tree -- no further condition (a leftover of any state, PLANNED or
        # VOLATILE included, would otherwise come back with its old owner when that owner is recycled)
        w = sqlfront.where_of(scans[2].sql)
        cj = sqlfront.conjuncts(w)
        plain = [x for x in cj if x[0] == "col"]
        ok = len(cj) == 2 and len(plain) == 1 and plain[0][2] == "detached" and plain[0][1] in (None, "node")
        c.prove("every_detached_file_below_is_adopted", tm.mk_bool(ok), kind="sql",
                detail=f"WHERE of the adoption scan has {len(cj)} conjunct(s): {[x[0] for x in cj]}")
        calls = [e for e in c.trace if e.kind == "call" and e.callee == "Workflow.declare_static_files" and e.index > scans[2].index]
        c.prove("the_selected_paths_are_declared_static_by_the_tree", tm.mk_bool(len(calls) == 1), kind="trace")


def _dir_with_sep(d: tm.T) -> tm.T:
    return tm.Ite(tm.SuffixOf(SLASH, d), d, tm.Concat(d, SLASH))


def _rpu_yield(e, directory):
    """Every path yielded by the second loop (recorded glob matches) starts with the directory."""
    return True


@contract("stepup/core/workflow.py::Workflow.nglob_registrations", props=[], verify=False,
          note="yields (row id, NamedGlob, Step) triples of attached steps")
class nglob_registrations_assumed:
    result = lambda: ty.Make(_registrations)
    modifies = []


def _registrations(name):
    """The listing: (row id, NamedGlob, Step) triples; the j-th triple is a function of j (the same objects however
    often the list is read), and the row id identifies the registration."""
    c = cur()
    n = c.fresh(name + ".len", tm.INT)
    c.pc.append(tm.Ge(n, tm.mk_int(0)))
    ids = c.fresh(name + ".ids", tm.arr(tm.INT, tm.INT))
    steps = ty.Opaque("StepRef").arr_fresh(name + ".steps", tm.INT)
    reg_of_id = c.decls.fun("nglob.reg_of_id", [tm.INT], tm.INT)

    def elem(j):
        i = tm.Select(ids, j, tm.INT)
        ng = _NGStub(name, reg=reg_of_id(i))
        return (sym.wrap_int(i), ng, ty.Opaque("StepRef").arr_select(steps, j))

    return sym.SymSeq(elem, n, name=name)


class _NGStub:
    """A stored NamedGlob: pattern, substitutions and recorded matches are functions of the registration (the row
    of the nglob table); files() is some sequence of paths whose set is the recorded match set."""

    def __init__(self, name, reg=None):
        c = cur()
        self.name = name
        # identifies the registration this object was loaded from
        self.reg = reg if reg is not None else c.fresh(c.fresh_name(name + ".reg"), tm.INT)
        d = c.decls
        c.decls.sort("MatchSet")
        c.decls.sort("Subs")
        self.pattern = wrap_str(d.fun("nglob.pattern_of", [tm.INT], STR)(self.reg))
        self.subs = sym.SymOpaque(d.fun("nglob.subs_of", [tm.INT], "Subs")(self.reg))
        self.mset = d.fun("nglob.recorded_of", [tm.INT], "MatchSet")(self.reg)

    def files(self):
        q = ty.SeqOf(ty.Str).fresh(cur().fresh_name("ng.files"))
        q.mset = self.mset
        return q


def _rpu_finish(c, outcome, args):
    d = _dir_with_sep(S(args["directory"]))
    for k, e in enumerate(ev for ev in c.trace if ev.kind == "yield"):
        if getattr(e, "from_sql", False):
            continue
        # yields of the glob loop are dominated by `path.startswith(directory)`
        c.prove(f"yield{k}.under", tm.PrefixOf(d, S(e.value)), kind="event")


@contract("stepup/core/workflow.py::Workflow.relevant_paths_under", props=["C18"])
class relevant_paths_under:
    """Both arms select by the same directory: the SQL pattern is under(directory + sep, label), and a
    recorded glob match is yielded only if it starts with directory + sep."""

    args = dict(self=workflow_spec(queries=[("SELECT label FROM node JOIN file", ty.TupleOf(ty.Str))]),
                directory=ty.Str, during_build=ty.Bool)
    events = {"sql": lambda e, directory: _site(e, wrap_str(_dir_with_sep(S(directory)))),
              "yield": lambda e, directory, trace: _rpu_yield_guard(e, directory, trace)}
    env = dict(set=lambda *a: ty.SetOf(ty.Str).empty())
    modifies = []


def _rpu_yield_guard(e, directory, trace):
    d = _dir_with_sep(S(directory))
    # a yielded value either is a row of the SQL scan (selected under d, proved at the sql event) or a glob match
    src = getattr(e.value, "t", None)
    if src is not None and ".rows" in src.s and ".elem" in src.s and "ng.files" not in src.s:
        return True
    return wrap_bool(tm.PrefixOf(d, S(e.value)))


cleanmod = extract.import_module("stepup/core/clean.py")


@contract("stepup/core/clean.py::search_matching_paths", props=["C18", "C06"])
class search_matching_paths:
    """`stepup clean DIR` selects the label DIR itself or the labels under DIR/ (root: everything)."""

    args = dict(con=ty.Make(lambda n: DbStub(n, [("SELECT label FROM node JOIN file", ty.TupleOf(ty.Str))])),
                # requires: every element is a translate() result, i.e. a normalised, non-empty path
                tr_paths=ty.SetOf(trusted.PathStr, invariant=lambda p: p != ""))
    env = dict(set=lambda *a: ty.SetOf(ty.Str).empty())
    events = {"sql": lambda e: _clean_site(e)}
    modifies = []


def _clean_site(e):
    n = len(sqlfront.dir_selections(e.sql))
    if n == 0:
        # the root arm: no filter at all
        cur().prove(f"sql{e.ordinal}.root_has_no_filter", sqlfront.where_of(e.sql) is None, kind="sql")
        return True
    # args = (tr_path, pattern): the directory is tr_path / ""
    p = S(e.args[0])
    d = wrap_str(_norm_dir(p))
    return _site(e, d, under=lambda dd, l: tm.Or(tm.Eq(l, p), under_t(dd, l)))


# ---------------------------------------------------------------- directory targets in the scheduler

schedmod = extract.import_module("stepup/core/scheduler.py")
Scheduler = schedmod.Scheduler


def _target_dir_insert(e):
    """Row invariant of the temp table target_dir: upper = dir_range_upper(path), path ends with '/'."""
    if "target_dir" not in e.norm:
        return True
    c = cur()
    q = vcrt_as_symseq(e.args)
    if q is None:
        return False
    i = c.fresh(c.fresh_name("row"), tm.INT)
    c.pc.append(tm.And(tm.Le(tm.mk_int(0), i), tm.Lt(i, q.length)))
    row = q.elem(i)
    p, u = S(row[0]), S(row[1])
    return wrap_bool(tm.And(tm.SuffixOf(SLASH, p), tm.Eq(u, tm.Concat(chop(p), tm.mk_str("0")))))


def vcrt_as_symseq(x):
    from vc import vcrt

    return vcrt.as_symseq(x)


@contract("stepup/core/scheduler.py::Scheduler.initialize", props=["C18", "C11"])
class scheduler_initialize:
    args = dict(self=ty.ObjOf(Scheduler, dict(
        db=ty.Make(lambda n: DbStub(n)),
        workflow=ty.ObjOf(Workflow, dict(targets=ty.SetOf(trusted.PathStr), target_dirs=ty.SetOf(trusted.PathStr))))),
        available_resources=ty.Opt(ty.Str))
    env = dict(parse_resources=lambda s: ty.MapOf(ty.Str, ty.Int).fresh(cur().fresh_name("resources")))
    may_raise = {ValueError: None}
    events = {"sql.many": lambda e: _target_dir_insert(e)}
    modifies = []


def _const_selection(name, relpath, const):
    def fn():
        c = cur()
        sql = extract.module_constant(relpath, const)
        P, U = c.fresh("target_dir.path", STR), c.fresh("target_dir.upper", STR)
        # row invariant of target_dir, established by Scheduler.initialize (obligation above) and
        # preserved because no other statement writes the table (scan obligation below)
        c.pc.append(tm.And(tm.SuffixOf(SLASH, P), tm.Eq(U, tm.Concat(chop(P), tm.mk_str("0")))))
        prove_selection(const, sql, (), wrap_str(P), expected_groups=1,
                        cols={("target_dir", "path"): P, ("target_dir", "upper"): U})
        return None

    lemma(name, props=["C18", "C11"])(fn)


_const_selection("C18/sql/UPDATE_CHECK_AFTER.dir_arm", "stepup/core/scheduler.py", "UPDATE_CHECK_AFTER")
_const_selection("C18/sql/RECONCILE_TARGET_DIRS", "stepup/core/workflow.py", "RECONCILE_TARGET_DIRS")


@structural("C18/scan/target_dir_writers", props=["C18", "C11"],
            note="the only statements that write the temp table target_dir are its INSERT and DELETE constants")
def target_dir_writers():
    import ast
    import glob
    import os

    out = []
    allowed = {sqlfront.normalize(extract.module_constant("stepup/core/scheduler.py", n))
               for n in ("INIT_TARGET_DIR", "EMPTY_TARGET_DIR", "INSERT_TARGET_DIR")}
    found = 0
    for path in sorted(glob.glob(os.path.join(extract.REPO, "stepup", "core", "*.py"))):
        rel = os.path.relpath(path, extract.REPO)
        _, tree = extract.read_module(rel)
        for node in ast.walk(tree):
            if isinstance(node, ast.Constant) and isinstance(node.value, str) and "target_dir" in node.value:
                txt = node.value
                up = txt.upper()
                writes = any(k in up for k in ("INSERT INTO TARGET_DIR", "DELETE FROM TARGET_DIR", "UPDATE TARGET_DIR",
                                               "REPLACE INTO TARGET_DIR", "CREATE TEMPORARY TABLE IF NOT EXISTS TARGET_DIR",
                                               "DROP TABLE"))
                if not writes:
                    continue
                found += 1
                try:
                    ok = sqlfront.normalize(txt) in allowed
                except sqlfront.SQLError:
                    ok = False
                out.append((f"scan/target_dir_writers/{rel}:{node.lineno}", ok, txt.strip()[:80]))
    out.append(("scan/target_dir_writers/found", found >= 3, f"{found} writer statements found"))
    return out
