"""C07 bounded stand-in: after a successful unrestricted build followed by the clean-up, no orphan is left in the
graph and every file an earlier build produced for a step that is no longer defined has been queued for removal.

World: contracts/C09_bounded.py (real Workflow and Scheduler, in-memory database; five versions of the plan script that
drop, re-add and re-role steps and outputs).  A history is a sequence of plan edits and completed builds.  After the
last build, if it succeeded (every attached step SUCCEEDED), the clean-up runs as Builder.finalize runs it
(revert_optional_steps, Workflow.delete_detached) and then:

  * every node still stored is attached, or is a detached node that an attached node consumes (the documented reason
    for keeping it), or holds such a node through creator / dependency links;
  * every output or volatile output that an earlier build had BUILT and that no attached step declares any more is in
    Workflow.to_be_deleted (what remove_deletable_files works through; its own guard is C06).

The files on disk are not modelled (C06 decides what remove_deletable_files may delete)."""

from __future__ import annotations

import asyncio
import itertools
import os

from contracts import C05_bounded, C09_bounded
from vc import extract
from vc.report import bounded

OPS = ["build", "edit", "touch"]


async def _history(m, ops):
    finalize = extract.import_module("stepup/core/finalize.py")
    w = C05_bounded.CrashWorld(m, None)
    FS, SS = m["enums"].FileState, m["enums"].StepState
    built_ever = set()
    with m["sqlite3"].DBSession.open(":memory:") as db:
        w.db = db
        try:
            await w.boot()
            for name in ops:
                await C05_bounded._do(w, m, name)
                async with db:
                    for (p,) in db.execute("SELECT label FROM node JOIN file ON file.node = node.i WHERE file.state = ?",
                                           (FS.BUILT.value,)):
                        built_ever.add(p)
        except C09_bounded.Internal as e:
            return dict(history=list(ops), error="C09: " + str(e))
        async with db:
            states = [r[0] for r in db.execute("SELECT step.state FROM step JOIN node ON node.i = step.node WHERE NOT detached")]
        if any(s != SS.SUCCEEDED.value for s in states):
            return None
        # the clean-up of Builder.finalize
        class R:
            async def __call__(self, *a, **k):
                return None

        try:
            await w.scheduler.pop_next_job()  # the metadata pass (implied need of optional steps) of the build loop
            await finalize.revert_optional_steps(w.wf, R())
            async with db:
                w.wf.delete_detached()
        except Exception as e:  # noqa: BLE001
            return dict(history=list(ops), error=f"clean-up raised {type(e).__name__}: {str(e)[:200]}")
        async with db:
            rows = db.execute("SELECT i, kind, label, creator, detached FROM node").fetchall()
            deps = db.execute("SELECT source, sink FROM dependency").fetchall()
            declared = {r[0] for r in db.execute(
                "SELECT node.label FROM node JOIN file ON file.node = node.i WHERE NOT node.detached")}
        by = {r[0]: r for r in rows}
        attached = {r[0] for r in rows if not r[4]}
        # detached nodes that are justified: an attached node consumes them, or they hold a justified node
        justified = set()
        changed = True
        while changed:
            changed = False
            for i, kind, label, creator, det in rows:
                if not det or i in justified:
                    continue
                sinks = [t for s, t in deps if s == i]
                products = [r[0] for r in rows if r[3] == i]
                if any(t in attached or t in justified for t in sinks) or any(p in justified for p in products):
                    justified.add(i)
                    changed = True
        orphans = [(by[i][1], by[i][2]) for i in by if by[i][4] and i not in justified]
        if orphans:
            return dict(history=list(ops), error=f"detached nodes left in the graph after the clean-up: {orphans}")
        queue = set(str(p) for p in w.wf.to_be_deleted)
        missing = sorted(p for p in built_ever if p not in declared and p not in queue
                         and not any(by[i][2] == p for i in justified))
        if missing:
            return dict(history=list(ops), error=f"outputs of steps that are no longer defined were not queued for removal: {missing}",
                        queue=sorted(queue))
        return "ok"


def _chunk(histories):
    m = C09_bounded._mods()
    os.environ["STEPUP_DEBUG"] = "1"
    return [asyncio.run(_history(m, list(ops))) for ops in histories]


@bounded("no_orphans_after_clean", props=["C07"],
         bound="exhaustive: every history of plan edits, source touches and completed builds of the C09 world (five plan "
               "versions) of length <= 5 (quick) / <= 7 (thorough) that ends in a successful build; then the clean-up")
def no_orphans_after_clean(tier, seed):
    import concurrent.futures
    import multiprocessing

    depth = 5 if tier == "quick" else 7
    histories = [("build",) + ops + ("build",) for length in range(0, depth + 1) for ops in itertools.product(OPS, repeat=length)]
    size = max(1, len(histories) // 128)
    chunks = [histories[i:i + size] for i in range(0, len(histories), size)]
    results = []
    with concurrent.futures.ProcessPoolExecutor(max_workers=16, mp_context=multiprocessing.get_context("fork")) as ex:
        for res in ex.map(_chunk, chunks):
            results.extend(res)
    failures = [r for r in results if isinstance(r, dict)]
    ok = sum(1 for r in results if r == "ok")
    if ok == 0:
        failures.append(dict(error="no history ended in a successful build: the stand-in checks nothing"))
    return dict(evaluations=len(histories), failures=failures[:20], successful_builds=ok)
