"""C10 bounded stand-in: dispatch is exact at every decision of every schedule of small two-phase worlds.

The contracts of C10 decide the dispatch query against the cached columns, the coverage of the triggers that flag
those columns, and mark_completed.  What they do not decide is the whole-history clause: that after any history of
graph changes a decision is taken on columns that agree with their definitions, and that no wake-up is lost.  This
stand-in explores every schedule (which ready step is popped when, which running job completes next, 1 to 3 jobs in
flight) of small worlds on the real Workflow and Scheduler, over two build phases with an edit in between, and
checks at *every dispatch decision* (inside pop_next_job's transaction, right after the metadata passes):

  exact      the step Scheduler._get_next_step returns is eligible by the property's definition computed from the base
             tables (pending, attached, needed by the fixed point of its consumers, not deferred, every creator step
             RUNNING or SUCCEEDED, every input available), and when it returns nothing while the build is not draining,
             no step is eligible;
  wake-up    a deferred step still has an announced input that is not available (otherwise its wake-up was lost);

and, when a phase ends (nothing runs, nothing can be popped), that no attached, needed, PENDING step has all its
creators done and all its inputs available.

Worlds: the six single-phase worlds of C02_bounded (announced inputs and outputs, run-time step definition, optional
producers), and two-phase worlds in which the source is edited between the phases, a producer reruns and reproduces
its output unchanged while a consumer defined in phase 2 announces that output at run time."""

from __future__ import annotations

import asyncio
import os

from contracts import C02_bounded, C09_bounded
from vc.report import bounded

WORLDS2 = {
    # phase 1: M builds d.txt from s.txt.  Edit: s.txt changes, the plan gets a step U that announces d.txt when it runs.
    # phase 2: M reruns (or is being checked) and reproduces d.txt unchanged; U may run before, while or after that.
    "unchanged-output-announced-late": dict(
        steps=[("M", ["s.txt"], ["d.txt"], {})],
        steps2=[("M", ["s.txt"], ["d.txt"], {}), ("U", [], ["u.txt"], {})],
        run=dict(U=dict(amend_inp=["d.txt"])), stable=True, touch=True),
    # the same with a changed output
    "changed-output-announced-late": dict(
        steps=[("M", ["s.txt"], ["d.txt"], {})],
        steps2=[("M", ["s.txt"], ["d.txt"], {}), ("U", [], ["u.txt"], {})],
        run=dict(U=dict(amend_inp=["d.txt"])), stable=False, touch=True),
    # a chain whose middle step reproduces its output: the end of the chain must still be woken or skipped
    "chain-with-unchanged-middle": dict(
        steps=[("A", ["s.txt"], ["o.txt"], {}), ("B", ["o.txt"], ["p.txt"], {}), ("X", [], ["x.txt"], {})],
        steps2=[("A", ["s.txt"], ["o.txt"], {}), ("B", ["o.txt"], ["p.txt"], {}), ("X", [], ["x.txt"], {})],
        run=dict(X=dict(amend_inp=["p.txt"])), stable=True, touch=True),
}
for _k, _v in C02_bounded.WORLDS.items():
    WORLDS2.setdefault(_k, _v)


class World(C02_bounded.World):
    def __init__(self, m, world, variant=0):
        C09_bounded.World.__init__(self, m)
        self.world = WORLDS2[world]
        self.variant = variant
        self.running = []
        self.phase = 1
        self.decisions = 0

    def plan_script(self, plan):
        saved = self.world
        if self.phase == 2 and "steps2" in saved:
            self.world = dict(saved, steps=saved["steps2"])
        try:
            super().plan_script(plan)
        finally:
            self.world = saved

    # ----- the property's definitions, from the base tables

    def eligible(self):
        """Labels of the steps that may be dispatched now, and the deferred steps without a pending reason."""
        db, m = self.db, self.m
        E = m["enums"]
        SS, FS, N = E.StepState, E.FileState, E.Need
        node = {i: (kind, label, creator, det) for i, kind, label, creator, det in
                db.execute("SELECT i, kind, label, creator, detached FROM node")}
        step = {i: (state, need, deferred) for i, state, need, deferred in
                db.execute("SELECT node, state, need, deferred FROM step")}
        fstate = dict(db.execute("SELECT node, state FROM file").fetchall())
        dyn = {i for (i,) in db.execute("SELECT i FROM dynamic_dep")}
        deps = db.execute("SELECT i, source, sink FROM dependency").fetchall()
        attached = {i for i in step if not node[i][3]}
        # need: fixed point over consumers of outputs
        need = {i: step[i][1] for i in attached}
        outs, cons = {}, {}
        for _, s, t in deps:
            if s in attached and t in fstate:
                outs.setdefault(s, []).append(t)
            if t in attached and s in fstate:
                cons.setdefault(s, []).append(t)
        changed = True
        while changed:
            changed = False
            for s in attached:
                for f in outs.get(s, []):
                    if node[f][3] or fstate[f] == FS.VOLATILE.value:
                        continue
                    for t in cons.get(f, []):
                        if need[t] > need[s]:
                            need[s] = need[t]
                            changed = True
        ok, stale, has_hash = set(), set(), {n for (n,) in db.execute("SELECT node FROM step_hash")}
        for i in attached:
            state, _, deferred = step[i]
            # every creator that is a step is RUNNING or SUCCEEDED
            c, safe = node[i][2], True
            while c is not None and node[c][0] != "root":
                if node[c][0] == "step" and step[c][0] not in (SS.RUNNING.value, SS.SUCCEEDED.value):
                    safe = False
                c = node[c][2]
            unavailable, dyn_unavailable = False, False
            for d, s, t in deps:
                if t != i or s not in fstate:
                    continue
                st, det = fstate[s], node[s][3]
                if st == FS.VOLATILE.value:
                    unavailable = True
                elif d in dyn:
                    if not det and st in (FS.PLANNED.value, FS.OUTDATED.value):
                        unavailable = True
                    if st not in (FS.CONFIRMED.value, FS.BUILT.value):
                        dyn_unavailable = True
                elif det or st not in (FS.BUILT.value, FS.CONFIRMED.value):
                    unavailable = True
            if state == SS.PENDING.value and deferred and not dyn_unavailable:
                stale.add(node[i][1])
            if state == SS.PENDING.value and not deferred and safe and not unavailable and need[i] > N.OPTIONAL.value:
                ok.add(node[i][1])
        return ok, stale

    async def pop(self):
        """One dispatch decision, observed from inside pop_next_job's transaction."""
        cls = type(self.scheduler)
        orig = cls._get_next_step
        seen = {}

        def spy(sched_self):
            seen["eligible"], seen["stale"] = self.eligible()
            r = orig(sched_self)
            seen["r"] = r
            return r

        cls._get_next_step = spy
        try:
            got = await super().pop()
        finally:
            cls._get_next_step = orig
        if "eligible" in seen:
            self.decisions += 1
            r = seen["r"]
            if seen["stale"]:
                raise C09_bounded.Internal(f"lost wake-up: deferred although every announced input is available: {sorted(seen['stale'])}")
            if r is not None and r[0].label not in seen["eligible"]:
                raise C09_bounded.Internal(f"step {r[0].label} was dispatched although it is not eligible (eligible: {sorted(seen['eligible'])})")
            if r is None and seen["eligible"] and not getattr(self.scheduler, "draining", False):
                raise C09_bounded.Internal(f"nothing was dispatched although these steps are eligible: {sorted(seen['eligible'])}")
        return got

    async def complete(self, k):
        if self.world.get("stable"):
            self.stable = True
        await super().complete(k)

    async def end_of_phase(self):
        async with self.db:
            ok, stale = self.eligible()
        if stale:
            raise C09_bounded.Internal(f"phase {self.phase} ended with a lost wake-up: {sorted(stale)}")
        if ok:
            raise C09_bounded.Internal(f"phase {self.phase} ended although these steps are eligible: {sorted(ok)}")

    async def between_phases(self):
        self.phase = 2
        if self.world.get("touch"):
            await self.op("touch")
        await self.op("edit")  # plan.py changes: the plan step runs again with the phase-2 script


async def _explore(m, world, njobs, variant, limit=3000, outcomes=None):
    """Every schedule of the world's phases; returns the first failure or the number of schedules and decisions.
    `outcomes` (a dict) collects the final graph of every schedule (C02: it must be the same for all of them)."""
    from contracts import C05_bounded

    stack = [()]
    explored = decisions = 0
    two = "steps2" in WORLDS2[world]
    while stack:
        choices = stack.pop()
        explored += 1
        if explored > limit:
            break
        w = World(m, world, variant)
        with m["sqlite3"].DBSession.open(":memory:") as db:
            w.db = db
            try:
                await w.boot()
                pos = steps_done = 0
                while True:
                    opts = []
                    if len(w.running) < njobs:
                        opts.append("pop")
                    opts += [("complete", k) for k in range(len(w.running))]
                    if not opts:
                        break
                    if pos < len(choices):
                        choice = choices[pos]
                    else:
                        for alt in opts[1:]:
                            stack.append(choices[:pos] + (alt,))
                        choice = opts[0]
                        choices = choices[:pos] + (choice,)
                    pos += 1
                    if choice == "pop":
                        got = await w.pop()
                        if not got:
                            if not w.running:
                                await w.end_of_phase()
                                if two and w.phase == 1:
                                    await w.between_phases()
                                    continue
                                break
                            if pos == len(choices):
                                for k in range(len(w.running)):
                                    stack.append(choices[:pos - 1] + (("complete", k),))
                                choices = None
                                break
                    else:
                        if choice[1] >= len(w.running):
                            choices = None
                            break
                        await w.complete(choice[1])
                    steps_done += 1
                    if steps_done > 80:
                        return dict(world=world, njobs=njobs, error="schedule does not terminate", schedule=list(map(str, choices)))
            except C09_bounded.Internal as e:
                return dict(world=world, njobs=njobs, variant=variant, error=str(e), schedule=list(map(str, choices or ())))
            except (m["exceptions"].ConsistencyError, AssertionError) as e:
                # the code's own sanity checks (e.g. _derive_job: a dispatched step has an input that is not ready)
                return dict(world=world, njobs=njobs, variant=variant, error=f"{type(e).__name__}: {str(e)[:200]}",
                            schedule=list(map(str, choices or ())))
            decisions += w.decisions
            if outcomes is not None and choices is not None:
                async with db:
                    g = C05_bounded.graph(db, m)
                    needs = sorted(db.execute("SELECT node.label, step.need, step._implied_need FROM step JOIN node ON node.i = step.node "
                                              "WHERE NOT node.detached").fetchall())
                key = repr((sorted(g["nodes"].items()), sorted(g["edges"]), sorted(g["hashes"]), needs))
                outcomes.setdefault(key, list(map(str, choices)))
    return dict(schedules=min(explored, limit), decisions=decisions, truncated=explored > limit)


def _one(args):
    world, njobs, variant, limit = args
    m = C09_bounded._mods()
    os.environ["STEPUP_DEBUG"] = "1"
    return world, asyncio.run(_explore(m, world, njobs, variant, limit))


@bounded("dispatch_is_exact", props=["C10"],
         bound="every schedule (which ready step is popped when, which running job completes next) of 9 small worlds, three "
               "of them with two build phases and an edit of the source and the plan in between (a producer reproduces its "
               "output unchanged / changed while a consumer defined in phase 2 announces it at run time).  quick: 1 and 2 "
               "jobs in flight, every choice of the step with the longest duration estimate for the single-phase worlds and "
               "the first for the two-phase ones, depth-first and cut after 600 schedules per (world, jobs) -- only the "
               "three-step chain world reaches the cut; thorough: 1, 2 and 3 jobs, every choice, cut after 20000.  At every "
               "dispatch decision the returned step against eligibility computed from the base tables, deferred steps "
               "against their announced inputs, and the same at the end of each phase")
def dispatch_is_exact(tier, seed):
    import concurrent.futures
    import multiprocessing

    jobs = []
    for w, spec in WORLDS2.items():
        two = "steps2" in spec
        nvar = len(spec.get("steps2", spec["steps"]))
        for n in ((1, 2) if tier == "quick" else (1, 2, 3)):
            for v in range(1 if (two and tier == "quick") else nvar):
                jobs.append((w, n, v, 600 if tier == "quick" else 20000))
    jobs.sort(key=lambda j: ("steps2" not in WORLDS2[j[0]], -j[1]))  # the expensive ones first
    failures, schedules, decisions, cut = [], 0, 0, []
    with concurrent.futures.ProcessPoolExecutor(max_workers=16, mp_context=multiprocessing.get_context("fork")) as ex:
        for (world, njobs, variant, _), (_, res) in zip(jobs, ex.map(_one, jobs)):
            if "error" in res:
                failures.append(res)
            else:
                schedules += res["schedules"]
                decisions += res["decisions"]
                if res["truncated"]:
                    cut.append(f"{world}/jobs={njobs}/variant={variant}")
    seen, minimal = set(), []
    for f in failures:
        key = (f["world"], f["error"][:80])
        if key not in seen:
            seen.add(key)
            minimal.append(f)
    return dict(evaluations=decisions, failures=minimal[:12], schedules=schedules, cut_after_limit=cut)
