"""Watcher.record_change: the two change sets of a watch phase (C04, C17).

`Watcher.deleted` and `Watcher.updated` are what the end of a watch phase hands, unverified, to
Workflow.process_nglob_changes (NamedGlob.will_change: proved against the recorded set in C17_results.py) and to
the hash jobs.  The premise of those consumers is that the two sets are the *net* changes: a path is in at most one of
them, and the last relevant event for a path decides in which.  The contract:

  DELETED, relevant      afterwards the path is in `deleted` and not in `updated`
  UPDATED, relevant      afterwards the path is in `updated` and not in `deleted`
  not relevant           both sets unchanged
  every other path       membership in both sets unchanged
  invariant              `deleted` and `updated` stay disjoint

(DELETED_PARENT: every relevant path under the directory ends up in `deleted` and not in `updated`: the loop body is
verified for an arbitrary sub-path.)"""

from __future__ import annotations

from contracts import common
from contracts.trusted import PathStr, Reporter
from vc import extract, sym
from vc import terms as tm
from vc import types as ty
from vc.engine import LoopSpec, contract
from vc.sym import B, I, S, cur, wrap_bool
from vc.terms import BOOL

watchmod = extract.import_module("stepup/core/watcher.py")
Watcher = watchmod.Watcher
Change = common.enums.Change


class _Wf:
    """The workflow as the watcher uses it here: is a changed path relevant, which paths lie under a directory."""

    def __init__(self, name):
        self.name = name

    def change_is_relevant(self, path, during_build=False):
        c = cur()
        r = sym.SymBool(c.fresh(c.fresh_name("relevant"), BOOL))
        c.event("relevant", path=path, result=r)
        return r

    def relevant_paths_under(self, path, during_build=False):
        return ty.SeqOf(PathStr).fresh(cur().fresh_name("paths_under"))


class _Event:
    def set(self):
        cur().event("files_changed.set")


def _self(args):
    w = ty.ObjOf(Watcher, dict(deleted=ty.SetOf(PathStr), updated=ty.SetOf(PathStr)), name="Watcher").fresh("self")
    w._fields["workflow"] = _Wf("workflow")
    w._fields["reporter"] = Reporter()
    w._fields["files_changed_events"] = [_Event()]
    return w


def _disjoint(w, p) -> tm.T:
    return tm.Not(tm.And(w.deleted.contains_t(p), w.updated.contains_t(p)))


def _post(self, change, path, old, ghost, trace):
    k = ghost.k
    d, u, d0, u0 = self.deleted, self.updated, old.self.deleted, old.self.updated
    rel = [e for e in (trace or []) if e.kind == "relevant"]
    relevant = B(rel[-1].result) if rel else tm.FALSE
    ch = I(change)
    is_del, is_upd = tm.Eq(ch, tm.mk_int(Change.DELETED.value)), tm.Eq(ch, tm.mk_int(Change.UPDATED.value))
    is_parent = tm.Eq(ch, tm.mk_int(Change.DELETED_PARENT.value))
    other = tm.Ne(S(k), S(path))
    same_k = tm.And(tm.Iff(d.contains_t(k), d0.contains_t(k)), tm.Iff(u.contains_t(k), u0.contains_t(k)))
    return wrap_bool(tm.And(
        # the last relevant event decides (an event for a path that is already in the right set changes nothing)
        tm.Implies(tm.And(is_del, tm.Or(relevant, d0.contains_t(path))), tm.And(d.contains_t(path), tm.Not(u.contains_t(path)))),
        tm.Implies(tm.And(is_upd, tm.Or(relevant, u0.contains_t(path))), tm.And(u.contains_t(path), tm.Not(d.contains_t(path)))),
        tm.Implies(tm.And(tm.Not(is_parent), tm.Or(other, tm.And(tm.Not(relevant), tm.Not(tm.And(is_del, d0.contains_t(path))),
                                                                tm.Not(tm.And(is_upd, u0.contains_t(path)))))), same_k),
        tm.Implies(_disjoint(old.self, k), _disjoint(self, k))))


def _parent_iteration(e):
    p = e.current
    w = e.self
    return wrap_bool(tm.And(w.deleted.contains_t(p), tm.Not(w.updated.contains_t(p))))


def _parent_inv(e):
    c = cur()
    p = tm.Var(c.fresh_name("p!bound"), tm.STR)
    w = e.self
    return wrap_bool(tm.ForAll([(p.s, tm.STR)], tm.Not(tm.And(tm.Select(w.deleted.has, p, BOOL), tm.Select(w.updated.has, p, BOOL)))))


def _disjoint_on_entry(self):
    """Class invariant of the watcher: no path is in both change sets (both start empty, every operation that adds to
    one removes from the other -- which is what this contract proves is preserved)."""
    c = cur()
    p = tm.Var(c.fresh_name("p!bound"), tm.STR)
    return wrap_bool(tm.ForAll([(p.s, tm.STR)], tm.Not(tm.And(tm.Select(self.deleted.has, p, BOOL), tm.Select(self.updated.has, p, BOOL)))))


@contract("stepup/core/watcher.py::Watcher.record_change", props=["C04", "C17"])
class record_change:
    entry = _disjoint_on_entry
    args = dict(self=_self, change=ty.EnumOf(Change), path=PathStr, during_build=ty.Bool)
    ghost = dict(k=PathStr)
    ensures = _post
    modifies = ["self.deleted", "self.updated"]
    loops = {0: LoopSpec(), 1: LoopSpec(),
             2: LoopSpec(invariant=_parent_inv, step_post=_parent_iteration, havoc=("self",), modifies={"self": ["deleted", "updated"]}),
             3: LoopSpec()}
