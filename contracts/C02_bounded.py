"""C02 bounded stand-in: the result of a build does not depend on scheduling.

Sentences 1 and 2 of the property quantify over job counts, step durations and completion orders.  This stand-in
explores *every* schedule of small worlds on the real Workflow and Scheduler (in-memory database): with up to N jobs in
flight, at each point either a ready step is popped (while fewer than N run) or any one of the running jobs completes.
A running step may announce an input at run time (amend); when that input is not available or not fresh the step is
deferred exactly as DirectorHandler.amend_step and the executor do (mark_completed(None, wants_defer=True)) and runs
again later.  For every world, the final graph (nodes by kind and label with attachment, creator and state, edges,
which steps hold a hash, the stored and the implied need of every step) and the success of the build must be the same
for all schedules and all N.

Worlds (plan scripts): a chain with an amended input (X announces A's output), two producers and a joint consumer, an
optional step needed through an amended input, a step that amends an output, a planning step that defines a consumer of
a producer that may already have finished (default and optional producer)."""

from __future__ import annotations

import asyncio
import os

from contracts import C05_bounded, C09_bounded
from vc import extract
from vc.report import bounded

# behaviours of step commands: label -> dict(amend_inp=[...], amend_out=[...])
WORLDS = {
    "amended-input-chain": dict(
        steps=[("A", ["s.txt"], ["o.txt"], {}), ("X", [], ["x.txt"], {}), ("Y", ["s.txt"], ["y.txt"], {})],
        run=dict(X=dict(amend_inp=["o.txt"]))),
    "join": dict(
        steps=[("A", ["s.txt"], ["o.txt"], {}), ("B", ["s.txt"], ["p.txt"], {}), ("J", ["o.txt", "p.txt"], ["j.txt"], {})],
        run={}),
    "optional-through-amend": dict(
        steps=[("A", ["s.txt"], ["o.txt"], dict(optional=True)), ("X", ["s.txt"], ["x.txt"], {})],
        run=dict(X=dict(amend_inp=["o.txt"]))),
    "amended-output": dict(
        steps=[("A", ["s.txt"], [], {}), ("C", ["a2.txt"], ["c.txt"], {})],
        run=dict(A=dict(amend_out=["a2.txt"]))),
    # a planning step S defines, when it runs, a planning step T that consumes the output of G (default need): G may
    # or may not have finished by then
    "late-consumer-with-higher-need": dict(
        steps=[("G", ["s.txt"], ["cfg.txt"], {}), ("S", [], [], dict(plan=True))],
        run=dict(S=dict(define=[("T", ["cfg.txt"], ["r.txt"], dict(plan=True))]))),
    # the same with an optional producer that only the late consumer needs
    "late-consumer-of-optional": dict(
        steps=[("G", ["s.txt"], ["cfg.txt"], dict(optional=True)), ("S", ["s.txt"], ["s2.txt"], {})],
        run=dict(S=dict(define=[("T", ["cfg.txt"], ["r.txt"], {})]))),
}


class World(C09_bounded.World):
    def __init__(self, m, world, variant=0):
        super().__init__(m)
        self.world = WORLDS[world]
        self.variant = variant  # which step gets the long duration estimate (it is dispatched first)
        self.running = []  # jobs popped and not completed: (step, phase) with phase in {"start", "amended"}

    def plan_script(self, plan):
        wf, N = self.wf, self.m["enums"].Need
        wf.declare_static_files(plan, ["s.txt"])
        for k, (label, inps, outs, opts) in enumerate(self.world["steps"]):
            wf.define_step(plan, label, inp_paths=inps, out_paths=outs, need=self.need_of(opts),
                           duration=100.0 if k == self.variant % len(self.world["steps"]) else 1.0)

    def need_of(self, opts):
        N = self.m["enums"].Need
        return N.OPTIONAL if opts.get("optional") else N.PLAN if opts.get("plan") else N.DEFAULT

    async def pop(self):
        job = await self.scheduler.pop_next_job()
        await self.check()
        if job is None:
            return False
        self.running.append(job.step)
        return True

    async def complete(self, k):
        """Carry the k-th running job to its end (run its command, amend, complete or defer)."""
        m = self.m
        E, File = m["enums"], m["file"].File
        FS, Cause, SS = E.FileState, E.HashUpdateCause, E.StepState
        step = self.running.pop(k)
        state = await self.read(step.get_state)
        stale = (step.label == "./plan.py" and self.plan_dirty) or step.label in self.dirty
        if state == SS.CHECKING and stale:
            # the executor finds the input digest changed: the step goes back to PENDING without its hash and runs later
            def reset():
                step.reset_for_rerun()
                step.delete_hash()
                step.set_state(SS.PENDING)
            await self.tx(reset)
            return
        if state == SS.CHECKING:
            def skip():
                outs = {f.label: self.fh(f.label) for f in step.products(File) if f.get_state() in (FS.PLANNED, FS.OUTDATED)}
                self.wf.update_file_hashes(outs, cause=Cause.SUCCEEDED)
                step.mark_completed(m["hash"].StepHash(b"i" * 32, None, b"o" * 32, None), False)
            await self.tx(skip)
            return
        await self.tx(step.reset_for_rerun)
        self.dirty.discard(step.label)
        ok, defer = True, False
        if step.label == "./plan.py":
            self.plan_dirty = False
            try:
                async with self.db:
                    self.plan_script(step)
            except m["exceptions"].GraphError:
                ok = False
            await self.check()
        beh = self.world["run"].get(step.label, {})
        if ok and beh:
            res = {}

            def amend():
                for label, inps, outs, opts in beh.get("define", []):
                    self.wf.define_step(step, label, inp_paths=inps, out_paths=outs, need=self.need_of(opts))
                if "amend_inp" in beh or "amend_out" in beh:
                    una, unf, to_check = self.wf.amend_step(
                        step, inp_paths=beh.get("amend_inp", []), out_paths=beh.get("amend_out", []),
                        ran_concurrently=self.scheduler.ran_concurrently)
                    res["defer"] = bool(una) or bool(unf)

            try:
                async with self.db:
                    amend()
            except m["exceptions"].GraphError:
                ok = False
            await self.check()
            defer = res.get("defer", False)

        def finish():
            outs = {}
            good = ok and not defer
            for f in step.products(File):
                st = f.get_state()
                if good and st == FS.OUTDATED and getattr(self, "stable", False):
                    continue  # reproduced bit for bit: the executor reports no changed hash for it
                if good and st in (FS.PLANNED, FS.OUTDATED):
                    outs[f.label] = self.fh(f.label)
                elif not good and st in (FS.PLANNED, FS.OUTDATED, FS.BUILT):
                    outs[f.label] = m["hash"].FileHash.unknown()
            self.wf.update_file_hashes(outs, cause=Cause.SUCCEEDED if good else Cause.FAILED)
            new_hash = m["hash"].StepHash(b"i" * 32, None, b"o" * 32, None) if good else None
            step.mark_completed(new_hash, defer)

        if hasattr(self.scheduler, "record_run_started"):
            pass
        await self.tx(finish)
        await self.op("confirm")


async def _explore(m, world, njobs, variant=0, limit=4000):
    """All schedules (depth-first over choices), replayed from scratch per schedule prefix."""
    outcomes = {}
    stack = [()]
    explored = 0
    while stack:
        choices = stack.pop()
        explored += 1
        if explored > limit:
            break
        w = World(m, world, variant)
        with m["sqlite3"].DBSession.open(":memory:") as db:
            w.db = db
            try:
                await w.boot()
                # record_run_started / stopped give ran_concurrently its clock: emulate with the scheduler's own API
                pos = 0
                steps_done = 0
                while True:
                    # options at this point
                    options = []
                    if len(w.running) < njobs:
                        options.append("pop")
                    options += [("complete", k) for k in range(len(w.running))]
                    # try pop first to see if it yields a job
                    if pos < len(choices):
                        choice = choices[pos]
                    else:
                        choice = None
                    if choice is None:
                        # a new decision point: branch over all options (first taken now, others pushed)
                        opts = []
                        if len(w.running) < njobs:
                            opts.append("pop")
                        opts += [("complete", k) for k in range(len(w.running))]
                        if not opts:
                            break
                        for alt in opts[1:]:
                            stack.append(choices[:pos] + (alt,))
                        choice = opts[0]
                        choices = choices[:pos] + (choice,)
                    pos += 1
                    if choice == "pop":
                        got = await w.pop()
                        if not got:
                            if not w.running:
                                break  # nothing runs and nothing can be popped: the build phase is over
                            # popping is not possible now: this branch equals "complete something"; prune it
                            if pos == len(choices):
                                # replace the choice by completions
                                for k in range(len(w.running)):
                                    stack.append(choices[:pos - 1] + (("complete", k),))
                                choices = None
                                break
                    else:
                        if choice[1] >= len(w.running):
                            choices = None
                            break
                        await w.complete(choice[1])
                    steps_done += 1
                    if steps_done > 60:
                        return dict(world=world, njobs=njobs, error="schedule does not terminate", schedule=list(map(str, choices)))
            except C09_bounded.Internal as e:
                return dict(world=world, njobs=njobs, error=str(e), schedule=list(map(str, choices or ())))
            except (m["exceptions"].ConsistencyError, AssertionError) as e:
                return dict(world=world, njobs=njobs, error=f"{type(e).__name__}: {str(e)[:200]}", schedule=list(map(str, choices or ())))
            if choices is None:
                continue
            async with db:
                g = C05_bounded.graph(db, m)
                needs = sorted(db.execute("SELECT node.label, step.need, step._implied_need FROM step JOIN node ON node.i = step.node "
                                          "WHERE NOT node.detached").fetchall())
            key = repr((sorted(g["nodes"].items()), sorted(g["edges"]), sorted(g["hashes"]), needs))
            outcomes.setdefault(key, list(map(str, choices)))
    return outcomes


def _one(args):
    world, njobs, variant = args
    m = C09_bounded._mods()
    os.environ["STEPUP_DEBUG"] = "1"
    if world.startswith("2:"):
        # a two-phase world of contracts/C10_bounded.py (second build after an edit): same exploration, final graphs collected
        from contracts import C10_bounded

        outcomes = {}
        res = asyncio.run(C10_bounded._explore(m, world[2:], njobs, variant, limit=600, outcomes=outcomes))
        if "error" in res:
            return world, (njobs, variant), dict(world=world, njobs=njobs, error=res["error"], schedule=res.get("schedule", []))
        return world, (njobs, variant), outcomes
    return world, (njobs, variant), asyncio.run(_explore(m, world, njobs, variant))


@bounded("all_schedules", props=["C02"],
         bound="exhaustive: every schedule (which ready step is popped when, which running job completes next) of 6 small "
               "worlds with 1, 2 and 3 jobs in flight and every choice of the step with the longest duration estimate (which the "
               "scheduler dispatches first), including steps that announce inputs and outputs at run time and are "
               "deferred; steps that define further steps when they run; the final graph (nodes, creators, states, edges, hashes held, stored and implied need of every step) must be the same for all schedules and job counts of a world")
def all_schedules(tier, seed):
    import concurrent.futures
    import multiprocessing

    jobs = [(w, n, v) for w in WORLDS for n in (1, 2, 3) for v in range(len(WORLDS[w]["steps"]))]
    # second builds after an edit (a producer reruns and reproduces / changes its output while a consumer announces it)
    jobs += [("2:" + w, n, 0) for w in ("unchanged-output-announced-late", "changed-output-announced-late") for n in (1, 2)]
    failures, total = [], 0
    per_world = {}
    with concurrent.futures.ProcessPoolExecutor(max_workers=12, mp_context=multiprocessing.get_context("fork")) as ex:
        for world, njobs, res in ex.map(_one, jobs):
            if "error" in res:
                failures.append(res)
                continue
            total += 1
            per_world.setdefault(world, {})
            for key, sched in res.items():
                per_world[world].setdefault(key, (njobs, sched))
    for world, outs in per_world.items():
        if len(outs) > 1:
            items = list(outs.items())
            failures.append(dict(world=world, error=f"{len(outs)} different final graphs",
                                 schedules=[dict(njobs=v[0], schedule=v[1]) for _, v in items[:3]],
                                 graphs=[k[:600] for k, _ in items[:2]]))
    return dict(evaluations=total, failures=failures)
