"""Step.reset_for_rerun: what a step loses before it runs again (C03, C09, C08).

A step that runs again must not keep anything its previous run added: the inputs and outputs it announced at run
time, the steps, static files and static trees it created (they stay in the graph, detached, until the rerun declares
them again), and its BUILT outputs are no longer final (OUTDATED).  The contract states, for every row the real
queries select (all rows: loop bodies are verified for an arbitrary iteration):

  * every announced output (dynamic edge step -> node) loses that edge and is detached;
  * every step, static file and static tree created by the step is detached;
  * every BUILT output of the step goes through Workflow.mark_file_outdated;
  * the statements select what they are supposed to select (compared by sqlfront.match_key: insensitive to layout,
    keyword case, comments, INNER / AS and column qualifiers);
  * announced inputs: their dynamic_dep rows and their edges into the step are deleted.

The objects the loops build (File / Step / StaticTree / node_from_row) are stand-ins that record detach(),
del_sources() and mark_file_outdated() as events with the row they were built from."""

from __future__ import annotations

from contracts import common
from contracts.common import FileRole, FileState, Step, fresh_node

FILE_STATES_BY_ROLE = common.enums.FILE_STATES_BY_ROLE
from contracts.trusted import DbStub
from vc import sqlfront, sym
from vc import terms as tm
from vc import types as ty
from vc.engine import LoopSpec, contract
from vc.sym import I, S, cur, wrap_bool

STATIC_STATES = ", ".join(str(s.value) for s in FILE_STATES_BY_ROLE[FileRole.STATIC])

EXPECTED = dict(
    announced_inputs="SELECT dependency.i, node.i, node.label, node.kind FROM dependency JOIN node ON node.i = source "
                     "JOIN dynamic_dep ON dynamic_dep.i = dependency.i WHERE sink = ?",
    announced_outputs="SELECT dependency.i, sink, label, kind FROM dependency JOIN dynamic_dep ON dynamic_dep.i = dependency.i "
                      "JOIN node ON sink = node.i WHERE source = ?",
    created_steps="SELECT i, label FROM node WHERE creator = ? AND kind = 'step'",
    static_files=f"SELECT i, label FROM node JOIN file ON node.i = file.node WHERE creator = ? AND state IN ({STATIC_STATES})",
    static_trees="SELECT i, label FROM node WHERE creator = ? AND kind = 'st'",
    built_outputs="SELECT i, label FROM node JOIN file ON node.i = file.node WHERE creator = ? AND state = ?",
)


class _Obj:
    """A node object built inside the function: remembers the row it came from and records what is done to it."""

    def __init__(self, kind, i, label):
        self.kind, self.i, self.label = kind, i, label

    def detach(self):
        cur().event("rr.detach", node=self)

    def del_sources(self, sources):
        cur().event("rr.del_sources", node=self, sources=list(sources) if isinstance(sources, (list, tuple)) else sources)


class _Graph:
    def __init__(self, db):
        self.db = db

    def node_from_row(self, i, kind, label):
        return _Obj(kind, i, label)

    def mark_file_outdated(self, file):
        cur().event("rr.mark_file_outdated", file=file)


def _self(args):
    four = ty.TupleOf(ty.Int, ty.Int, ty.Str, ty.Str)
    two = ty.TupleOf(ty.Int, ty.Str)
    db = DbStub("db", [("SELECT dependency.i, node.i, node.label, node.kind FROM dependency", four),
                       ("SELECT dependency.i, sink, label, kind FROM dependency", four),
                       ("SELECT i, label FROM node", two)])
    st = fresh_node(Step, None, "self")
    st._fields["graph"] = _Graph(db)
    return st


def _mk(kind):
    return lambda graph, i, label: _Obj(kind, i, label)


def _same(a, b) -> tm.T:
    return tm.Eq(I(a), I(b))


def _iter_calls(e, kind):
    return [ev for ev in e.iter_trace if ev.kind == kind]


def _outputs_iteration(e):
    """An announced output: its edge from this step is deleted, then it is detached (the row's node, once each)."""
    _, i, label, kind = e.current
    dels, dets = _iter_calls(e, "rr.del_sources"), _iter_calls(e, "rr.detach")
    if len(dels) != 1 or len(dets) != 1 or dels[0].index > dets[0].index:
        return False
    srcs = dels[0].sources
    ok_src = isinstance(srcs, list) and len(srcs) == 1 and srcs[0] is e.self
    return wrap_bool(tm.And(tm.mk_bool(bool(ok_src) and dels[0].node is dets[0].node), _same(dets[0].node.i, i),
                            tm.Eq(S(dets[0].node.label), S(label)), tm.Eq(S(dets[0].node.kind), S(kind))))


def _detach_iteration(kind):
    def post(e):
        i, label = e.current
        dets = _iter_calls(e, "rr.detach")
        if len(dets) != 1 or dets[0].node.kind != kind:
            return False
        others = [ev for ev in e.iter_trace if ev.kind.startswith("rr.") and ev is not dets[0]]
        return wrap_bool(tm.And(tm.mk_bool(not others), _same(dets[0].node.i, i), tm.Eq(S(dets[0].node.label), S(label))))

    return post


def _outdated_iteration(e):
    i, label = e.current
    marks = _iter_calls(e, "rr.mark_file_outdated")
    if len(marks) != 1 or marks[0].file.kind != "file":
        return False
    others = [ev for ev in e.iter_trace if ev.kind.startswith("rr.") and ev is not marks[0]]
    return wrap_bool(tm.And(tm.mk_bool(not others), _same(marks[0].file.i, i), tm.Eq(S(marks[0].file.label), S(label))))


def _key(sql):
    return sqlfront.match_key(sql)


def _finish(c, outcome, args, old):
    if outcome[0] != "return":
        return
    me = args["self"]
    sel = [e for e in c.trace if e.kind == "sql" and e.norm.upper().startswith("SELECT")]
    keys = [_key(e.sql) for e in sel]
    want = [_key(EXPECTED[k]) for k in ("announced_inputs", "announced_outputs", "static_files", "static_trees", "built_outputs")]
    c.prove("the_five_selections_in_order", tm.mk_bool(keys == want), kind="sql",
            detail="selections: " + " | ".join(keys))
    created = [e for e in c.trace if e.kind == "detach_created_steps"]
    c.prove("created_steps_are_detached", tm.mk_bool(len(created) == 1), kind="trace")
    if keys == want:
        for e in sel[:4]:
            c.prove("selected_for_this_step", tm.mk_bool(len(e.args) == 1) if not isinstance(e.args, tuple) else
                    tm.And(tm.mk_bool(len(e.args) == 1), _same(e.args[0], me.i)), kind="sql")
        e = sel[4]
        c.prove("built_outputs_of_this_step", tm.And(tm.mk_bool(len(e.args) == 2), _same(e.args[0], me.i),
                                                     tm.Eq(I(e.args[1]), tm.mk_int(FileState.BUILT.value))), kind="sql")
    many = [e for e in c.trace if e.kind == "sql.many"]
    mk = [_key(e.sql) for e in many]
    c.prove("announced_edges_are_deleted", tm.mk_bool(
        mk.count(_key("DELETE FROM dynamic_dep WHERE i = ?")) == 2
        and mk.count(_key("DELETE FROM dependency WHERE source = ? AND sink = ?")) == 1), kind="sql", detail=str(mk))
    plain = [_key(e.sql) for e in c.trace if e.kind == "sql" and not e.norm.upper().startswith("SELECT")]
    c.prove("announced_variables_and_globs_are_deleted", tm.mk_bool(
        _key("DELETE FROM env_var WHERE node = ? AND dynamic = 1") in plain and _key("DELETE FROM nglob WHERE node = ?") in plain),
        kind="sql", detail=str(plain))


@contract("stepup/core/step.py::Step.reset_for_rerun", props=["C03", "C09", "C08", "C05", "C11"])
class reset_for_rerun:
    """See the module text."""

    args = dict(self=_self)
    env = dict(File=_mk("file"), StaticTree=_mk("st"), Step=_mk("step"))
    finish = _finish
    modifies = []
    loops = {0: LoopSpec(step_post=_outputs_iteration),
             1: LoopSpec(step_post=_detach_iteration("file")),
             2: LoopSpec(step_post=_detach_iteration("st")),
             3: LoopSpec(step_post=_outdated_iteration)}


# Step._detach_created_steps: callers see the event (assumed contract in C10_dispatch); here the function itself is verified

def _dcs_finish(c, outcome, args, old):
    if outcome[0] != "return":
        return
    sel = [e for e in c.trace if e.kind == "sql"]
    c.prove("selects_the_steps_created_by_this_step", tm.And(
        tm.mk_bool(len(sel) == 1 and _key(sel[0].sql) == _key(EXPECTED["created_steps"]) and len(sel[0].args) == 1),
        _same(sel[0].args[0], args["self"].i) if sel and len(sel[0].args) == 1 else tm.FALSE), kind="sql")


from contracts import C10_dispatch  # noqa: E402

_dcs = C10_dispatch.dcs_assumed
_dcs.verify = True
_dcs.props = ["C03", "C09", "C10"]
_dcs.args = dict(self=_self)
_dcs.env = dict(Step=_mk("step"))
_dcs.finish = _dcs_finish
_dcs.loops = {0: LoopSpec(step_post=_detach_iteration("step"))}
