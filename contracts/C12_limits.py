"""C12: job limit and hold counters (Python side)."""

from __future__ import annotations

from contracts import common, trusted
from contracts.trusted import DbStub, Reporter
from vc import engine, extract, sqlfront, sym
from vc import terms as tm
from vc import types as ty
from vc.engine import LoopSpec, contract
from vc.report import lemma, structural
from vc.sym import B, I, S, cur, wrap_bool, wrap_int
from vc.terms import BOOL, INT, STR

buildermod = extract.import_module("stepup/core/builder.py")
Builder = buildermod.Builder
Step = common.Step


class TaskTable:
    """`running_tasks` / `done_tasks`: only the number of entries matters for the limits."""

    def __init__(self, name):
        c = cur()
        self.name = name
        self.n = c.fresh(name + ".size", INT)
        c.pc.append(tm.Ge(self.n, tm.mk_int(0)))

    def __symlen__(self):
        return wrap_int(self.n)

    def __havoc__(self, label):
        c = cur()
        self.n = c.fresh(c.fresh_name(label + ".size"), INT)
        c.pc.append(tm.Ge(self.n, tm.mk_int(0)))

    def __snapshot__(self):
        t = TaskTable.__new__(TaskTable)
        t.name, t.n = self.name, self.n
        return t


class _HashQueue:
    def pop_nowait(self):
        c = cur()
        if c.fork(c.fresh(c.fresh_name("hash_queue.empty"), BOOL)):
            return None
        return "hash-job"


class _SchedStub:
    def __init__(self, name):
        self.run_counter = 0

    def pop_next_job(self):
        c = cur()
        none = c.fresh(c.fresh_name("pop_next_job.none"), BOOL)
        r = None if c.fork(none) else "job"
        c.event("pop_next_job", result=r)
        return r


class _Executor:
    write_joblog = False

    def run_hash_job(self, job):
        return ("coro", "run_hash_job", job)


class _JobStub:
    name = "job"

    def coro(self, executor):
        return ("coro", "job", executor)


class _Wake:
    def wait(self):
        cur().event("wake.wait")

    def clear(self):
        pass

    def set(self):
        pass


def _builder(args):
    b = ty.ObjOf(Builder, dict(
        njob=ty.Int, running_tasks=ty.Make(TaskTable), done_tasks=ty.Make(TaskTable),
        hash_queue=ty.Make(lambda n: _HashQueue()), scheduler=ty.Make(_SchedStub), reporter=ty.Make(Reporter),
        wake_job_loop=ty.Make(lambda n: _Wake()), executor=ty.Make(lambda n: _Executor()),
        live_progress=ty.Bool), name="Builder").fresh("self")
    cur().assume(b.njob >= 1)  # ServeConfig validates --jobs with positive_int
    return b


def _await_interference(args):
    """Rely: while job_loop is suspended at an await, other tasks only remove entries from running_tasks
    (Builder._task_done) and add them to done_tasks.  Justified by the writer scan below."""
    c = cur()
    b = args["self"]
    old = b.running_tasks.n
    new = c.fresh(c.fresh_name("running_tasks.after_await"), INT)
    c.pc.append(tm.And(tm.Ge(new, tm.mk_int(0)), tm.Le(new, old)))
    b.running_tasks.n = new
    d = c.fresh(c.fresh_name("done_tasks.after_await"), INT)
    c.pc.append(tm.Ge(d, tm.mk_int(0)))
    b.done_tasks.n = d


def _start_guard(e, self):
    """A task is started only while fewer than njob tasks are running (at the moment it is started)."""
    if e.callee not in ("Builder.start_task", "Builder.start_hash_task"):
        return True
    return wrap_bool(tm.Lt(e.old.self.running_tasks.n, I(self.njob)))


def _started(self):
    """start_task / start_hash_task add exactly one entry to running_tasks."""
    self.running_tasks.n = tm.Add(self.running_tasks.n, tm.mk_int(1))
    return True


@contract("stepup/core/builder.py::Builder.start_task", props=["C12"])
class start_task:
    args = dict(self=_builder, job=ty.Make(lambda n: _JobStub()))
    env = dict(asyncio=type("A", (), dict(create_task=staticmethod(lambda coro, name=None: _TaskStub())))())
    ensures = lambda self, old: True
    modifies = ["self.running_tasks"]

    @staticmethod
    def finish(c, outcome, args, old):
        writes = [w for w in c.writes if w[0] is args["self"].running_tasks]
        c.prove("adds_exactly_one_task", len(writes) == 1, kind="post")


class _TaskStub:
    def add_done_callback(self, cb):
        cur().event("add_done_callback", cb=cb)


def _tt_setitem(self, k, v):
    self.n = tm.Add(self.n, tm.mk_int(1))
    cur().writes.append((self, "[]"))


def _tt_pop(self, k, *d):
    c = cur()
    c.prove(c.fresh_name("pop_of_present_task"), tm.Gt(self.n, tm.mk_int(0)), kind="pre")
    self.n = tm.Sub(self.n, tm.mk_int(1))
    c.writes.append((self, "[]"))
    return "job"


TaskTable.__setitem__ = _tt_setitem
TaskTable.pop = _tt_pop


@contract("stepup/core/builder.py::Builder.start_hash_task", props=["C12"])
class start_hash_task:
    args = dict(self=_builder, hash_job=ty.Make(lambda n: type("HJ", (), dict(path="p"))()))
    env = dict(asyncio=type("A", (), dict(create_task=staticmethod(lambda coro, name=None: _TaskStub())))())
    modifies = ["self.running_tasks"]

    @staticmethod
    def finish(c, outcome, args, old):
        writes = [w for w in c.writes if w[0] is args["self"].running_tasks]
        c.prove("adds_exactly_one_task", len(writes) == 1, kind="post")


# callers see start_task / start_hash_task as "size + 1"
for _c in (start_task, start_hash_task):
    _c.ensures = lambda self, old: wrap_bool(tm.Eq(self.running_tasks.n, tm.Add(old.self.running_tasks.n, tm.mk_int(1))))


@contract("stepup/core/builder.py::Builder.handle_done_tasks", props=[], verify=False,
          note="retires done tasks (may raise RuntimeError for a failed task); does not start tasks")
class handle_done_tasks_assumed:
    may_raise = {RuntimeError: None}
    modifies = ["self.done_tasks"]


@contract("stepup/core/builder.py::Builder._report_counts", props=[], verify=False, note="reporting only")
class report_counts_assumed2:
    modifies = []


def _job_loop_finish(c, outcome, args, old):
    """Phase end: job_loop returns only when, in the same iteration and with no await afterwards, the scheduler had
    no job to offer and both task tables are empty."""
    if outcome[0] != "return":
        return
    b = args["self"]
    c.prove("returns_with_no_running_task", tm.Eq(b.running_tasks.n, tm.mk_int(0)), kind="post")
    c.prove("returns_with_no_done_task", tm.Eq(b.done_tasks.n, tm.mk_int(0)), kind="post")
    lp = c.data.get("loops", {})
    pops = [e for e in c.trace if e.kind == "pop_next_job"]
    c.prove("scheduler_was_asked_last", bool(pops) and pops[-1].result is None, kind="post")
    if pops:
        later_awaits = [e for e in c.trace if e.kind == "await" and e.index > pops[-1].index + 1]
        c.prove("no_await_after_the_empty_answer", len(later_awaits) == 0, kind="post",
                detail=f"{len(later_awaits)} awaits after the last pop_next_job")


@contract("stepup/core/builder.py::Builder.job_loop", props=["C12", "C10"])
class job_loop:
    args = dict(self=_builder)
    env = dict(init_joblog=lambda n: None)
    await_hook = _await_interference
    events = {"call": _start_guard}
    may_raise = {RuntimeError: None}
    finish = _job_loop_finish
    modifies = ["self.running_tasks", "self.done_tasks"]
    loops = {0: LoopSpec(havoc=("self",), modifies={"self": ["running_tasks", "done_tasks"]})}


@structural("C12/scan/running_tasks_writers", props=["C12"],
            note="justifies the rely of job_loop: running_tasks gains entries only in start_task / start_hash_task, and "
                 "loses them only in _task_done; nothing else writes it")
def running_tasks_writers():
    import ast
    import glob
    import os

    out = []
    found = {}
    for path in sorted(glob.glob(os.path.join(extract.REPO, "stepup", "core", "*.py"))):
        rel = os.path.relpath(path, extract.REPO)
        src, tree = extract.read_module(rel)
        for fn in ast.walk(tree):
            if not isinstance(fn, (ast.FunctionDef, ast.AsyncFunctionDef)):
                continue
            for n in ast.walk(fn):
                tgt = None
                if isinstance(n, ast.Subscript) and isinstance(n.ctx, (ast.Store, ast.Del)):
                    tgt = n.value
                elif isinstance(n, ast.Call) and isinstance(n.func, ast.Attribute) and n.func.attr in (
                        "pop", "popitem", "clear", "update", "setdefault", "__setitem__", "__delitem__"):
                    tgt = n.func.value
                elif isinstance(n, ast.Assign):
                    for t in n.targets:
                        if isinstance(t, ast.Attribute) and t.attr == "running_tasks":
                            found.setdefault((rel, fn.name), []).append("assign")
                if isinstance(tgt, ast.Attribute) and tgt.attr == "running_tasks":
                    kind = "store" if isinstance(n, ast.Subscript) else n.func.attr
                    found.setdefault((rel, fn.name), []).append(kind)
    allowed = {("stepup/core/builder.py", "start_task"): ["store"], ("stepup/core/builder.py", "start_hash_task"): ["store"],
               ("stepup/core/builder.py", "_task_done"): ["pop"]}
    for k, v in sorted(found.items()):
        out.append((f"scan/running_tasks_writers/{k[0]}:{k[1]}", allowed.get(k) == v, f"{v}"))
    out.append(("scan/running_tasks_writers/all_three_present", set(allowed) <= set(found), str(sorted(found))))
    return out
