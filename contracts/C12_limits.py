"""C12: job limit and hold counters (Python side)."""

from __future__ import annotations

from contracts import common, trusted
import contracts.C10_dispatch  # noqa: F401  (Step.set_state stand-in)
import contracts.C03_inputs  # noqa: F401  (Scheduler._derive_job contract)
from contracts.trusted import DbStub, Reporter
from vc import engine, extract, sqlfront, sym
from vc import terms as tm
from vc import types as ty
from vc.engine import LoopSpec, contract
from vc.report import lemma, structural
from vc.sym import B, I, S, cur, wrap_bool, wrap_int
from vc.terms import BOOL, INT, STR

buildermod = extract.import_module("stepup/core/builder.py")
Builder = buildermod.Builder
Step = common.Step


class TaskTable:
    """`running_tasks` / `done_tasks`: only the number of entries matters for the limits."""

    def __init__(self, name):
        c = cur()
        self.name = name
        self.n = c.fresh(name + ".size", INT)
        c.pc.append(tm.Ge(self.n, tm.mk_int(0)))

    def __symlen__(self):
        return wrap_int(self.n)

    def __havoc__(self, label):
        c = cur()
        self.n = c.fresh(c.fresh_name(label + ".size"), INT)
        c.pc.append(tm.Ge(self.n, tm.mk_int(0)))

    def __snapshot__(self):
        t = TaskTable.__new__(TaskTable)
        t.name, t.n = self.name, self.n
        return t


class _HashQueue:
    def pop_nowait(self):
        c = cur()
        if c.fork(c.fresh(c.fresh_name("hash_queue.empty"), BOOL)):
            return None
        return "hash-job"


class _SchedStub:
    def __init__(self, name):
        self.run_counter = 0

    def pop_next_job(self):
        c = cur()
        none = c.fresh(c.fresh_name("pop_next_job.none"), BOOL)
        r = None if c.fork(none) else "job"
        c.event("pop_next_job", result=r)
        return r


class _Executor:
    write_joblog = False

    def run_hash_job(self, job):
        return ("coro", "run_hash_job", job)


class _JobStub:
    name = "job"

    def coro(self, executor):
        return ("coro", "job", executor)


class _Wake:
    def wait(self):
        cur().event("wake.wait")

    def clear(self):
        pass

    def set(self):
        pass


def _builder(args):
    b = ty.ObjOf(Builder, dict(
        njob=ty.Int, running_tasks=ty.Make(TaskTable), done_tasks=ty.Make(TaskTable),
        hash_queue=ty.Make(lambda n: _HashQueue()), scheduler=ty.Make(_SchedStub), reporter=ty.Make(Reporter),
        wake_job_loop=ty.Make(lambda n: _Wake()), executor=ty.Make(lambda n: _Executor()),
        live_progress=ty.Bool), name="Builder").fresh("self")
    cur().assume(b.njob >= 1)  # ServeConfig validates --jobs with positive_int
    return b


def _await_interference(args):
    """Rely: while job_loop is suspended at an await, other tasks only remove entries from running_tasks
    (Builder._task_done) and add them to done_tasks.  Justified by the writer scan below."""
    c = cur()
    b = args["self"]
    old = b.running_tasks.n
    new = c.fresh(c.fresh_name("running_tasks.after_await"), INT)
    c.pc.append(tm.And(tm.Ge(new, tm.mk_int(0)), tm.Le(new, old)))
    b.running_tasks.n = new
    d = c.fresh(c.fresh_name("done_tasks.after_await"), INT)
    c.pc.append(tm.Ge(d, tm.mk_int(0)))
    b.done_tasks.n = d


def _start_guard(e, self):
    """A task is started only while fewer than njob tasks are running (at the moment it is started)."""
    if e.callee not in ("Builder.start_task", "Builder.start_hash_task"):
        return True
    return wrap_bool(tm.Lt(e.old.self.running_tasks.n, I(self.njob)))


def _started(self):
    """start_task / start_hash_task add exactly one entry to running_tasks."""
    self.running_tasks.n = tm.Add(self.running_tasks.n, tm.mk_int(1))
    return True


@contract("stepup/core/builder.py::Builder.start_task", props=["C12"])
class start_task:
    args = dict(self=_builder, job=ty.Make(lambda n: _JobStub()))
    env = dict(asyncio=type("A", (), dict(create_task=staticmethod(lambda coro, name=None: _TaskStub())))())
    ensures = lambda self, old: True
    modifies = ["self.running_tasks"]

    @staticmethod
    def finish(c, outcome, args, old):
        writes = [w for w in c.writes if w[0] is args["self"].running_tasks]
        c.prove("adds_exactly_one_task", len(writes) == 1, kind="post")


class _TaskStub:
    def add_done_callback(self, cb):
        cur().event("add_done_callback", cb=cb)


def _tt_setitem(self, k, v):
    self.n = tm.Add(self.n, tm.mk_int(1))
    cur().writes.append((self, "[]"))


def _tt_pop(self, k, *d):
    c = cur()
    c.prove(c.fresh_name("pop_of_present_task"), tm.Gt(self.n, tm.mk_int(0)), kind="pre")
    self.n = tm.Sub(self.n, tm.mk_int(1))
    c.writes.append((self, "[]"))
    return "job"


TaskTable.__setitem__ = _tt_setitem
TaskTable.pop = _tt_pop


@contract("stepup/core/builder.py::Builder.start_hash_task", props=["C12"])
class start_hash_task:
    args = dict(self=_builder, hash_job=ty.Make(lambda n: type("HJ", (), dict(path="p"))()))
    env = dict(asyncio=type("A", (), dict(create_task=staticmethod(lambda coro, name=None: _TaskStub())))())
    modifies = ["self.running_tasks"]

    @staticmethod
    def finish(c, outcome, args, old):
        writes = [w for w in c.writes if w[0] is args["self"].running_tasks]
        c.prove("adds_exactly_one_task", len(writes) == 1, kind="post")


# callers see start_task / start_hash_task as "size + 1"
for _c in (start_task, start_hash_task):
    _c.ensures = lambda self, old: wrap_bool(tm.Eq(self.running_tasks.n, tm.Add(old.self.running_tasks.n, tm.mk_int(1))))


@contract("stepup/core/builder.py::Builder.handle_done_tasks", props=[], verify=False,
          note="retires done tasks (may raise RuntimeError for a failed task); does not start tasks")
class handle_done_tasks_assumed:
    may_raise = {RuntimeError: None}
    modifies = ["self.done_tasks"]


def _job_loop_finish(c, outcome, args, old):
    """Phase end: job_loop returns only when, in the same iteration and with no await afterwards, the scheduler had
    no job to offer and both task tables are empty."""
    if outcome[0] != "return":
        return
    b = args["self"]
    c.prove("returns_with_no_running_task", tm.Eq(b.running_tasks.n, tm.mk_int(0)), kind="post")
    c.prove("returns_with_no_done_task", tm.Eq(b.done_tasks.n, tm.mk_int(0)), kind="post")
    lp = c.data.get("loops", {})
    pops = [e for e in c.trace if e.kind == "pop_next_job"]
    c.prove("scheduler_was_asked_last", bool(pops) and pops[-1].result is None, kind="post")
    if pops:
        later_awaits = [e for e in c.trace if e.kind == "await" and e.index > pops[-1].index + 1]
        c.prove("no_await_after_the_empty_answer", len(later_awaits) == 0, kind="post",
                detail=f"{len(later_awaits)} awaits after the last pop_next_job")


@contract("stepup/core/builder.py::Builder.job_loop", props=["C12", "C10"])
class job_loop:
    args = dict(self=_builder)
    env = dict(init_joblog=lambda n: None)
    await_hook = _await_interference
    events = {"call": _start_guard}
    may_raise = {RuntimeError: None}
    finish = _job_loop_finish
    modifies = ["self.running_tasks", "self.done_tasks"]
    loops = {0: LoopSpec(havoc=("self",), modifies={"self": ["running_tasks", "done_tasks"]})}


@structural("C12/scan/running_tasks_writers", props=["C12"],
            note="justifies the rely of job_loop: running_tasks gains entries only in start_task / start_hash_task, and "
                 "loses them only in _task_done; nothing else writes it")
def running_tasks_writers():
    import ast
    import glob
    import os

    out = []
    found = {}
    for path in sorted(glob.glob(os.path.join(extract.REPO, "stepup", "core", "*.py"))):
        rel = os.path.relpath(path, extract.REPO)
        src, tree = extract.read_module(rel)
        for fn in ast.walk(tree):
            if not isinstance(fn, (ast.FunctionDef, ast.AsyncFunctionDef)):
                continue
            for n in ast.walk(fn):
                tgt = None
                if isinstance(n, ast.Subscript) and isinstance(n.ctx, (ast.Store, ast.Del)):
                    tgt = n.value
                elif isinstance(n, ast.Call) and isinstance(n.func, ast.Attribute) and n.func.attr in (
                        "pop", "popitem", "clear", "update", "setdefault", "__setitem__", "__delitem__"):
                    tgt = n.func.value
                elif isinstance(n, ast.Assign):
                    for t in n.targets:
                        if isinstance(t, ast.Attribute) and t.attr == "running_tasks":
                            found.setdefault((rel, fn.name), []).append("assign")
                if isinstance(tgt, ast.Attribute) and tgt.attr == "running_tasks":
                    kind = "store" if isinstance(n, ast.Subscript) else n.func.attr
                    found.setdefault((rel, fn.name), []).append(kind)
    allowed = {("stepup/core/builder.py", "start_task"): ["store"], ("stepup/core/builder.py", "start_hash_task"): ["store"],
               ("stepup/core/builder.py", "_task_done"): ["pop"]}
    for k, v in sorted(found.items()):
        out.append((f"scan/running_tasks_writers/{k[0]}:{k[1]}", allowed.get(k) == v, f"{v}"))
    out.append(("scan/running_tasks_writers/all_three_present", set(allowed) <= set(found), str(sorted(found))))
    return out


# ---------------------------------------------------------------- hold / release


def _step_node(args):
    wf = common.workflow_spec(queries=[
        ("UPDATE step SET _holding = _holding + 1", ty.TupleOf(ty.Int), _hold_fact, True),
        ("UPDATE step SET _holding = _holding - 1", ty.TupleOf(ty.Int), _release_fact),
    ]).fresh("graph")
    cur().data["args_db"] = wf._fields["db"]
    return common.fresh_node(Step, wf, "step")


def _holding_before():
    return cur().decls.const("ghost.holding_before", INT)


def _hold_fact(row, args):
    h = _holding_before()
    cur().pc.append(tm.Ge(h, tm.mk_int(0)))
    return wrap_bool(tm.Eq(I(row[0]), tm.Add(h, tm.mk_int(1))))


def _release_fact(row, args):
    h = _holding_before()
    cur().pc.append(tm.Ge(h, tm.mk_int(0)))
    # the UPDATE matched (row returned) only if _holding > 0
    return wrap_bool(tm.And(tm.Gt(h, tm.mk_int(0)), tm.Eq(I(row[0]), tm.Sub(h, tm.mk_int(1)))))


@contract("stepup/core/step.py::Step._flag_checks_with_products", props=[], verify=False,
          note="flags this step and its recursive products for a recomputation of _safe (database write)")
class flag_checks_assumed:
    modifies = []

    @staticmethod
    def ensures(self):
        cur().event("flag_checks", node=self)
        return True


def _hold_finish(c, outcome, args, old):
    """The safety flags of the descendants are recomputed exactly on the 0 -> 1 (hold) and 1 -> 0 (release)
    transitions, which are the only ones that change whether the creator holds."""
    if outcome[0] != "return":
        return
    flagged = any(e.kind == "flag_checks" for e in c.trace)
    h = _holding_before()
    upd = [e for e in c.trace if e.kind == "sql"]
    is_hold = bool(upd) and "+ 1" in upd[0].norm
    edge = tm.Eq(h, tm.mk_int(0)) if is_hold else tm.Eq(h, tm.mk_int(1))
    c.prove("flags_exactly_on_the_edge", tm.Iff(tm.mk_bool(flagged), edge), kind="post")


@contract("stepup/core/step.py::Step.hold", props=["C12"])
class step_hold:
    args = dict(self=_step_node)
    events = {"sql": lambda e: sqlfront.normalize(e.sql) == sqlfront.normalize(
        "UPDATE step SET _holding = _holding + 1 WHERE node = ? RETURNING _holding")}
    finish = _hold_finish
    modifies = []


@contract("stepup/core/step.py::Step.release", props=["C12"])
class step_release:
    args = dict(self=_step_node)
    may_raise = {common.GraphError: None}
    events = {"sql": lambda e: sqlfront.normalize(e.sql) == sqlfront.normalize(
        "UPDATE step SET _holding = _holding - 1 WHERE node = ? AND _holding > 0 RETURNING _holding")}
    finish = _hold_finish
    modifies = []


@structural("C12/sql/step_reset_holding", props=["C12"],
            note="a step that leaves RUNNING can hold nothing: the trigger resets _holding on every state change to a "
                 "state other than RUNNING")
def reset_holding_trigger():
    schema = extract.module_constant("stepup/core/step.py", "STEP_SCHEMA")
    import re

    m = re.search(r"CREATE TRIGGER IF NOT EXISTS step_reset_holding AFTER UPDATE OF state ON step\s+WHEN(.*?)BEGIN(.*?)END;",
                  schema, re.S)
    if not m:
        return [("sql/step_reset_holding/found", False, "trigger not found")]
    when = sqlfront.normalize(m.group(1))
    body = sqlfront.normalize(m.group(2))
    running = common.StepState.RUNNING.value
    return [
        ("sql/step_reset_holding/when", when == f"NEW . state != {running} AND NEW . _holding != 0", when),
        ("sql/step_reset_holding/body", body == "UPDATE step SET _holding = 0 WHERE node = NEW . node ;", body),
    ]


# ---------------------------------------------------------------- pop_next_job / _get_next_step

schedmod = extract.import_module("stepup/core/scheduler.py")
Scheduler = schedmod.Scheduler
StepState = common.StepState


def _next_row_fact(row, args):
    return wrap_bool(tm.Or(tm.Eq(I(row[2]), tm.mk_int(0)), tm.Eq(I(row[2]), tm.mk_int(1))))


def _scheduler(args):
    wf = ty.ObjOf(common.Workflow, dict(need_threshold=ty.EnumOf(common.Need)), name="Workflow").fresh("workflow")
    db = DbStub("db", [("SELECT node.i, node.label, step._has_hash", ty.TupleOf(ty.Int, ty.Str, ty.Int), _next_row_fact)])
    s = ty.ObjOf(Scheduler, dict(draining=ty.Bool, job_counter=ty.Int, jobs=ty.MapOf(ty.Int, ty.Ignored())),
                 name="Scheduler").fresh("self")
    s._fields["workflow"] = wf
    s._fields["db"] = db
    wf._fields["db"] = db
    return s


def _gns_post(self, result):
    """The selected step is moved to RUNNING exactly when it has no stored hash (CHECKING otherwise), and the row
    comes from the dispatch query bound to the workflow's need threshold."""
    r = sym.resolve(result) if isinstance(result, sym.SymOpt) else result
    if r is None:
        return True
    step, state = r
    c = cur()
    rows = [e for e in c.trace if e.kind == "sql.fetchone"]
    return True


def _gns_finish(c, outcome, args, old):
    sqls = [e for e in c.trace if e.kind == "sql"]
    want = sqlfront.normalize(extract.module_constant("stepup/core/scheduler.py", "SELECT_NEXT_STEP"))
    c.prove("uses_the_dispatch_query", len(sqls) == 1 and sqls[0].norm == want, kind="post")
    if sqls:
        c.prove("bound_to_need_threshold", len(sqls[0].args) == 1 and
                sym.sym_eq(sqls[0].args[0], args["self"].workflow.need_threshold.value), kind="post")
    if outcome[0] == "return" and outcome[1] is not None:
        step, state = outcome[1]
        row = c.data.get("last_row")
        if row is not None:
            c.prove("running_iff_no_hash", tm.Iff(B(state == StepState.RUNNING), tm.Eq(I(row[2]), tm.mk_int(0))), kind="post")
            c.prove("checking_otherwise", tm.Iff(B(state == StepState.CHECKING), tm.Ne(I(row[2]), tm.mk_int(0))), kind="post")
            c.prove("step_is_the_selected_row", tm.And(B(step.i == row[0]), B(step.label == row[1])), kind="post")
        else:
            c.prove("row_recorded", False, kind="post")


_orig_row = trusted.Cursor._row


def _row_recording(self, name):
    r = _orig_row(self, name)
    cur().data["last_row"] = r
    return r


trusted.Cursor._row = _row_recording


@contract("stepup/core/scheduler.py::Scheduler._get_next_step", props=["C12", "C10", "C03", "C04"])
class get_next_step:
    args = dict(self=_scheduler)
    finish = _gns_finish
    result = lambda self: ty.Opt(ty.Make(lambda n: (common.fresh_node(Step, self.workflow, "next"),
                                                     ty.EnumOf(StepState, [StepState.RUNNING, StepState.CHECKING]).fresh(n + ".state"))))
    modifies = []


for _n in ("_update_meta_safe", "_update_meta_after", "_update_meta_ready"):
    contract(f"stepup/core/scheduler.py::Scheduler.{_n}", props=[], verify=False,
             note="recomputes cached scheduling columns (C10)")(type(_n, (), dict(
                 modifies=[], ensures=staticmethod(lambda self, _n=_n: (cur().event("meta", which=_n), True)[1]))))


def _pop_finish(c, outcome, args, old):
    """None iff draining or no eligible row; otherwise exactly the selected step leaves PENDING, inside the same
    transaction as the selection and with no await between selection and state change."""
    if outcome[0] != "return":
        return
    sets = [e for e in c.trace if e.kind == "set_state"]
    sel = [e for e in c.trace if e.kind == "call" and e.callee == "Scheduler._get_next_step"]
    begins = [e for e in c.trace if e.kind == "tx.begin"]
    ends = [e for e in c.trace if e.kind == "tx.end"]
    if outcome[1] is None:
        c.prove("no_state_change_without_job", len(sets) == 0, kind="post")
        return
    c.prove("not_draining", tm.Not(B(old.self.draining)), kind="post")
    c.prove("one_selection_one_state_change", len(sets) == 1 and len(sel) == 1 and len(begins) == 1, kind="post")
    if len(sets) == 1 and len(sel) == 1 and len(begins) == 1:
        step, state = sym.resolve(sel[0].result)
        c.prove("changes_the_selected_step_to_the_selected_state",
                tm.And(B(sets[0].node.i == step.i), B(sym.sym_eq(sets[0].state, state))), kind="post")
        inside = begins[0].index < sel[0].index < sets[0].index and (not ends or ends[0].index > sets[0].index)
        c.prove("selection_and_change_in_one_transaction", inside, kind="post")
        awaits = [e for e in c.trace if e.kind == "await" and sel[0].index < e.index < sets[0].index]
        c.prove("no_await_between_selection_and_change", len(awaits) == 0, kind="post")
        metas = [e.which for e in c.trace if e.kind == "meta" and begins[0].index < e.index < sel[0].index]
        c.prove("cached_columns_refreshed_before_selection",
                metas == ["_update_meta_safe", "_update_meta_after", "_update_meta_ready"], kind="post", detail=str(metas))


@contract("stepup/core/scheduler.py::Scheduler.pop_next_job", props=["C12", "C10", "C04", "C02", "C03"])
class pop_next_job:
    args = dict(self=_scheduler)
    may_raise = {common.ConsistencyError: None}
    finish = _pop_finish
    modifies = ["self.job_counter", "self.jobs"]


@structural("C12/scan/running_state_writers", props=["C12", "C05"],
            note="a step enters RUNNING only through Scheduler.pop_next_job (no other code writes that state)")
def running_state_writers():
    import ast
    import glob
    import os

    out = []
    hits = []
    for path in sorted(glob.glob(os.path.join(extract.REPO, "stepup", "core", "*.py"))):
        rel = os.path.relpath(path, extract.REPO)
        src, tree = extract.read_module(rel)
        for fn in ast.walk(tree):
            if not isinstance(fn, (ast.FunctionDef, ast.AsyncFunctionDef)):
                continue
            for n in ast.walk(fn):
                if isinstance(n, ast.Call) and isinstance(n.func, ast.Attribute) and n.func.attr == "set_state":
                    a = ast.unparse(n.args[0]) if n.args else ""
                    if "RUNNING" in a:
                        hits.append((rel, fn.name, a))
                if isinstance(n, ast.Constant) and isinstance(n.value, str) and "UPDATE STEP SET" in n.value.upper() \
                        and "STATE" in n.value.upper():
                    if str(StepState.RUNNING.value) in n.value and "state =" in n.value.lower().split("where")[0]:
                        hits.append((rel, fn.name, n.value.strip()[:60]))
    for rel, fn, a in hits:
        out.append((f"scan/running_state_writers/{rel}:{fn}", False, f"writes RUNNING: {a}"))
    # pop_next_job writes the state it got from _get_next_step (a variable): that is the only writer
    _, node = extract.find_def("stepup/core/scheduler.py", "Scheduler.pop_next_job")
    # (which state that is -- the one _get_next_step selected -- is the postcondition
    # changes_the_selected_step_to_the_selected_state of pop_next_job; here: the argument is a local variable bound by
    # unpacking the selection, whatever the locals are called)
    selected = {t.id for n in ast.walk(node) if isinstance(n, ast.Assign) and isinstance(n.value, ast.Call)
                and ast.unparse(n.value.func).endswith("._get_next_step") for t in n.targets if isinstance(t, ast.Name)}
    unpacked = {e.id for n in ast.walk(node) if isinstance(n, ast.Assign) and isinstance(n.value, ast.Name)
                and n.value.id in selected for t in n.targets if isinstance(t, (ast.Tuple, ast.List))
                for e in t.elts if isinstance(e, ast.Name)}
    ok = any(isinstance(n, ast.Call) and isinstance(n.func, ast.Attribute) and n.func.attr == "set_state" and n.args
             and isinstance(n.args[0], ast.Name) and n.args[0].id in unpacked for n in ast.walk(node))
    out.append(("scan/running_state_writers/pop_next_job", ok, "step.set_state(<state unpacked from the selection>)"))
    return out


@structural("C12/scan/no_command_outside_run_jobs", props=["C12", "C04"],
            note="hash checks (try_skip_job), dynamic-input validation and hash jobs never launch a command: "
                 "_run_command / launch_command are unreachable from them; execute_job does reach it (sanity)")
def no_command_outside_run_jobs():
    from vc import callgraph

    rel, cls = "stepup/core/executor.py", "Executor"
    out = []
    for m in ("try_skip_job", "validate_dynamic_job", "run_hash_job", "_run_hash_job"):
        reached, names = callgraph.reachable(rel, cls, m)
        bad = ("_run_command" in reached) or ("launch_command" in names)
        out.append((f"scan/no_command_outside_run_jobs/{m}", not bad, f"reaches {sorted(reached)}"))
    reached, names = callgraph.reachable(rel, cls, "execute_job")
    out.append(("scan/no_command_outside_run_jobs/execute_job_reaches_it", "_run_command" in reached, str(sorted(reached))))
    reached2, names2 = callgraph.reachable(rel, cls, "_run_command")
    out.append(("scan/no_command_outside_run_jobs/launch_is_in_run_command", "launch_command" in names2, ""))
    breach, bnames = callgraph.reachable("stepup/core/builder.py", "Builder", "run_promoted_hash_jobs")
    out.append(("scan/no_command_outside_run_jobs/promoted_hash_jobs", "start_task" not in breach and "run_hash_job" in bnames
                and "launch_command" not in bnames, f"calls {sorted(n for n in bnames if 'job' in n or 'task' in n)}"))
    return out
