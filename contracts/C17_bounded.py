"""C17 bounded stand-in: named glob matching is consistent with the file system and with itself.

The two hand-written compilers (convert_nglob_to_regex with stateful merging of neighbouring wildcards, and
convert_nglob_to_glob) are outside the reach of the VC generator (regular expressions, string automata).  They are
compared exhaustively on small patterns and small directory trees, on the real code and the real file system
(temporary directories):

  A  recorded = accepted   NamedGlob(p).glob() records exactly the existing paths (files, and directories with a
                           trailing separator) that the pattern's regular expression accepts;
  B  standard glob         for a pattern without repeated names this is what glob.glob(recursive=True,
                           include_hidden=True) returns for the pattern with its named wildcards made anonymous;
  C  naming is neutral     replacing one anonymous `*` by a fresh named wildcard does not change the recorded set;
  D  repeated names        a pattern with a repeated name records exactly those matches of the pattern with two distinct
                           names whose two captured substrings are equal;
  R  reference matcher     on files, the recorded set is what a small backtracking matcher written from the property
                           accepts (`*` and names: no separator; `**` as a component: anything; repeated name: equal);
  S  substitution is textual  an explicit substitution `*` records what the default records; where the name occurs once
                           and touches no other wildcard, `${*n}` with substitution s records what the pattern with s
                           written in its place records;
  E  incremental = rescan  extending / reducing a recorded set by added / deleted paths (will_change) gives the set a
                           fresh scan of the changed tree records, for every ordered pair of trees (which includes a
                           file replaced by a directory of the same name and back); will_change returns None iff the
                           set is unchanged and never touches the original.
"""

from __future__ import annotations

import glob as pyglob
import itertools
import os
import random
import re
import shutil
import tempfile

from vc import extract
from vc.report import bounded

TOKENS = ["a", ".", "/", "*", "?", "[ab]", "**", "${*n}", "${*m}"]
NAMES = ["a", "b", ".h", "ab"]


def trees(depth):
    """Directory trees over NAMES: a tree is a frozenset of relative paths (directories end with /)."""
    files = list(NAMES)
    out = []
    level1 = []
    for k in range(0, 3):
        for combo in itertools.combinations(files, k):
            level1.append(frozenset(combo))
    # trees: some files at the top, plus a directory 'a/' or '.h/' or 'ab/' with some files, plus nesting
    for top in level1[:7]:
        out.append(top)
        for d in ("b", ".h", "ab"):
            for sub in level1[:5]:
                t = {x for x in top if x != d} | {d + "/"} | {d + "/" + f for f in sub}
                out.append(frozenset(t))
                if depth >= 3 and sub:
                    t2 = set(t) | {d + "/b/"} | {d + "/b/" + f for f in list(sub)[:1]}
                    t2.discard(d + "/b")
                    out.append(frozenset(t2))
    seen, res = set(), []
    for t in out:
        if t not in seen:
            seen.add(t)
            res.append(t)
    return res


def make_tree(root, tree):
    for p in sorted(tree):
        full = os.path.join(root, p)
        if p.endswith("/"):
            os.makedirs(full, exist_ok=True)
        else:
            os.makedirs(os.path.dirname(full) or root, exist_ok=True)
            if not os.path.isdir(full):
                open(full, "w").close()


def existing(tree):
    """All existing paths of a tree, directories with a trailing separator (implied parents included)."""
    out = set()
    for p in tree:
        out.add(p)
        parts = p.rstrip("/").split("/")
        for k in range(1, len(parts)):
            out.add("/".join(parts[:k]) + "/")
    return out


def patterns(max_tokens):
    for n in range(1, max_tokens + 1):
        for combo in itertools.product(TOKENS, repeat=n):
            p = "".join(combo)
            if "//" in p or p.startswith("/") or p.endswith("/") or "***" in p:
                continue
            if any(part and set(part) == {"."} for part in p.split("/")):
                continue  # StepUp passes normalised patterns: no `.` / `..` (or dots-only) path component
            if "**" in p:
                # `**` is only meaningful as a whole path component
                if any(("**" in part and part != "**") for part in p.split("/")):
                    continue
            yield p


def tokenize(pattern):
    out, i = [], 0
    while i < len(pattern):
        if pattern.startswith("${*", i):
            j = pattern.index("}", i)
            out.append(("name", pattern[i + 3:j]))
            i = j + 1
        elif pattern.startswith("**", i):
            out.append(("rec",))
            i += 2
        elif pattern[i] == "*":
            out.append(("star",))
            i += 1
        elif pattern[i] == "?":
            out.append(("one",))
            i += 1
        elif pattern[i] == "[":
            j = pattern.index("]", i)
            out.append(("set", pattern[i + 1:j]))
            i = j + 1
        else:
            out.append(("lit", pattern[i]))
            i += 1
    return out


def ref_match(toks, s, env):
    """Does the token list match the whole string?  `*` and named wildcards match any run of characters other than
    the separator, `**` (a whole path component) any run of characters, a repeated name the same substring."""
    if not toks:
        return s == ""
    t, rest = toks[0], toks[1:]
    if t[0] == "lit":
        return s.startswith(t[1]) and ref_match(rest, s[1:], env)
    if t[0] == "one":
        return len(s) >= 1 and s[0] != "/" and ref_match(rest, s[1:], env)
    if t[0] == "set":
        # `!` negates only as the first character of the set (and a negated set does not match the separator)
        hit = len(s) >= 1 and ((s[0] not in t[1][1:] and s[0] != "/") if t[1].startswith("!") else s[0] in t[1])
        return hit and ref_match(rest, s[1:], env)
    if t[0] == "star":
        for k in range(0, len(s) + 1):
            if "/" in s[:k]:
                break
            if ref_match(rest, s[k:], env):
                return True
        return False
    if t[0] == "rec":
        # `**/` also matches nothing at all
        if rest and rest[0] == ("lit", "/") and ref_match(rest[1:], s, env):
            return True
        return any(ref_match(rest, s[k:], env) for k in range(0, len(s) + 1))
    if t[0] == "name":
        if t[1] in env:
            v = env[t[1]]
            return s.startswith(v) and ref_match(rest, s[len(v):], env)
        for k in range(0, len(s) + 1):
            if "/" in s[:k]:
                break
            if ref_match(rest, s[k:], dict(env, **{t[1]: s[:k]})):
                return True
        return False
    raise AssertionError(t)


def anonymous(p):
    return re.sub(r"\$\{\*\w+\}", "*", p)


def run_case(ng_mod, root, pattern, tree, subs=None):
    """Failures of checks A-D for one (pattern, tree); the tree exists under root (cwd)."""
    NamedGlob = ng_mod.NamedGlob
    fails = []
    try:
        ng = NamedGlob(pattern, subs or {})
    except Exception as e:  # noqa: BLE001
        return [dict(check="construct", error=f"{type(e).__name__}: {e}")] if not isinstance(e, ValueError) else []
    ng.glob()
    recorded = set(str(p) for p in ng.files())
    regex = re.compile(ng_mod.convert_nglob_to_regex(pattern, subs or {}))
    ex = existing(tree)
    accepted = {p for p in ex if regex.fullmatch(p)}
    if recorded != accepted:
        fails.append(dict(check="A recorded = accepted", recorded_only=sorted(recorded - accepted),
                          accepted_only=sorted(accepted - recorded)))
    if not subs:
        toks0 = tokenize(pattern)
        want_files = {p for p in ex if not p.endswith("/") and ref_match(toks0, p, {})}
        got_files = {p for p in recorded if not p.endswith("/")}
        if want_files != got_files:
            fails.append(dict(check="R reference matcher (files)", recorded_only=sorted(got_files - want_files),
                              expected_only=sorted(want_files - got_files)))
    names = list(ng_mod.iter_wildcard_names(pattern))
    if subs:
        # S: a substitution is textual.  An explicit `*` is the default, and (where the name occurs once and touches
        # no other wildcard) the named wildcard with substitution s records what the pattern with s written in its
        # place records.
        if all(v == "*" for v in subs.values()):
            try:
                ng0 = NamedGlob(pattern)
                ng0.glob()
                rec0 = set(str(p) for p in ng0.files())
                if rec0 != recorded:
                    fails.append(dict(check="S explicit * is the default", subs=subs, with_subs_only=sorted(recorded - rec0),
                                      default_only=sorted(rec0 - recorded)))
            except ValueError:
                pass
        touching_s = re.search(r"(\*|\?|\]|\})(\$\{\*\w+\})|(\$\{\*\w+\})(\*|\?|\[|\$)", pattern) is not None
        if len(names) == len(set(names)) and not touching_s:
            written = re.sub(r"\$\{\*(\w+)\}", lambda mm: subs.get(mm.group(1), mm.group(0)), pattern)
            try:
                ng1 = NamedGlob(written)
                ng1.glob()
                # compared on files (whether a directory is recorded depends on how the last wildcard compiles: check B,
                # findings F7 / F10)
                rec1 = set(str(p) for p in ng1.files() if not str(p).endswith("/"))
                recf = {p for p in recorded if not p.endswith("/")}
                if rec1 != recf:
                    fails.append(dict(check="S substitution is textual", subs=subs, written=written,
                                      with_subs_only=sorted(recf - rec1), written_only=sorted(rec1 - recf)))
            except ValueError:
                pass
    # making a named wildcard anonymous next to another wildcard would build `**` or `*?`-style neighbours whose
    # standard meaning differs (recursive); the comparison with the standard glob is made where no wildcards touch
    touching = re.search(r"(\*|\?|\]|\})(\$\{\*\w+\})|(\$\{\*\w+\})(\*|\?|\[|\$)", pattern) is not None
    if len(names) == len(set(names)) and not subs and not touching:
        std = set()
        for p in pyglob.glob(anonymous(pattern), recursive=True, include_hidden=True):
            if not os.path.lexists(p):
                continue  # glob yields the base directory of a trailing /** without checking that it exists
            std.add(p + "/" if os.path.isdir(p) and not p.endswith("/") else p)
        if recorded != std:
            fails.append(dict(check="B standard recursive glob", recorded_only=sorted(recorded - std),
                              glob_only=sorted(std - recorded)))
    if "*" in re.sub(r"\$\{\*\w+\}|\*\*", "", pattern) and "${*z}" not in pattern and not subs:
        # name the first anonymous single star
        m = re.search(r"(?<![*{])\*(?![*])", re.sub(r"\$\{\*\w+\}", lambda mm: "#" * len(mm.group(0)), pattern))
        if m:
            named = pattern[:m.start()] + "${*z}" + pattern[m.end():]
            try:
                ng2 = NamedGlob(named)
                ng2.glob()
                rec2 = set(str(p) for p in ng2.files())
                if rec2 != recorded:
                    fails.append(dict(check="C naming a star is neutral", named=named, anonymous_only=sorted(recorded - rec2),
                                      named_only=sorted(rec2 - recorded)))
            except ValueError:
                pass
    if len(names) != len(set(names)) and not subs:
        # D: a reference matcher written from the property (backtracking over all decompositions): a repeated name
        # matches equal substrings.  Compared on files only (directories: see check B).
        toks = tokenize(pattern)
        want = {p for p in ex if not p.endswith("/") and ref_match(toks, p, {})}
        got = {p for p in recorded if not p.endswith("/")}
        if want != got:
            fails.append(dict(check="D repeated name = equal substrings", recorded_only=sorted(got - want),
                              expected_only=sorted(want - got)))
    return fails


def subs_menu(pattern):
    """Substitutions tried for a pattern with named wildcards: an explicit star for all names, and for the first name a
    non-empty star and a character class."""
    names = sorted(set(re.findall(r"\$\{\*(\w+)\}", pattern)))
    if not names:
        return []
    return [{n: "*" for n in names}, {names[0]: "?*"}, {names[0]: "[ab]"}]


def scan(ng_mod, pattern, root):
    """NamedGlob(pattern) after a fresh scan of the tree at `root`, or None when the pattern is refused."""
    try:
        os.chdir(root)
        ng = ng_mod.NamedGlob(pattern)
        ng.glob()
    except ValueError:
        return None
    return ng


def run_incremental(ng, fresh, old_tree, new_tree):
    """`ng`: the scan of the old tree, `fresh`: the scan of the new tree (both left untouched)."""
    ex_old, ex_new = existing(old_tree), existing(new_tree)
    deleted, added = ex_old - ex_new, ex_new - ex_old
    before = {k: set(v) for k, v in ng.results.items()}
    evolved = ng.will_change(deleted, added)
    fails = []
    if {k: set(v) for k, v in ng.results.items()} != before:
        fails.append(dict(check="E will_change leaves the original untouched", deleted=sorted(deleted), added=sorted(added)))
    got = set(str(p) for p in (evolved if evolved is not None else ng).files())
    want = set(str(p) for p in fresh.files())
    if got != want:
        fails.append(dict(check="E incremental = rescan", deleted=sorted(deleted), added=sorted(added),
                          incremental_only=sorted(got - want), rescan_only=sorted(want - got)))
    if (evolved is None) != (set(str(p) for p in ng.files()) == got):
        fails.append(dict(check="E will_change returns None iff nothing changes", deleted=sorted(deleted), added=sorted(added),
                          returned_none=evolved is None))
    return fails


def kind_of(f, pattern=""):
    k = _kind_of(f)
    if k != "nonexistent-directory-recorded" and "/" in pattern:
        tail = pattern.rsplit("/", 1)[-1]
        paths = [x for key in ("recorded_only", "accepted_only", "glob_only", "expected_only", "incremental_only", "rescan_only",
                               "anonymous_only", "named_only") for x in f.get(key, [])]
        if paths and all(x.endswith("/") for x in paths) and re.fullmatch(r"(\*|\$\{\*\w+\})+", tail):
            # the last component of the pattern can be empty, so the regular expression accepts a directory `d/` through
            # the pattern's own separator, while a scan looks for entries inside `d/`
            return "directory-through-separator"
    return k


def _kind_of(f):
    """Classify a discrepancy: a directory that the reference has and the recorded set lacks (and nothing else), a
    directory recorded although it does not exist (and nothing else), or any other mismatch."""
    extra = f.get("recorded_only", []) or f.get("incremental_only", [])
    missing = f.get("accepted_only", []) or f.get("glob_only", []) or f.get("expected_only", []) or f.get("rescan_only", []) \
        or f.get("anonymous_only", [])
    if not extra and missing and all(x.endswith("/") for x in missing):
        return "directory-not-recorded"
    if extra and not missing and all(x.endswith("/") for x in extra) and f["check"].startswith("A"):
        return "nonexistent-directory-recorded"
    return "mismatch"


def _work(args):
    pats, tree_list, seed, do_incremental = args
    ng_mod = extract.import_module("stepup/core/nglob.py")
    base = tempfile.mkdtemp(prefix="pyvc-c17-")
    cwd = os.getcwd()
    fails, n = [], 0
    try:
        roots = []
        for k, t in enumerate(tree_list):
            r = os.path.join(base, f"t{k}")
            os.makedirs(r)
            make_tree(r, t)
            roots.append(r)
        rnd = random.Random(seed)
        for p in pats:
            for k, t in enumerate(tree_list):
                os.chdir(roots[k])
                for f in run_case(ng_mod, roots[k], p, t):
                    fails.append(dict(kind=kind_of(f, p), pattern=p, tree=sorted(t), **f))
                n += 1
                for subs in subs_menu(p):
                    for f in run_case(ng_mod, roots[k], p, t, subs):
                        fails.append(dict(kind=kind_of(f, p), pattern=p, tree=sorted(t), **f))
                    n += 1
            if do_incremental:
                scans = [scan(ng_mod, p, r) for r in roots]
                if scans[0] is not None:
                    for i in range(len(tree_list)):
                        for j in range(len(tree_list)):
                            if i == j:
                                continue
                            for f in run_incremental(scans[i], scans[j], tree_list[i], tree_list[j]):
                                fails.append(dict(kind=kind_of(f, p), pattern=p, old_tree=sorted(tree_list[i]),
                                                  new_tree=sorted(tree_list[j]), **f))
                            n += 1
            if len(fails) > 200:
                break
    finally:
        os.chdir(cwd)
        shutil.rmtree(base, ignore_errors=True)
    return fails, n


@bounded("compilers_and_filesystem", props=["C17"],
         bound="patterns of up to 3 (quick) / 4 (thorough) tokens over {a . / * ? [ab] ** ${*n} ${*m}} (well-formed ones), "
               "on every tree of a family of small directory trees of depth up to 2 (quick) / 3 (thorough) over the names "
               "{a, b, .h, ab}; checks A-D and R on every (pattern, tree), checks A and S with three substitutions (an explicit star for every name, `?*` and `[ab]` for the first name) on every (pattern with names, tree), check E on every ordered pair of trees (quick: 24 trees in which every name occurs as a file, as an empty directory and as a directory with entries; thorough: these and a seeded sample of 16 more) per pattern; plus seven patterns with character sets in which `!` occurs first and elsewhere over two trees with names containing `!` and `^`")
def compilers_and_filesystem(tier, seed):
    import concurrent.futures
    import multiprocessing

    ntok = 3 if tier == "quick" else 4
    # longer patterns that are kept in every tier because a tier above found something with them
    extra = ["${*m}${*n}/${*m}", "a/${*n}${*m}", "b/**/a", "**/${*n}${*n}"]
    pats = list(patterns(ntok)) + [p for p in extra if p not in set(patterns(ntok))]
    tree_list = trees(2 if tier == "quick" else 3)
    # a spread of 24 trees in which every name occurs as a file, as an empty directory and as a directory with entries
    spread = [0, 1, 2, 3, 4, 6, 8, 9, 11, 15, 16, 17, 19, 32, 33, 35, 38, 43, 44, 47, 54, 55, 60, 65]
    if tier == "quick":
        tree_list = [tree_list[i] for i in spread]
    else:
        # check E runs over all ordered pairs: keep the spread and a seeded sample of the rest
        rest = [t for i, t in enumerate(tree_list) if i not in spread]
        random.Random(seed).shuffle(rest)
        tree_list = [tree_list[i] for i in spread] + rest[:16]
    size = max(1, len(pats) // 64)
    chunks = [(pats[i:i + size], tree_list, seed + i, True) for i in range(0, len(pats), size)]
    # character sets: `!` negates only as the first character of a set, anywhere else it is a member; names with `!`
    # and `^` tell the two readings apart (checks A-D, no incremental pairs)
    set_pats = ["[a!]", "[!a]", "[?!]", "x[a!]", "[a!]x", "[!a]x", "${*n}[a!]", "[^a]", "x[^a]"]
    set_trees = [frozenset({"a", "!", "^", "b", "xa", "x!", "x^", "xb", "ax", "!x", "^x", "bx"}),
                 frozenset({"a", "!", "x!", "d/", "d/!", "d/a"})]
    chunks.append((set_pats, set_trees, seed, False))
    failures, n = [], 0
    with concurrent.futures.ProcessPoolExecutor(max_workers=16, mp_context=multiprocessing.get_context("fork")) as ex:
        for f, k in ex.map(_work, chunks):
            failures.extend(f)
            n += k
    return dict(evaluations=n, failures=failures, patterns=len(pats) + len(set_pats), trees=len(tree_list) + len(set_trees))
