"""C13: the step label is an injective function of (command, working directory)."""

from __future__ import annotations

from contracts import trusted
from vc import engine, extract, sym
from vc import terms as tm
from vc import types as ty
from vc.engine import contract
from vc.report import lemma
from vc.sym import B, S, cur, wrap_bool, wrap_str

stepmod = extract.import_module("stepup/core/step.py")
Step = stepmod.Step
SEP = "  # wd="


def label_of(command, workdir):
    """Spec (from the property: label determined by and determining command and workdir)."""
    return wrap_str(tm.Ite(tm.Eq(S(workdir), tm.mk_str(".")), S(command), tm.Concat(S(command), tm.mk_str(SEP), S(workdir))))


@contract("stepup/core/step.py::Step.adjust_label", props=["C13"])
class adjust_label:
    args = dict(cls=lambda a: engine.RepoClass(Step), label=ty.Str, workdir=ty.Str)
    raises = {ValueError: lambda label: sym.wrap_bool(tm.Contains(S(label), tm.mk_str(SEP)))}
    ensures = lambda label, workdir, result: result == label_of(label, workdir)
    result = ty.Str
    modifies = []


StepObj = ty.ObjOf(Step, dict(label=ty.Str))


def _cw_post(self, result):
    lab = S(self.label)
    idx = tm.IndexOf(lab, tm.mk_str(SEP), tm.mk_int(0))
    has = tm.Ge(idx, tm.mk_int(0))
    cmd = tm.Ite(has, tm.Substr(lab, tm.mk_int(0), idx), lab)
    wd = tm.Ite(has, tm.Substr(lab, tm.Add(idx, tm.mk_int(len(SEP))), tm.Len(lab)), tm.mk_str("."))
    return (result[0] == wrap_str(cmd)) & (result[1] == wrap_str(wd))


@contract("stepup/core/step.py::Step.command_and_workdir", props=["C13", "C20"])
class command_and_workdir:
    args = dict(self=StepObj)
    env = dict(Path=trusted.Path)
    ensures = _cw_post
    result = ty.TupleOf(ty.Str, ty.Str)
    modifies = []


def _nosep(t):
    return tm.Not(tm.Contains(t, tm.mk_str(SEP)))


@lemma("C13/lemma/label_injective", props=["C13"], timeout=60,
       note="two steps with different command or workdir have different labels")
def label_injective():
    c1, w1, c2, w2 = (cur().fresh(n, tm.STR) for n in ("c1", "w1", "c2", "w2"))
    cur().assume(wrap_bool(tm.And(_nosep(c1), _nosep(c2))))
    cur().assume(label_of(wrap_str(c1), wrap_str(w1)) == label_of(wrap_str(c2), wrap_str(w2)))
    return wrap_bool(tm.And(tm.Eq(c1, c2), tm.Eq(w1, w2)))


@lemma("C13/lemma/label_roundtrip", props=["C13", "C20"], timeout=60,
       note="command_and_workdir inverts adjust_label (first occurrence of the separator ends the command)")
def label_roundtrip():
    c1, w1 = (cur().fresh(n, tm.STR) for n in ("c1", "w1"))
    cur().assume(wrap_bool(tm.And(_nosep(c1), tm.Ne(w1, tm.mk_str(".")))))
    lab = tm.Concat(c1, tm.mk_str(SEP), w1)
    idx = tm.IndexOf(lab, tm.mk_str(SEP), tm.mk_int(0))
    return wrap_bool(tm.Eq(idx, tm.Len(c1)))
