"""Relational ghost view of the workflow database.

The stored graph is a family of ghost functions of a row key, one per table column, in the current
database version (`DbStub.version`): `db.<table>.<column>.v<N>(key)` and `db.<table>.exists.v<N>(key)`.
A SELECT statement of the real code is read mechanically (vc/sqlfront): every FROM/JOIN alias gets a row
key, the ON and WHERE conditions are translated over the ghost columns of those keys, and the select list
gives the value of every result column.  Two facts (trusted to SQLite) connect a statement with the view:

  row fact     a row returned by the statement has keys whose rows exist and satisfy ON and WHERE, and its
               columns are the select-list expressions evaluated on them;
  no-row fact  when the statement returns no row (fetchone() is None, or the iteration ends), no
               assignment of existing keys satisfies ON and WHERE; it is assumed for the key assignments a
               contract names (its ghost constants).

Only inner joins are read this way (LEFT JOIN: the joined alias's columns become nullable with the ON
condition as the non-null case)."""

from __future__ import annotations

import re

from contracts import trusted
from vc import extract, sqlfront, sym
from vc import terms as tm
from vc.sym import cur
from vc.terms import BOOL, INT, STR

KEYS = dict(node="i", file="node", step="node", nglob="i", dependency="i", dynamic_dep="i", static_tree="node",
            env_var="i", amended_dep="i")
SCHEMAS = [("stepup/core/trellis.py", "TRELLIS_SCHEMA"), ("stepup/core/file.py", "FILE_SCHEMA"),
           ("stepup/core/step.py", "STEP_SCHEMA"), ("stepup/core/workflow.py", "WORKFLOW_SCHEMA")]
_COL = re.compile(r"^\s*([A-Za-z_][A-Za-z0-9_]*)\s+(INTEGER|TEXT|REAL|BOOLEAN|BLOB)\b(.*)$")


def schema():
    """table -> {column: (type, nullable)} read from the CREATE TABLE statements of the working tree."""
    out = {}
    for rel, const in SCHEMAS:
        try:
            text = extract.module_constant(rel, const)
        except extract.ExtractError:
            continue
        table = None
        for line in text.splitlines():
            m = re.match(r"\s*CREATE (?:TEMPORARY )?TABLE (?:IF NOT EXISTS )?([A-Za-z_.]+)", line)
            if m:
                table = m.group(1)
                out[table] = {}
                continue
            if table is None:
                continue
            if re.match(r"^\)\s*(WITHOUT ROWID)?\s*;", line.strip()):
                table = None
                continue
            if line.strip().startswith("--"):
                continue
            m = _COL.match(line)
            if m:
                rest = m.group(3).upper()
                out[table][m.group(1)] = (m.group(2), not ("NOT NULL" in rest or "PRIMARY KEY" in rest))
    return out


_SCHEMA = None


def table_columns(table):
    global _SCHEMA
    if _SCHEMA is None:
        _SCHEMA = schema()
    return _SCHEMA.get(table, {})


def _db_fun(db, table, col, sort):
    v = db.col_version(table, col.split(".")[0]) if hasattr(db, "col_version") else db.version
    return cur().decls.fun(f"db.{table}.{col}.v{v}", [INT], sort)


def detached_at(db, key: tm.T) -> tm.T:
    """node.detached (the symbol contracts/common.py uses through DbStub.fact('detached', i))."""
    v = db.col_version("node", "detached") if hasattr(db, "col_version") else db.version
    return cur().decls.fun(f"db.detached.v{v}", [INT], BOOL)(key)


def exists(db, table, key: tm.T) -> tm.T:
    return _db_fun(db, table, "exists", BOOL)(key)


trusted.trusted("sqlite3 (writes, contracts/graphdb.py): UPDATE t SET c = e WHERE w gives column c the value e in the "
                "existing rows that satisfy w and leaves every other row and column as it was, apart from the columns "
                "that AFTER triggers on the event may write (computed from the trigger texts, transitively, and left "
                "unknown); INSERT adds exactly one row; DELETE removes exactly the rows that satisfy its WHERE (rows of "
                "tables with ON DELETE CASCADE to it become unknown)")


def column(db, table, col, key: tm.T) -> sqlfront.Val:
    cols = table_columns(table)
    if col not in cols:
        raise sqlfront.SQLError(f"table {table} has no column {col}")
    typ, nullable = cols[col]
    if col == KEYS.get(table):
        return sqlfront.Val(key, "int")
    if table == "node" and col == "detached":
        return sqlfront.Val(detached_at(db, key), "bool")
    sort = STR if typ == "TEXT" else INT
    if typ == "REAL":
        raise sqlfront.SQLError(f"real column {table}.{col}")
    t = _db_fun(db, table, col, sort)(key)
    null = _db_fun(db, table, col + ".null", BOOL)(key) if nullable else tm.FALSE
    if typ == "BOOLEAN":
        return sqlfront.Val(tm.Ne(t, tm.mk_int(0)), "bool", null)
    return sqlfront.Val(t, "str" if sort == STR else "int", null)


def val(db, table, col, key) -> tm.T:
    return column(db, table, col, sym.I(key) if not isinstance(key, tm.T) else key).t


def _split_commas(toks):
    out, cur_, depth = [], [], 0
    for t in toks:
        if t.up == "(":
            depth += 1
        elif t.up == ")":
            depth -= 1
        if depth == 0 and t.up == ",":
            out.append(cur_)
            cur_ = []
        else:
            cur_.append(t)
    if cur_:
        out.append(cur_)
    return out


class Select:
    """A SELECT statement read against the ghost view."""

    def __init__(self, sql):
        self.sql = sql
        toks = sqlfront.tokenize(sql)
        toks = [t for t in toks if t.kind != "eof"]
        parts = sqlfront.split_select(toks)
        if "SELECT" not in parts or "FROM" not in parts:
            raise sqlfront.SQLError("not a plain SELECT ... FROM statement")
        sel = parts["SELECT"]
        if sel and sel[0].up == "DISTINCT":
            sel = sel[1:]
        self.outputs = []
        for item in _split_commas(sel):
            if len(item) >= 2 and item[-2].up == "AS":
                item = item[:-2]
            self.outputs.append(sqlfront.parse_expr(item))
        # LEFT JOIN <table> [AS] <alias> ON <cond>: the joined row is optional; it does not restrict the result, and
        # its columns are read as unconstrained nullable values
        self.optional = {}
        ftoks = list(parts["FROM"])
        while any(t.up == "LEFT" for t in ftoks):
            k = next(i for i, t in enumerate(ftoks) if t.up == "LEFT")
            j = k + 1
            depth = 0
            while j < len(ftoks):
                t = ftoks[j]
                if t.up == "(":
                    depth += 1
                elif t.up == ")":
                    depth -= 1
                elif depth == 0 and j > k + 1 and t.up in ("JOIN", "LEFT", "INNER", "CROSS", ","):
                    break
                j += 1
            al, _ = sqlfront.from_aliases(ftoks[k:j] + [sqlfront.Tok("eof", "")])
            self.optional.update(al)
            del ftoks[k:j]
        self.aliases, self.ons = sqlfront.from_aliases(ftoks + [sqlfront.Tok("eof", "")])
        for a, tb in self.aliases.items():
            if not isinstance(tb, str) or tb not in KEYS:
                raise sqlfront.SQLError(f"table {tb!r} has no ghost view")
        self.where = sqlfront.parse_expr(parts["WHERE"]) if "WHERE" in parts else None

    def translator(self, db, keys, args, subquery=None):
        c = cur()
        aliases = self.aliases
        optional = self.optional

        def col(alias, name):
            if alias in optional:
                n = c.fresh_name(f"leftjoin.{alias}.{name}")
                text = name in trusted.SQL_TEXT_COLUMNS
                return sqlfront.Val(c.fresh(n, STR if text else INT), "str" if text else "int", c.fresh(n + ".null", BOOL))
            if alias is None:
                owners = [a for a, tb in aliases.items() if name in table_columns(tb)]
                if len(owners) != 1:
                    raise sqlfront.SQLError(f"ambiguous or unknown column {name}")
                alias = owners[0]
            if alias not in aliases:
                raise sqlfront.SQLError(f"unknown alias {alias}")
            return column(db, aliases[alias], name, keys[alias])

        def param(idx):
            v = args[idx]
            if isinstance(v, (sym.SymStr, str)):
                return sqlfront.Val(sym.S(v), "str")
            if v is None:
                return sqlfront.Val(tm.mk_int(0), "int", tm.TRUE)
            return sqlfront.Val(sym.I(v), "int")

        sq = subquery
        if sq is None and self.subquery is not None:
            sq = lambda e: self.subquery(e, keys)  # noqa: E731
        return sqlfront.Translator(c.decls, col, param, subquery=sq)

    subquery = None  # callable(expression node, keys) -> Val or None, for IN (SELECT ..) / EXISTS leaves

    def roles(self):
        """alias -> role name: the table name for its first occurrence in FROM order, `table#n` for the n-th.  Contracts
        name the rows of a statement by role, so that renaming an alias in the SQL text does not matter."""
        seen, out = {}, {}
        for a, tb in self.aliases.items():
            seen[tb] = seen.get(tb, 0) + 1
            out[a] = tb if seen[tb] == 1 else f"{tb}#{seen[tb]}"
        return out

    def by_alias(self, ks):
        """A key assignment given by alias or by role, as one by alias."""
        roles = self.roles()
        out = {}
        for a in self.aliases:
            if a in ks:
                out[a] = ks[a]
            elif roles[a] in ks:
                out[a] = ks[roles[a]]
        return out

    def with_roles(self, keys):
        """The key assignment readable by alias and by role."""
        out = dict(keys)
        for a, r in self.roles().items():
            if a in keys:
                out.setdefault(r, keys[a])
        return out

    def condition(self, db, keys, args) -> tm.T:
        """exists(keys) and ON and WHERE for the key assignment."""
        tr = self.translator(db, keys, args)
        parts = [exists(db, self.aliases[a], keys[a]) for a in self.aliases]
        parts += [tr.holds(e) for e in self.ons]
        if self.where is not None:
            parts.append(tr.holds(self.where))
        return tm.And(*parts)

    def fresh_keys(self, prefix):
        c = cur()
        return {a: c.fresh(c.fresh_name(f"{prefix}.key.{a}"), INT) for a in self.aliases}

    def row_fact(self, db, row, args, prefix="row", keys=None):
        """(fact, keys): the row comes from existing keys satisfying the statement."""
        keys = keys or self.fresh_keys(prefix)
        tr = self.translator(db, keys, args)
        facts = [self.condition(db, keys, args)]
        for k, e in enumerate(self.outputs):
            v = tr.ev(e)
            item = row[k]
            if isinstance(item, sym.SymOpt):
                facts.append(tm.Iff(item.isnone, v.null))
                pay = item.payload
                if pay is not None:
                    facts.append(tm.Implies(tm.Not(v.null), tm.Eq(sym.S(pay) if v.kind == "str" else sym.I(pay), v.t)))
                continue
            facts.append(tm.Not(v.null))
            if v.kind == "str":
                facts.append(tm.Eq(sym.S(item), v.t))
            elif v.kind == "bool":
                facts.append(tm.Iff(tm.Ne(sym.I(item), tm.mk_int(0)), v.t))
            else:
                facts.append(tm.Eq(sym.I(item), v.t))
        return tm.And(*facts), keys


trusted.trusted("sqlite3 (relational reading, contracts/graphdb.py): a row returned by SELECT .. FROM a JOIN b ON c "
                "WHERE w comes from existing rows of a and b that satisfy c and w, its columns are the select "
                "list evaluated on them, and when no row is returned no combination of existing rows satisfies "
                "c and w; table columns and keys are read from the CREATE TABLE text of the working tree")


_Select = Select


def _key_arrays(cu, s):
    """Per cursor: the row keys of an iterated result as arrays over the row index."""
    ka = getattr(cu, "key_arrays", None)
    if ka is None:
        c = cur()
        roles = s.roles()
        by_alias = {a: c.fresh(c.fresh_name(f"q{cu.ordinal}.keys.{roles[a]}"), tm.arr(INT, INT)) for a in s.aliases}
        ka = _AliasAndRole(by_alias)
        ka.alias_names = list(s.aliases)
        for a, r in roles.items():  # readable by role as well (contracts name rows by role)
            dict.__setitem__(ka, r, by_alias[a])
        cu.key_arrays = ka
    return ka


class _AliasAndRole(dict):
    """Key arrays by alias and by role; iteration yields the aliases only."""

    alias_names = ()

    def items(self):
        return [(a, self[a]) for a in self.alias_names]

    def __iter__(self):
        return iter(self.alias_names)


def scalar_lookup(e, select, keys, db=None, args=None):
    """`(SELECT <col> FROM <table> WHERE <key column> = ?)` as a value: the column at that key, NULL when the row
    does not exist."""
    if e[0] != "scalar_select":
        return None
    c = cur()
    cu = c.data.get("cursor")
    db = db or cu.db
    args = args if args is not None else cu.args
    inner = _Select(sqlfront.show(e[1]))
    if len(inner.aliases) != 1 or len(inner.outputs) != 1 or inner.where is None:
        return None
    (alias, table), = inner.aliases.items()
    w = inner.where
    if not (w[0] == "cmp" and w[1] == "=" and w[2][0] == "col" and w[2][2] == KEYS[table] and w[3][0] == "param"):
        return None
    key = _param_fn(args)(w[3][1])
    tr = inner.translator(db, {alias: key.t}, args, subquery=lambda e2: None)
    v = tr.ev(inner.outputs[0])
    return sqlfront.Val(v.t, v.kind, tm.Or(v.null, key.null, tm.Not(exists(db, table, key.t))))


def query(prefix, rowspec, witness=None, none_keys=None, always_row=False, complete_keys=None, subquery=None):
    """A DbStub query entry whose rows carry the row fact.  `witness(keys, args)` is called with the keys
    of each returned row (to bind them to ghost names); `none_keys(args)` lists key assignments for which
    the no-row fact is assumed when the result is empty; `complete_keys(args)` lists key assignments for which
    completeness of an iterated result is assumed: if they satisfy the statement, some row has these keys."""

    def Select(sql):  # noqa: N802  (statement reader with this query's subquery leaves)
        s_ = _Select(sql)
        if subquery is not None:
            s_.subquery = lambda e, keys: subquery(e, s_, keys)
        return s_

    def facts(row, args):
        c = cur()
        cu = c.data["cursor"]
        s = Select(cu.sql)
        keys = None
        idx = c.data.get("row_index")
        if idx is not None:
            keys = {a: tm.Select(arr_, idx, INT) for a, arr_ in _key_arrays(cu, s).items()}
        f, keys = s.row_fact(cu.db, row, args, keys=keys)
        if witness is not None:
            c.pc.append(f)
            witness(s.with_roles(keys), args, row)
            return True
        return sym.wrap_bool(f)

    def on_none(cu):
        if none_keys is None:
            return True
        cur().data["cursor"] = cu
        s = Select(cu.sql)
        fs = []
        for ks in none_keys(cu.args):
            keys = s.by_alias(ks)
            for a in s.aliases:  # aliases the contract does not name: any existing row
                if a not in keys:
                    raise sqlfront.SQLError(f"no-row fact: no key given for alias {a}")
            fs.append(tm.Not(s.condition(cu.db, keys, cu.args)))
        return sym.wrap_bool(tm.And(*fs))

    def on_rows(cu, q):
        if complete_keys is None:
            return
        c = cur()
        c.data["cursor"] = cu
        s = Select(cu.sql)
        if any(w in sqlfront.normalize(cu.sql).upper().split() for w in ("LIMIT", "DISTINCT", "GROUP")):
            raise sqlfront.SQLError("completeness of a LIMIT / DISTINCT / GROUP BY result is not modelled")
        ka = _key_arrays(cu, s)
        for ks in complete_keys(cu.args):
            pos = c.fresh(c.fresh_name(f"q{cu.ordinal}.pos"), INT)
            ks = s.by_alias(ks)
            c.pc.append(tm.Implies(s.condition(cu.db, dict(ks), cu.args),
                                   tm.And(tm.Le(tm.mk_int(0), pos), tm.Lt(pos, q.length),
                                          *[tm.Eq(tm.Select(ka[a], pos, INT), ks[a]) for a in s.aliases])))
            cu.positions = getattr(cu, "positions", []) + [pos]

    return (prefix, rowspec, facts, always_row, on_none, on_rows)


def no_row(db, sql, args, keys) -> tm.T:
    return tm.Not(Select(sql).condition(db, keys, args))


# --------------------------------------------------------------------------- writing statements


def _trigger_writes(table, event, set_cols):
    """Columns that AFTER triggers may write when `event` happens on `table` (closure over nested triggers):
    they move to a new version without any fact (their new value is unknown to the reader)."""
    from contracts.C10_dispatch import all_triggers

    trg = all_triggers()
    todo = [(table, event, set(set_cols) if set_cols is not None else None)]
    seen = set()
    out = set()
    while todo:
        t, ev, cols = todo.pop()
        for name, (tev, ttable, tcol, _when, body) in trg.items():
            if ttable != t or tev != ev or name in seen:
                continue
            if tcol is not None and cols is not None and tcol not in cols:
                continue
            seen.add(name)
            for m in re.finditer(r"UPDATE (\w+) SET (.*?)(?: WHERE |;|$)", body):
                wt = m.group(1)
                wcols = set(re.findall(r"(\w+) =", m.group(2)))
                for wc in wcols:
                    out.add((wt, wc))
                todo.append((wt, "UPDATE", wcols))
            for m in re.finditer(r"(INSERT INTO|DELETE FROM) (\w+)", body):
                raise sqlfront.SQLError(f"trigger {name} inserts or deletes rows: not read")
    return out


def _pats(v: sqlfront.Val):
    """Trigger terms of a quantified column fact: the value application and (if nullable) the NULL flag."""
    pats = [[v.t]]
    if not v.null.is_lit:
        pats.append([v.null])
    return pats


def _bound_key(name="k"):
    return tm.Var(cur().fresh_name(name + "!bound"), INT)


def _param_fn(args):
    def param(idx):
        v = args[idx]
        if isinstance(v, (sym.SymStr, str)):
            return sqlfront.Val(sym.S(v), "str")
        if v is None:
            return sqlfront.Val(tm.mk_int(0), "int", tm.TRUE)
        if isinstance(v, sym.SymOpt):
            pay = v.payload
            t = sym.S(pay) if isinstance(pay, (sym.SymStr, str)) else (sym.I(pay) if pay is not None else tm.mk_int(0))
            return sqlfront.Val(t, "str" if isinstance(pay, (sym.SymStr, str)) else "int", v.isnone)
        return sqlfront.Val(sym.I(v), "int")

    return param


def _same(a: sqlfront.Val, b: sqlfront.Val) -> tm.T:
    """Two column values agree (value and NULL flag)."""
    if a.kind == "bool":
        eq = tm.Iff(a.t, b.t if b.kind == "bool" else tm.Ne(b.t, tm.mk_int(0)))
    elif b.kind == "bool":
        eq = tm.Iff(tm.Ne(a.t, tm.mk_int(0)), b.t)
    else:
        eq = tm.Eq(a.t, b.t)
    return tm.And(tm.Iff(a.null, b.null), tm.Implies(tm.Not(a.null), eq))


def _ite_val(c, a: sqlfront.Val, b: sqlfront.Val, like: sqlfront.Val) -> sqlfront.Val:
    def as_kind(v):
        if like.kind == "bool" and v.kind != "bool":
            return tm.Ne(v.t, tm.mk_int(0))
        if like.kind != "bool" and v.kind == "bool":
            return tm.Ite(v.t, tm.mk_int(1), tm.mk_int(0))
        return v.t

    return sqlfront.Val(tm.Ite(c, as_kind(a), as_kind(b)), like.kind, tm.Ite(c, a.null, b.null))


# tables that hold data about a node but are not part of the view (no invariant of the view reads them)
SATELLITES = {"step_hash", "step_outcome", "step_resource", "step_subprocess"}

CLOSURE_READERS = []  # (normalised statement text, reader(db, old, args) -> facts): recursive statements (assumed)


def read_write(db, old, sql, args):
    """Facts that relate the tables before (`old`) and after (`db`, already at its new version) one writing
    statement.  A statement outside the fragment is a write of unknown effect (every column moves on)."""
    c = cur()
    norm = sqlfront.normalize(sql)
    for text, reader in CLOSURE_READERS:
        if norm == text:
            return reader(db, old, args)
    toks = [t for t in sqlfront.tokenize(sql) if t.kind != "eof"]
    try:
        head = toks[0].up
        # a statement on a table that is not part of the view changes the view only through triggers
        tpos = {"UPDATE": 1, "INSERT": 2, "DELETE": 2}.get(head)
        if tpos is not None and len(toks) > tpos and toks[tpos - 1].up in ("UPDATE", "INTO", "FROM"):
            tname = sqlfront._unquote(toks[tpos].text)
            if tname not in KEYS and tname in SATELLITES:
                for wt, wc in _trigger_writes(tname, head, None):
                    db.touch(wt, wc)
                return True
        if head == "UPDATE":
            return _read_update(db, old, toks, args)
        if head == "INSERT":
            return _read_insert(db, old, toks, args)
        if head == "DELETE":
            return _read_delete(db, old, toks, args)
        raise sqlfront.SQLError(f"statement {head} is not read")
    except sqlfront.SQLError as e:
        c.event("sql.unread", sql=sql, reason=str(e))
        # unread, but the target table is known: its rows and columns become unknown, together with what the triggers
        # on its events may write; every other table keeps its symbols
        m = re.match(r"(?i)^(?:UPDATE|INSERT (?:OR \w+ )?INTO|DELETE FROM)\s+(\w+)", norm)
        if m and m.group(1) in KEYS and "WITH" not in norm.upper().split()[:1]:
            t = m.group(1)
            for cn in table_columns(t):
                db.touch(t, cn)
            db.touch(t, "exists")
            for ev in ("INSERT", "UPDATE", "DELETE"):
                for wt, wc in _trigger_writes(t, ev, None):
                    db.touch(wt, wc)
            for child in CASCADES.get(t, []):
                if child in KEYS:
                    db.touch(child, "exists")
            return True
        db.full = db.version
        return True


def _table_of(toks, pos):
    t = sqlfront._unquote(toks[pos].text)
    if t not in KEYS:
        raise sqlfront.SQLError(f"table {t} has no ghost view")
    return t


def _clause(toks, start_kw, end_kws):
    depth = 0
    i0 = None
    for i, t in enumerate(toks):
        if t.up == "(":
            depth += 1
        elif t.up == ")":
            depth -= 1
        elif depth == 0 and i0 is None and t.up == start_kw:
            i0 = i + 1
        elif depth == 0 and i0 is not None and t.up in end_kws:
            return toks[i0:i]
    return toks[i0:] if i0 is not None else None


def _row_translator(old, table, k, args):
    def col(alias, name):
        if alias not in (None, table):
            raise sqlfront.SQLError(f"column of another table: {alias}.{name}")
        return column(old, table, name, k)

    return sqlfront.Translator(cur().decls, col, _param_fn(args))


def _read_update(db, old, toks, args):
    table = _table_of(toks, 1)
    set_toks = _clause(toks, "SET", ("WHERE", "RETURNING"))
    where_toks = _clause(toks, "WHERE", ("RETURNING",))
    if any(t.up == "FROM" for t in set_toks):
        raise sqlfront.SQLError("UPDATE .. FROM is not read")
    assigns = []
    for item in _split_commas(set_toks):
        if len(item) < 3 or item[1].up != "=":
            raise sqlfront.SQLError("SET item is not `column = expression`")
        assigns.append((sqlfront._unquote(item[0].text), sqlfront.parse_expr(item[2:])))
    cols = [a[0] for a in assigns]
    k = _bound_key()
    tr = _row_translator(old, table, k, args)
    cond = tm.And(exists(old, table, k), tr.holds(sqlfront.parse_expr(where_toks)) if where_toks else tm.TRUE)
    vals = [(cname, tr.ev(e)) for cname, e in assigns]
    for cname in cols:
        db.touch(table, cname)
    for wt, wc in _trigger_writes(table, "UPDATE", cols):
        if not (wt == table and wc in cols):
            db.touch(wt, wc)
    facts = []
    for cname, v in vals:
        newv = column(db, table, cname, k)
        oldv = column(old, table, cname, k)
        facts.append(tm.ForAll([(k.s, INT)], _same(newv, _ite_val(cond, v, oldv, newv)), patterns=_pats(newv)))
    return sym.wrap_bool(tm.And(*facts))


def _read_insert(db, old, toks, args):
    c = cur()
    if toks[1].up != "INTO":
        raise sqlfront.SQLError("INSERT OR .. is not read")
    table = _table_of(toks, 2)
    if any(t.up in ("CONFLICT", "SELECT") for t in toks):
        raise sqlfront.SQLError("upsert / INSERT .. SELECT is not read")
    i = 3
    if toks[i].up != "(":
        raise sqlfront.SQLError("INSERT without a column list is not read")
    j = next(x for x in range(i, len(toks)) if toks[x].up == ")")
    cols = [sqlfront._unquote(t.text) for t in toks[i + 1:j] if t.up != ","]
    if toks[j + 1].up != "VALUES":
        raise sqlfront.SQLError("INSERT without VALUES is not read")
    vtoks = toks[j + 3:]
    depth, end = 0, None
    for x, t in enumerate(vtoks):
        if t.up == "(":
            depth += 1
        elif t.up == ")":
            if depth == 0:
                end = x
                break
            depth -= 1
    exprs = [sqlfront.parse_expr(item) for item in _split_commas(vtoks[:end])]
    if len(exprs) != len(cols):
        raise sqlfront.SQLError("column / value count mismatch")
    keycol = KEYS[table]
    tr0 = sqlfront.Translator(c.decls, lambda a, n: (_ for _ in ()).throw(sqlfront.SQLError("column in VALUES")), _param_fn(args))
    vals = dict(zip(cols, [tr0.ev(e) for e in exprs]))
    if keycol in vals:
        newkey = vals[keycol].t
    else:
        newkey = c.fresh(c.fresh_name(f"new.{table}.{keycol}"), INT)
        c.pc.append(tm.And(tm.Not(exists(old, table, newkey)), tm.Ge(newkey, tm.mk_int(1))))  # an unused, positive rowid
    db.last_insert_key = newkey
    allcols = [cn for cn in table_columns(table) if cn != keycol]
    for cn in allcols:
        db.touch(table, cn)
    db.touch(table, "exists")
    for wt, wc in _trigger_writes(table, "INSERT", None):
        db.touch(wt, wc)
    k = _bound_key()
    facts = [tm.ForAll([(k.s, INT)], tm.Iff(exists(db, table, k), tm.Or(exists(old, table, k), tm.Eq(k, newkey))),
                       patterns=[[exists(db, table, k)]])]
    for cn in allcols:
        newv, oldv = column(db, table, cn, k), column(old, table, cn, k)
        if cn in vals:
            body = _same(newv, _ite_val(tm.Eq(k, newkey), vals[cn], oldv, newv))
        else:
            body = tm.Implies(tm.Ne(k, newkey), _same(newv, oldv))
        facts.append(tm.ForAll([(k.s, INT)], body, patterns=_pats(newv)))
    return sym.wrap_bool(tm.And(*facts))


CASCADES = dict(node=["file", "step", "nglob", "static_tree", "env_var"], dependency=["dynamic_dep"])


def _read_delete(db, old, toks, args):
    if toks[1].up != "FROM":
        raise sqlfront.SQLError("DELETE without FROM")
    table = _table_of(toks, 2)
    where_toks = _clause(toks, "WHERE", ("RETURNING",))
    k = _bound_key()
    tr = _row_translator(old, table, k, args)
    cond = tr.holds(sqlfront.parse_expr(where_toks)) if where_toks else tm.TRUE
    db.touch(table, "exists")
    for child in CASCADES.get(table, []):  # ON DELETE CASCADE: rows of the child tables disappear (not read)
        if child in KEYS:
            db.touch(child, "exists")
    for wt, wc in _trigger_writes(table, "DELETE", None):
        db.touch(wt, wc)
    return sym.wrap_bool(tm.ForAll([(k.s, INT)], tm.Iff(exists(db, table, k), tm.And(exists(old, table, k), tm.Not(cond))),
                                   patterns=[[exists(db, table, k)]]))
