"""C04 bounded stand-in: after a build that ended successfully, a rebuild with nothing changed pops no job and leaves
the stored graph as it is.

The contracts of C04_noop.py prove the individual start-up and dispatch functions from a quiescent state.  That every
history ending in a successful build *is* quiescent is a whole-history statement: this stand-in takes every history of
the C09 world (contracts/C09_bounded.py: real Workflow and Scheduler, in-memory database) up to a stated length,
completes the build (runs jobs until none is left), keeps the histories whose build succeeded (every attached step
SUCCEEDED), and then performs the rebuild: reset_interrupted_steps, rescan_env_vars and the scheduler's pop_next_job.
No job may be popped and the tables node, file, step (state, deferred), step_hash, dependency, dynamic_dep and nglob must
be unchanged."""

from __future__ import annotations

import asyncio
import itertools
import os

from contracts import C09_bounded
from vc import extract
from vc.report import bounded

TABLES = ["SELECT i, kind, label, creator, detached FROM node ORDER BY i",
          "SELECT node, state, hash FROM file ORDER BY node",
          "SELECT node, state, deferred, need FROM step ORDER BY node",
          "SELECT node FROM step_hash ORDER BY node",
          "SELECT source, sink FROM dependency ORDER BY source, sink",
          "SELECT i FROM dynamic_dep ORDER BY i",
          "SELECT node, pattern FROM nglob ORDER BY node, pattern"]


class _Reporter:
    async def __call__(self, *a, **k):
        return None

    def __getattr__(self, name):
        return lambda *a, **k: None


async def _rebuild(m, ops):
    w = C09_bounded.World(m)
    startup = extract.import_module("stepup/core/startup.py")
    SS = m["enums"].StepState
    with m["sqlite3"].DBSession.open(":memory:") as db:
        w.db = db
        await w.boot()
        try:
            for name in ops:
                await w.op(name)
            for _ in range(12):  # complete the build
                async with db:
                    n_pending = db.execute("SELECT COUNT(*) FROM step JOIN node ON node.i = step.node WHERE NOT detached "
                                           "AND step.state != ?", (SS.SUCCEEDED.value,)).fetchone()[0]
                if n_pending == 0:
                    break
                await w.op("run")
        except C09_bounded.Internal as e:
            return dict(history=list(ops), error="C09: " + str(e))
        async with db:
            rows = db.execute("SELECT step.state FROM step JOIN node ON node.i = step.node WHERE NOT detached").fetchall()
            files = db.execute("SELECT file.state FROM file JOIN node ON node.i = file.node WHERE NOT detached").fetchall()
        FS = m["enums"].FileState
        if any(r[0] != SS.SUCCEEDED.value for r in rows) or any(
                f[0] in (FS.UNCONFIRMED.value, FS.MISSING.value, FS.PLANNED.value, FS.OUTDATED.value) for f in files):
            return None  # the build did not end successfully: not a premise of the property

        async def snap():
            async with db:
                return [db.execute(q).fetchall() for q in TABLES]

        before = await snap()
        rep = _Reporter()
        await startup.reset_interrupted_steps(w.wf, rep)
        await startup.rescan_env_vars(w.wf, rep)
        job = await w.scheduler.pop_next_job()
        after = await snap()
        if job is not None:
            return dict(history=list(ops), error=f"a job was popped although nothing changed: {job.step.label}")
        if before != after:
            diff = [TABLES[k].split(" FROM ")[1].split()[0] for k in range(len(TABLES)) if before[k] != after[k]]
            return dict(history=list(ops), error=f"the rebuild changed the tables {diff}")
        return "ok"


def _chunk(histories):
    m = C09_bounded._mods()
    os.environ["STEPUP_DEBUG"] = "1"
    out = []
    for ops in histories:
        r = asyncio.run(_rebuild(m, list(ops)))
        out.append(r)
    return out


@bounded("rebuild_is_a_noop", props=["C04"],
         bound="exhaustive: every history of the C09 world (9 operations) of length <= 3 (quick) / <= 5 (thorough) after "
               "boot, completed to the end of the build; for every history whose build ended successfully: the start-up "
               "functions and the scheduler's dispatch pop no job and change no stored table")
def rebuild_is_a_noop(tier, seed):
    import concurrent.futures
    import multiprocessing

    depth = 3 if tier == "quick" else 5
    histories = [("run",) + ops for length in range(0, depth + 1) for ops in itertools.product(C09_bounded.OPS, repeat=length)]
    size = max(1, len(histories) // 128)
    chunks = [histories[i:i + size] for i in range(0, len(histories), size)]
    results = []
    with concurrent.futures.ProcessPoolExecutor(max_workers=16, mp_context=multiprocessing.get_context("fork")) as ex:
        for res in ex.map(_chunk, chunks):
            results.extend(res)
    failures = [r for r in results if isinstance(r, dict)]
    successful = sum(1 for r in results if r == "ok")
    if successful == 0:
        failures.append(dict(error="no history ended in a successful build: the stand-in checks nothing"))
    return dict(evaluations=len(histories), failures=failures[:20], successful_builds=successful)
