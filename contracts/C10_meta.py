"""The three refreshers of the cached scheduling columns (C10, C11, C12): Scheduler._update_meta_safe / _after / _ready.

pop_next_job's contract sees them as events in a fixed order before the selection.  Here the functions behind the
events are verified for what they execute: which statements (the module constants whose meaning is the subject of the
SQL lemmas in contracts/sched_sql.py), in which order, and that the work is skipped only when no step is flagged
(then no cached value can be stale: cover/_ready, cover/_safe_flags, scan/need_flags state that every change flags).

_update_meta_after is a fixed-point iteration: seed with the flagged attached steps, recompute the worklist (the first
round writes every row), propagate from the rows that changed, until the worklist is empty; the flags are cleared
after the loop.  The loop body is verified for an arbitrary round; termination is not proved."""

from __future__ import annotations

from contracts import C12_limits, common  # noqa: F401
from contracts.trusted import DbStub
from vc import engine, extract, sqlfront
from vc import terms as tm
from vc import types as ty
from vc.engine import LoopSpec
from vc.sym import B, I, cur

schedmod = extract.import_module("stepup/core/scheduler.py")
Scheduler = schedmod.Scheduler
SCHED = "stepup/core/scheduler.py"
K = sqlfront.match_key


def const(name):
    return K(extract.module_constant(SCHED, name))


def _sched(args):
    db = DbStub("db", [("SELECT EXISTS ( SELECT 1 FROM step WHERE", ty.TupleOf(ty.Bool)),
                       ("SELECT COUNT ( * ) FROM check_after", ty.TupleOf(ty.Int)),
                       ("WITH cte AS", ty.TupleOf(ty.Int))])
    s = ty.ObjOf(Scheduler, dict(), name="Scheduler").fresh("self")
    s._fields["db"] = db
    return s


def _stmts(trace):
    return [e for e in trace if e.kind in ("sql", "sql.many")]


def _asked(trace, column):
    """The first statement asks whether a step has the flag set; returns (ok, answer term)."""
    st = _stmts(trace)
    rows = [e for e in trace if e.kind == "sql.fetchone"]
    ok = bool(st) and K(st[0].sql) == K(f"SELECT EXISTS(SELECT 1 FROM step WHERE {column})") and len(rows) >= 1
    return ok


def _clears(e, column):
    return e.kind == "sql" and K(e.sql) == K(f"UPDATE step SET {column} = 0 WHERE {column}")


def _ready_finish(c, outcome, args, old):
    if outcome[0] != "return":
        return
    st = _stmts(c.trace)
    c.prove("asks_whether_a_step_is_flagged", tm.mk_bool(_asked(c.trace, "_check_ready")), kind="sql")
    rest = [K(e.sql) for e in st[1:]]
    c.prove("nothing_or_the_recomputation", tm.mk_bool(rest in ([], [const("RECOMPUTE_READY")])), kind="sql", detail=str(rest))
    _work_iff_flagged(c, bool(rest))


def _work_iff_flagged(c, worked):
    """The work is skipped exactly on the path where the EXISTS row says that no step is flagged."""
    rows = [e for e in c.trace if e.kind == "sql.fetchone"]
    row = getattr(rows[0], "payload_row", None) if rows else None
    if row is None:
        c.prove("work_iff_flagged", tm.FALSE, kind="post", detail="no row read")
        return
    c.prove("work_iff_flagged", tm.Iff(tm.mk_bool(worked), B(row[0])), kind="post")


def _safe_finish(c, outcome, args, old):
    if outcome[0] != "return":
        return
    st = _stmts(c.trace)
    c.prove("asks_whether_a_step_is_flagged", tm.mk_bool(_asked(c.trace, "_check_safe")), kind="sql")
    rest = [K(e.sql) for e in st[1:]]
    want = [const("EMPTY_SAFE_UPDATE"), const("FILL_SAFE_UPDATE"), const("APPLY_SAFE_UPDATE"),
            K("UPDATE step SET _check_safe = 0 WHERE _check_safe")]
    c.prove("nothing_or_empty_fill_apply_clear", tm.mk_bool(rest in ([], want)), kind="sql", detail=str(rest))
    _work_iff_flagged(c, bool(rest))


def _after_round(e):
    """One round: recompute the worklist (with the round's `first`), remember what changed, propagate from it."""
    st = [ev for ev in e.iter_trace if ev.kind in ("sql", "sql.many")]
    keys = [K(ev.sql) for ev in st]
    want = [const("UPDATE_CHECK_AFTER"), const("EMPTY_CHECK_AFTER"), const("EMPTY_CHANGED_AFTER"),
            const("INSERT_CHANGED_AFTER"), const("PROPAGATE_CHECK_AFTER")]
    if keys != want:
        return False
    a = st[0].args
    first_bound = isinstance(a, dict) and set(a) == {"first"}
    return first_bound and st[3].kind == "sql.many"


def _after_finish(c, outcome, args, old):
    if outcome[0] != "return":
        return
    st = _stmts(c.trace)
    c.prove("asks_whether_a_step_is_flagged", tm.mk_bool(_asked(c.trace, "_check_after")), kind="sql")
    rest = [K(e.sql) for e in st[1:]]
    _work_iff_flagged(c, bool(rest))
    if not rest:
        return
    head = [const("EMPTY_CHECK_AFTER"), const("SEED_CHECK_AFTER"), const("COUNT_CHECK_AFTER")]
    c.prove("seeds_the_worklist_first", tm.mk_bool(rest[:3] == head), kind="sql", detail=str(rest[:3]))
    c.prove("flags_cleared_after_the_last_round", tm.mk_bool(_clears(st[-1], "_check_after")), kind="sql", detail=str(rest[-1:]))


def _upgrade(name, **fields):
    con = engine.REGISTRY[f"{SCHED}::Scheduler.{name}"]
    con.verify = True
    con.props = ["C10", "C11", "C12"]
    con.note = ""
    con.args = dict(self=_sched)
    for k, v in fields.items():
        setattr(con, k, v)


_upgrade("_update_meta_ready", finish=_ready_finish)
_upgrade("_update_meta_safe", finish=_safe_finish)
_upgrade("_update_meta_after", finish=_after_finish,
         loops={0: LoopSpec(step_post=_after_round, locals=dict(ncheck=ty.Int, first=ty.Bool))})


from vc.report import structural  # noqa: E402


@structural("C10/scan/first_round_writes_every_row", props=["C10", "C11"],
            note="_update_meta_after: `first` is True when the loop is entered, is what the recomputation statement is bound "
                 "to, and is False from the end of the first round on (the loop contract verifies an arbitrary round, in "
                 "which `first` is arbitrary; this is the part about *which* round)")
def first_round():
    import ast

    _, fn = extract.find_def(SCHED, "Scheduler._update_meta_after")
    loops = [n for n in fn.body if isinstance(n, ast.While)]
    out = []
    ok = len(loops) == 1
    if ok:
        w = loops[0]
        before = fn.body[:fn.body.index(w)]
        sets_before = [ast.unparse(n) for n in before if isinstance(n, ast.Assign) and ast.unparse(n.targets[0]) == "first"]
        sets_in = [n for n in ast.walk(w) if isinstance(n, ast.Assign) and ast.unparse(n.targets[0]) == "first"]
        bound = [ast.unparse(c.args[1]) for c in ast.walk(w) if isinstance(c, ast.Call) and len(c.args) == 2
                 and ast.unparse(c.args[0]) == "UPDATE_CHECK_AFTER"]
        ok = (sets_before == ["first = True"] and len(sets_in) == 1 and sets_in[0] is w.body[-1]
              and ast.unparse(sets_in[0]) == "first = False" and bound == ["{'first': first}"])
        detail = f"before: {sets_before}; in loop: {[ast.unparse(n) for n in sets_in]}; bound: {bound}"
    else:
        detail = f"{len(loops)} loops"
    out.append(("scan/first_round_writes_every_row/first_is_true_exactly_in_the_first_round", ok, detail))
    return out
