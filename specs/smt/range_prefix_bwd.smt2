; C18 range lemma, direction "prefix implies range": witnesses k1 = |q|+1 for le(QS, L) and k2 = |q| for lt(L, Q0).
(set-logic ALL)
(declare-fun Q () (Array Int Int)) (declare-fun nq () Int)
(declare-fun QS () (Array Int Int)) (declare-fun Q0 () (Array Int Int))
(declare-fun L () (Array Int Int)) (declare-fun nl () Int)
(declare-fun j1 () Int) (declare-fun j2 () Int)
(assert (>= nq 0)) (assert (>= nl 0))
(assert (forall ((i Int)) (=> (and (<= 0 i) (< i nq)) (and (= (select QS i) (select Q i)) (= (select Q0 i) (select Q i))))))
(assert (= (select QS nq) 47)) (assert (= (select Q0 nq) 48))
; hypothesis: QS is a prefix of L
(assert (>= nl (+ nq 1)))
(assert (forall ((i Int)) (=> (and (<= 0 i) (< i (+ nq 1))) (= (select L i) (select QS i)))))
; GOAL
; negated goal: not (le(QS,L) with k1 = nq+1  and  lt(L,Q0) with k2 = nq)
(assert (not (and
   ; le with k1 = nq+1: agreement on [0, nq+1) and k1 = |QS| <= |L|
   (=> (and (<= 0 j1) (< j1 (+ nq 1))) (= (select QS j1) (select L j1)))
   (<= (+ nq 1) nl)
   ; lt with k2 = nq: agreement on [0, nq) and L[nq] < Q0[nq]
   (=> (and (<= 0 j2) (< j2 nq)) (= (select L j2) (select Q0 j2)))
   (< nq nl) (< nq (+ nq 1)) (< (select L nq) (select Q0 nq)))))
(check-sat)
