; C18 range lemma, direction "range implies prefix", array encoding of strings.
; Strings are (Array Int Int) of code points with a length; lexicographic order is
;   le(a,b) := exists k. agree(a,b,k) and (k = |a| <= |b|  or  (k < |a| and k < |b| and a[k] < b[k]))
;   lt(a,b) := exists k. agree(a,b,k) and ((k = |a| and k < |b|) or (k < |a| and k < |b| and a[k] < b[k]))
; QS = q ++ "/" (47), Q0 = q ++ "0" (48).  Hypotheses: le(QS, L) with witness k1, lt(L, Q0) with witness k2.
; Goal: QS is a prefix of L.  Negated goal: |L| < |QS| or some j < |QS| with L[j] != QS[j].
(set-logic ALL)
(declare-fun Q () (Array Int Int)) (declare-fun nq () Int)
(declare-fun QS () (Array Int Int)) (declare-fun Q0 () (Array Int Int))
(declare-fun L () (Array Int Int)) (declare-fun nl () Int)
(declare-fun k1 () Int) (declare-fun k2 () Int) (declare-fun j () Int)
(assert (>= nq 0)) (assert (>= nl 0))
(assert (forall ((i Int)) (=> (and (<= 0 i) (< i nq)) (and (= (select QS i) (select Q i)) (= (select Q0 i) (select Q i))))))
(assert (= (select QS nq) 47)) (assert (= (select Q0 nq) 48))
; le(QS, L), witness k1  (|QS| = nq+1)
(assert (and (<= 0 k1) (<= k1 (+ nq 1)) (<= k1 nl)))
(assert (forall ((i Int)) (=> (and (<= 0 i) (< i k1)) (= (select QS i) (select L i)))))
(assert (or (= k1 (+ nq 1)) (and (< k1 (+ nq 1)) (< k1 nl) (< (select QS k1) (select L k1)))))
; lt(L, Q0), witness k2
(assert (and (<= 0 k2) (<= k2 nl) (<= k2 (+ nq 1))))
(assert (forall ((i Int)) (=> (and (<= 0 i) (< i k2)) (= (select L i) (select Q0 i)))))
(assert (or (and (= k2 nl) (< k2 (+ nq 1))) (and (< k2 nl) (< k2 (+ nq 1)) (< (select L k2) (select Q0 k2)))))
; GOAL
(assert (or (< nl (+ nq 1)) (and (<= 0 j) (< j (+ nq 1)) (not (= (select L j) (select QS j))))))
(check-sat)
