
-- Final: Check whether any of the (indirect) sinks matches the source of the new edge.
SELECT EXISTS (SELECT 1 FROM all_sink WHERE current = ?)
