
UPDATE step SET _check_safe = 1, _check_after = 1 FROM (
    WITH RECURSIVE check_with_products(node) AS (
        -- Fairly trivial initialization, will only work if the node is a step.
        SELECT node FROM step WHERE node = ?
        UNION ALL
        -- Recurse over all product steps of the step.
        -- Products that are not steps can be ignored.
        SELECT i FROM node
        JOIN check_with_products ON node.creator = check_with_products.node
        WHERE node.kind = 'step'
    )
    SELECT node FROM check_with_products
) AS cwp WHERE step.node = cwp.node
