
-- Final: Get all (indirect) sinks of a node.
SELECT current FROM all_sink
