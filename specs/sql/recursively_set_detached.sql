
WITH RECURSIVE all_products(current, kind, label) AS (
    -- Initial: Select first generation of products
    SELECT i AS current, kind, label
    FROM node WHERE creator = ?
    UNION
    -- Recursion: Follow creator -> product edges by selecting products of current
    SELECT node.i AS current, node.kind, node.label
    FROM node INNER JOIN all_products ON creator = current
)
UPDATE node SET detached = ? WHERE i IN (SELECT current FROM all_products)
