
WITH RECURSIVE all_products(current) AS (
    -- Initial: Set initial node
    SELECT ? AS current
    UNION
    -- Recursion: Follow creator -> product edges by selecting products of current
    SELECT node.i AS current
    FROM node INNER JOIN all_products ON creator = current
)
SELECT node.i, node.kind, node.label, node.detached
FROM node LEFT JOIN all_products ON node.i = all_products.current
WHERE node.detached = (all_products.current IS NOT NULL)
