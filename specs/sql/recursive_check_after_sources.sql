
UPDATE step SET _check_after = 1 FROM (
    WITH RECURSIVE subtree(node) AS (
        -- Start from the detached step and recurse over its product steps (the detached subtree).
        SELECT node FROM step WHERE node = ?
        UNION ALL
        SELECT i FROM node
        JOIN subtree ON node.creator = subtree.node
        WHERE node.kind = 'step'
    )
    -- Two hops back along dependency edges to the source steps of the subtree.
    SELECT DISTINCT dep2.source AS node
    FROM subtree
    JOIN dependency AS dep1 ON dep1.sink = subtree.node
    JOIN dependency AS dep2 ON dep2.sink = dep1.source
    JOIN node AS source_node ON source_node.i = dep2.source
    WHERE source_node.kind = 'step' AND NOT source_node.detached
) AS sup WHERE step.node = sup.node
