
WITH RECURSIVE all_sink(current) AS (
    -- Initial: Set initial node
    SELECT ? AS current
    UNION
    -- Recursion: Follow edges by selecting sinks of current
    SELECT sink AS current
    FROM dependency INNER JOIN all_sink ON source = current
)
