"""Spec functions for C13: the byte stream that a step hash digests.

Written from the property ("a step's input hash is an injective function of label, shell
flag, sorted input (path, mode, size, digest) tuples, sorted tracked variables with their
values, sorted overrides"), not from the code.  Streams iterate the *maps* in ascending key
order; FILES/ENV/OVR are uninterpreted functions of (map, index) whose defining equations
are supplied as instances where a proof steps through the map.
"""

from __future__ import annotations

from vc import sym, vcrt
from vc import terms as tm
from vc.sym import S, SymBytes, SymMap, SymStr, cur, wrap_bytes
from vc.terms import BOOL, INT, STR

SB = tm.arr(STR, BOOL)
SI = tm.arr(STR, INT)
SS = tm.arr(STR, STR)


def tok(word):
    """Encoding of one word (dual mode)."""
    word = sym.resolve(word)
    if word is None:
        return b"\0\2"
    if isinstance(word, (bytes, bytearray, SymBytes)):
        return b"\0\0" + word
    if isinstance(word, (str, SymStr)):
        return b"\0\1" + word.encode()
    raise TypeError(word)


def tok_str_t(t: tm.T) -> tm.T:
    return tm.Concat(tm.mk_bytes(b"\0\1"), sym.utf8(t))


def tok_bytes_t(t: tm.T) -> tm.T:
    return tm.Concat(tm.mk_bytes(b"\0\0"), t)


def rec_t(path: tm.T, mode: tm.T, size: tm.T, digest: tm.T) -> tm.T:
    return tm.Concat(tok_str_t(path), tok_bytes_t(sym.be_encode(mode, 8)),
                     tok_bytes_t(sym.be_encode(size, 8)), tok_bytes_t(digest))


def _file_arrays(m: SymMap):
    st = m.state
    return [m.has, st["mode"], st["size"], st["digest"]]


def sorted_keys(m: SymMap):
    return vcrt.key_order(m.has, STR, True)


def FILES(m, i: tm.T) -> tm.T:
    if isinstance(m, dict):
        assert not m
        return tm.mk_str("")
    f = cur().decls.fun("FILES", [SB, SI, SI, SS, INT], STR)
    return f(*_file_arrays(m), i)


def FILES_unfold(m: SymMap, i: tm.T):
    """Defining equations of FILES at index i (and at 0)."""
    arr, cnt = sorted_keys(m)
    k = tm.Select(arr, i, STR)
    st = m.state
    step = rec_t(k, tm.Select(st["mode"], k, INT), tm.Select(st["size"], k, INT),
                 tm.Select(st["digest"], k, STR))
    return [
        tm.Eq(FILES(m, tm.mk_int(0)), tm.mk_str("")),
        tm.Implies(tm.And(tm.Le(tm.mk_int(0), i), tm.Lt(i, cnt)),
                   tm.Eq(FILES(m, tm.Add(i, tm.mk_int(1))), tm.Concat(FILES(m, i), step))),
    ]


def FILES_all(m) -> tm.T:
    if isinstance(m, dict):
        assert not m
        return tm.mk_str("")
    _, cnt = sorted_keys(m)
    return FILES(m, cnt)


def ENV(m, i: tm.T) -> tm.T:
    if isinstance(m, dict):
        assert not m
        return tm.mk_str("")
    f = cur().decls.fun("ENV", [SB, SB, SS, INT], STR)
    return f(m.has, m.state[0], m.state[1], i)


def ENV_unfold(m: SymMap, i: tm.T):
    arr, cnt = sorted_keys(m)
    k = tm.Select(arr, i, STR)
    isn = tm.Select(m.state[0], k, BOOL)
    val = tm.Select(m.state[1], k, STR)
    step = tm.Concat(tok_str_t(k), tm.Ite(isn, tm.mk_bytes(b"\0\2"), tok_str_t(val)))
    return [
        tm.Eq(ENV(m, tm.mk_int(0)), tm.mk_str("")),
        tm.Implies(tm.And(tm.Le(tm.mk_int(0), i), tm.Lt(i, cnt)),
                   tm.Eq(ENV(m, tm.Add(i, tm.mk_int(1))), tm.Concat(ENV(m, i), step))),
    ]


def ENV_all(m) -> tm.T:
    if isinstance(m, dict):
        assert not m
        return tm.mk_str("")
    _, cnt = sorted_keys(m)
    return ENV(m, cnt)


def OVR(m, i: tm.T) -> tm.T:
    if isinstance(m, dict):
        assert not m
        return tm.mk_str("")
    f = cur().decls.fun("OVR", [SB, SS, INT], STR)
    return f(m.has, m.state, i)


def ovr_name_tok_t(t: tm.T) -> tm.T:
    """Token of an override *name*: a bytes word holding the UTF-8 name.

    (Until the repair of finding F1 this was a str word, for which the lemma
    C13/lemma/envpair_vs_overrides_keyword has a counter-model.)"""
    return tok_bytes_t(sym.utf8(t))


def OVR_unfold(m: SymMap, i: tm.T):
    arr, cnt = sorted_keys(m)
    k = tm.Select(arr, i, STR)
    val = tm.Select(m.state, k, STR)
    step = tm.Concat(ovr_name_tok_t(k), tok_str_t(val))
    return [
        tm.Eq(OVR(m, tm.mk_int(0)), tm.mk_str("")),
        tm.Implies(tm.And(tm.Le(tm.mk_int(0), i), tm.Lt(i, cnt)),
                   tm.Eq(OVR(m, tm.Add(i, tm.mk_int(1))), tm.Concat(OVR(m, i), step))),
    ]


def OVR_all(m) -> tm.T:
    m = sym.resolve(m) if isinstance(m, sym.SymOpt) else m
    if m is None or isinstance(m, dict):
        assert not m
        return tm.mk_str("")
    _, cnt = sorted_keys(m)
    return OVR(m, cnt)


def shell_byte(shell) -> tm.T:
    return tm.FromCode(sym.I(shell) if not isinstance(shell, bool) else tm.mk_int(int(shell)))


def INP_head(label, shell, inp) -> tm.T:
    """Stream up to and including the `__env_vars__` keyword."""
    return tm.Concat(tok_str_t(S(label)), tok_str_t(tm.mk_str("__shell__")),
                     tok_bytes_t(shell_byte(shell)), tok_str_t(tm.mk_str("__inp_paths__")),
                     FILES_all(inp), tok_str_t(tm.mk_str("__env_vars__")))


def INP_mid(label, shell, inp, env) -> tm.T:
    """Stream up to and including the `__env_overrides__` keyword."""
    return tm.Concat(INP_head(label, shell, inp), ENV_all(env),
                     tok_str_t(tm.mk_str("__env_overrides__")))


def INP(label, shell, inp, env, ovr) -> tm.T:
    return tm.Concat(INP_mid(label, shell, inp, env), OVR_all(ovr))
