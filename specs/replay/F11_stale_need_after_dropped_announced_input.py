"""F11 (C11), fixed by c25b4fa: an optional producer keeps the need implied by an input that its consumer no longer
announces.  Run with PYTHONPATH=/repo /venv/bin/python; exits 1 when the cached need is stale."""
import asyncio
import sys

from stepup.core.enums import FileState, HashUpdateCause, Need
from stepup.core.hash import FileHash
from stepup.core.scheduler import Scheduler
from stepup.core.sqlite3 import DBSession
from stepup.core.step import Step
from stepup.core.workflow import Workflow


def fh(tag):
    return FileHash(tag.encode().ljust(32, b"x"), 0o100644, 1.0, 1, 1)


def needs(wf):
    return {l: Need(n).name for l, n in wf.db.execute(
        "SELECT label, _implied_need FROM step JOIN node ON node.i = step.node WHERE NOT node.detached")}


async def main():
    with DBSession.open(":memory:") as db:
        wf = Workflow(db, dir_queue=asyncio.Queue())
        await wf.initialize()
        sch = Scheduler(wf, db=db)
        await sch.initialize(None)
        async with db:
            wf.declare_static_files(wf.root, ["plan.py"])
            wf.update_file_hashes({"plan.py": fh("plan")}, cause=HashUpdateCause.CONFIRMED)
            wf.define_step(wf.root, "./plan.py", inp_paths=["plan.py"], need=Need.PLAN)
            plan = wf.find(Step, "./plan.py")
            wf.declare_static_files(plan, ["src.txt", "cfg.txt"])
            wf.update_file_hashes({"src.txt": fh("src"), "cfg.txt": fh("cfg")}, cause=HashUpdateCause.CONFIRMED)
            wf.define_step(plan, "opt", inp_paths=["src.txt"], out_paths=["mid.txt"], need=Need.OPTIONAL)
            wf.define_step(plan, "use", inp_paths=["cfg.txt"], out_paths=["res.txt"])
            sch._update_meta_after()
            use = wf.find(Step, "use")
            wf.amend_step(use, inp_paths=["mid.txt"], ran_concurrently=lambda a, b: False)
            sch._update_meta_after()
            amended = needs(wf)
            use.reset_for_rerun()  # the step runs again and does not announce mid.txt this time
            sch._update_meta_after()
            after = needs(wf)
    print("while announced:", amended, " after the rerun dropped it:", after)
    return 1 if after["opt"] != "OPTIONAL" else 0


sys.exit(asyncio.run(main()))
