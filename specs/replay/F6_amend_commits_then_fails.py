"""Finding F6 (C15): DirectorHandler.amend_step commits the amendment in one transaction and then runs
promoted hash jobs in transactions of their own; when a promoted job fails, the request is answered with a
failure although its first part is stored.

Raw request amend_step(job, ["tree/sub"], ...) where tree/ is a static tree and tree/sub is a directory on
disk: the hash job raises HashFailedError (directories cannot be hashed), the request fails, and afterwards
the stored workflow holds a new attached file node tree/sub and a new dynamic dependency of the calling step.
(The client-side amend() rejects directories before sending, so ordinary plans do not reach this.)
Exit status 1 when the defect shows, 0 otherwise.
"""

import asyncio
import contextlib
import os
import sys
import tempfile

from stepup.core.builder import Builder
from stepup.core.director import DirectorHandler
from stepup.core.enums import HashUpdateCause, Need, StepState
from stepup.core.executor import Executor
from stepup.core.file import File
from stepup.core.hash import FileHash
from stepup.core.reporter import ReporterClient
from stepup.core.scheduler import Scheduler
from stepup.core.sqlite3 import DBSession
from stepup.core.step import Step
from stepup.core.workflow import Workflow


async def dump(db):
    out = {}
    async with db:
        names = [n for (n,) in db.execute("SELECT name FROM sqlite_master WHERE type = 'table' ORDER BY name")]
        for n in names:
            out[n] = sorted(db.execute(f"SELECT * FROM {n}").fetchall(), key=repr)
    return out


async def main():
    with tempfile.TemporaryDirectory() as tmp, contextlib.chdir(tmp), DBSession.open(":memory:") as db:
        os.makedirs("tree/sub")
        wf = Workflow(db, dir_queue=asyncio.Queue())
        await wf.initialize()
        scheduler = Scheduler(wf, db=db)
        await scheduler.initialize(None)
        reporter = ReporterClient()
        executor = Executor(scheduler=scheduler, workflow=wf, db=db, reporter=reporter, explain_rerun=False,
                            keep_going=False, live_progress=False, write_joblog=False, infra_env={})
        builder = Builder(njob=1, scheduler=scheduler, workflow=wf, db=db, reporter=reporter, live_progress=False,
                          executor=executor, do_remove_outdated=True)
        async with db:
            wf.declare_static_files(wf.root, ["plan.py"])
            wf.update_file_hashes({"plan.py": FileHash(b"d" * 32, 0o644, 1.0, 1, 1)}, cause=HashUpdateCause.CONFIRMED)
            wf.define_step(wf.root, "./plan.py", inp_paths=["plan.py"], need=Need.PLAN)
            plan = wf.find(Step, "./plan.py")
            wf.register_static_tree(plan, "tree/")
            wf.define_step(plan, "work")
            work = wf.find(Step, "work")
            work.set_state(StepState.RUNNING)
        scheduler.jobs[1] = work
        handler = DirectorHandler(scheduler=scheduler, workflow=wf, db=db, reporter=reporter, executor=executor,
                                  builder=builder, watcher=None, stop_event=asyncio.Event())
        before = await dump(db)
        failed = None
        try:
            await handler.amend_step(1, ["tree/sub"], set(), [], [])
        except BaseException as exc:  # noqa: BLE001
            failed = exc
        after = await dump(db)
        print("request outcome:", repr(failed))
        changed = {n: [r for r in after[n] if r not in before.get(n, [])] for n in after if after[n] != before.get(n)}
        print("rows added by the request:", changed)
        if failed is not None and changed:
            print("DEFECT: the request was answered with a failure, but part of it is stored")
            return 1
        return 0


sys.exit(asyncio.run(main()))
