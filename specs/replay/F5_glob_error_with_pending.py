"""Finding F5 (C19): a glob pattern matches a file that a step builds, yet the failed bit is not set,
because late glob validation only runs when the return code so far is zero.

History, through the Workflow interface only:
  1. plan.py defines the sub-plan `./sub.py`, which has run and defined `producer` with output o.txt;
  2. plan.py is reset for a rerun (its products are detached, recursively), registers glob *.txt with the
     on-disk match o.txt (accepted: the node is detached) and defines `./sub.py` again, unchanged, which is
     recycled together with `producer` and o.txt (no declaration-time glob check runs for them);
  3. plan.py also defines `consumer`, whose input is never declared, so it stays pending.
find_glob_violations() then reports o.txt as an error, but report_unbuilt() returns PENDING without FAILED.
Exit status 1 when the defect shows, 0 otherwise.
"""

import asyncio
import sys

from stepup.core.enums import Need, ReturnCode, StepState
from stepup.core.enums import HashUpdateCause
from stepup.core.file import File
from stepup.core.finalize import report_unbuilt
from stepup.core.hash import FileHash
from stepup.core.nglob import NamedGlob
from stepup.core.scheduler import Scheduler
from stepup.core.sqlite3 import DBSession
from stepup.core.step import Step
from stepup.core.workflow import Workflow


class Reporter:
    async def __call__(self, *a, **k):
        print("   report:", a[0], a[1])


async def main():
    with DBSession.open(":memory:") as db:
        wf = Workflow(db, dir_queue=asyncio.Queue())
        await wf.initialize()
        scheduler = Scheduler(wf, db=db)
        await scheduler.initialize(None)
        async with db:
            root = wf.root
            wf.declare_static_files(root, ["plan.py"])
            wf.update_file_hashes({"plan.py": FileHash(b"d" * 32, 0o644, 1.0, 1, 1)}, cause=HashUpdateCause.CONFIRMED)
            wf.define_step(root, "./plan.py", inp_paths=["plan.py"], need=Need.PLAN)
            plan = wf.find(Step, "./plan.py")
            wf.define_step(plan, "./sub.py", need=Need.PLAN)
            sub = wf.find(Step, "./sub.py")
            wf.define_step(sub, "producer", out_paths=["o.txt"])
            sub.set_state(StepState.SUCCEEDED)
            # the plan runs again
            plan.reset_for_rerun()
            ng = NamedGlob("*.txt")
            ng.extend(["o.txt"])
            wf.register_nglob(plan, ng)
            wf.define_step(plan, "./sub.py", need=Need.PLAN)
            wf.define_step(plan, "consumer", inp_paths=["never_declared.txt"])
            plan.set_state(StepState.SUCCEEDED)
            violations = wf.find_glob_violations()
            scheduler._update_meta_safe()
            scheduler._update_meta_after()
            scheduler._update_meta_ready()
        print("glob violations:", violations, "errors:", [v.is_error for v in violations])
        rc = await report_unbuilt(wf, scheduler, Reporter())
        print("report_unbuilt ->", rc)
        has_error = any(v.is_error for v in violations)
        if has_error and not (rc & ReturnCode.FAILED):
            print("DEFECT: a glob pattern matched a file that a step builds, but the failed bit is not set")
            return 1
        return 0


sys.exit(asyncio.run(main()))
