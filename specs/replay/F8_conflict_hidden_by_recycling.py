"""Finding F8 (C08): a conflict between a new declaration and one held by a detached sub-plan is never rejected
when that sub-plan is revived by full recycling.

The plan is the same in both histories: plan.py declares o.txt static and runs the sub-plan ./sub.py, whose step
`producer` builds o.txt.  These two declarations conflict.
  from scratch : plan.py declares o.txt static, ./sub.py runs and defines `producer` with output o.txt: rejected;
  incremental  : build 1 was made before plan.py declared o.txt static (sub.py and producer succeeded).  In build 2
                 the edited plan.py runs again: its products are detached, static(o.txt) takes over the detached
                 node o.txt from `producer` (Trellis.create), and ./sub.py, unchanged, is fully recycled as
                 SUCCEEDED together with `producer` (Trellis.try_recycle / Node.reattach).  sub.py never runs
                 again, so nothing ever declares `producer`'s output again: the plan is accepted, `producer` is
                 attached without outputs and will overwrite the static file.
Through the Workflow interface only.  Exit status 1 when the two histories disagree, 0 otherwise.
"""

import asyncio
import sys

from stepup.core.enums import HashUpdateCause, Need, StepState
from stepup.core.exceptions import GraphError
from stepup.core.file import File
from stepup.core.hash import FileHash
from stepup.core.sqlite3 import DBSession
from stepup.core.step import Step
from stepup.core.workflow import Workflow


async def boot(db):
    wf = Workflow(db, dir_queue=asyncio.Queue())
    await wf.initialize()
    return wf


def start(wf):
    wf.declare_static_files(wf.root, ["plan.py"])
    wf.update_file_hashes({"plan.py": FileHash(b"d" * 32, 0o644, 1.0, 1, 1)}, cause=HashUpdateCause.CONFIRMED)
    wf.define_step(wf.root, "./plan.py", inp_paths=["plan.py"], need=Need.PLAN)
    return wf.find(Step, "./plan.py")


async def scratch():
    with DBSession.open(":memory:") as db:
        wf = await boot(db)
        async with db:
            plan = start(wf)
            try:
                wf.declare_static_files(plan, ["o.txt"])
                wf.define_step(plan, "./sub.py", need=Need.PLAN)
                sub = wf.find(Step, "./sub.py")
                wf.define_step(sub, "producer", out_paths=["o.txt"])
            except GraphError as e:
                return "rejected: " + str(e).splitlines()[0][:100]
            return "accepted"


async def incremental():
    with DBSession.open(":memory:") as db:
        wf = await boot(db)
        async with db:
            plan = start(wf)
            # build 1: the plan defines the sub-plan, which defines producer > o.txt; everything succeeds
            wf.define_step(plan, "./sub.py", need=Need.PLAN)
            sub = wf.find(Step, "./sub.py")
            wf.define_step(sub, "producer", out_paths=["o.txt"])
            wf.find(Step, "producer").set_state(StepState.SUCCEEDED)
            sub.set_state(StepState.SUCCEEDED)
            plan.set_state(StepState.SUCCEEDED)
            # build 2: plan.py was edited, it now declares o.txt static and still runs ./sub.py (unchanged)
            plan.reset_for_rerun()
            try:
                wf.declare_static_files(plan, ["o.txt"])
                wf.define_step(plan, "./sub.py", need=Need.PLAN)
            except GraphError as e:
                return "rejected: " + str(e).splitlines()[0][:100]
            sub = wf.find(Step, "./sub.py")
            producer = wf.find(Step, "producer")
            print("   ./sub.py  : attached", not sub.is_detached(), "state", sub.get_state().name, "(will not run again)")
            print("   producer  : attached", not producer.is_detached(), "state", producer.get_state().name,
                  "declared outputs", [f.label for f in producer.products(File)])
            o = wf.find(File, "o.txt")
            print("   o.txt     : state", o.get_state().name, "creator", o.creator().label)
            return "accepted"


a = asyncio.run(scratch())
b = asyncio.run(incremental())
print("from scratch:", a)
print("incremental :", b)
if a.startswith("rejected") and b.startswith("accepted"):
    print("C08 violated: the conflicting pair (static o.txt by plan.py, output o.txt of producer) is accepted")
    sys.exit(1)
sys.exit(0)
