#!/usr/bin/env python3
"""F12 (C05): a kill between the two halves of the end-of-build clean-up leaves an orphan on disk for good.

Builder.finalize deletes the detached nodes in one transaction (Workflow.delete_detached; File.before_delete queues the
paths in the in-memory Workflow.to_be_deleted) and only afterwards removes the files (remove_deletable_files).  If the
director is killed between the commit and the removal, the nodes are gone from the database and the queue is lost with
the process: the restarted build knows nothing about the files any more and never removes them.  The uninterrupted
build removes them (C05: "... leaving behind no file that the uninterrupted build would have removed").

History replayed on the real Workflow / Scheduler / Builder.finalize (on-disk database in a temporary directory):
build 1 runs `cp a.txt out.txt`; the plan is edited to drop the step; build 2 reruns the plan and finalizes.
  run A: build 2 is not interrupted                      -> out.txt is removed
  run B: the director is killed right after the commit of delete_detached (remove_deletable_files never runs), the
         database is reopened by a new Workflow / Scheduler / Builder, which builds (nothing to do) and finalizes
                                                         -> out.txt is still there
Exit 1 if run B leaves a file behind that run A removed, 0 otherwise."""

import asyncio
import contextlib
import sys
import tempfile

from path import Path

from stepup.core import builder as builder_mod
from stepup.core.builder import Builder
from stepup.core.enums import HashUpdateCause, Need, ReturnCode
from stepup.core.executor import Executor
from stepup.core.hash import FileHash, StepHash
from stepup.core.reporter import ReporterClient
from stepup.core.scheduler import Scheduler
from stepup.core.sqlite3 import DBSession
from stepup.core.step import Step
from stepup.core.workflow import Workflow

CMD = "cp a.txt out.txt"


class Killed(BaseException):
    pass


def real_hash(path):
    return FileHash.unknown().refreshed(path)


def declare_static(wf, creator, paths):
    unconfirmed = wf.declare_static_files(creator, paths)
    wf.update_file_hashes({p: real_hash(p) for p in unconfirmed}, cause=HashUpdateCause.CONFIRMED)


def make_builder(scheduler, wf):
    executor = Executor(scheduler=None, workflow=None, db=None, reporter=None, explain_rerun=False, keep_going=False,
                        live_progress=False, write_joblog=False, infra_env={})
    return Builder(njob=1, scheduler=scheduler, workflow=wf, db=wf.db, reporter=ReporterClient(), live_progress=False,
                   executor=executor, do_remove_outdated=True)


async def session(db):
    wf = Workflow(db, dir_queue=asyncio.Queue())
    await wf.initialize()
    scheduler = Scheduler(wf, db=wf.db)
    await scheduler.initialize(None)
    return wf, scheduler, make_builder(scheduler, wf)


async def finalize_ok(builder):
    await builder.finalize()
    if builder.returncode & ~ReturnCode.WARNING:
        raise RuntimeError(f"build not successful: {builder.returncode!r}")


async def run(kill):
    with DBSession.open("graph.db") as db:
        wf, scheduler, builder = await session(db)
        Path("plan.py").write_text("# version 1\n")
        Path("a.txt").write_text("a\n")
        async with wf.db:
            declare_static(wf, wf.root, ["plan.py"])
            wf.define_step(wf.root, "./plan.py", inp_paths=["plan.py"], need=Need.PLAN)
            plan = wf.find(Step, "./plan.py")
            declare_static(wf, plan, ["a.txt"])
            wf.define_step(plan, CMD, inp_paths=["a.txt"], out_paths=["out.txt"])
            plan.mark_completed(StepHash(b"plan1", None, b"plan1", None), False)
            Path("a.txt").copy("out.txt")
            wf.update_file_hashes({"out.txt": real_hash("out.txt")}, cause=HashUpdateCause.SUCCEEDED)
            wf.find(Step, CMD).mark_completed(StepHash(b"a1", None, b"a1", None), False)
        await finalize_ok(builder)
        assert Path("out.txt").is_file()
        # the user drops the step from the plan; build 2 reruns the plan
        Path("plan.py").write_text("# version 2: the step is gone\n")
        async with wf.db:
            wf.update_file_hashes({"plan.py": real_hash("plan.py")}, cause=HashUpdateCause.EXTERNAL)
        async with wf.db:
            plan.reset_for_rerun()
            declare_static(wf, plan, ["a.txt"])
            plan.mark_completed(StepHash(b"plan2", None, b"plan2", None), False)
        if not kill:
            await finalize_ok(builder)
            return Path("out.txt").exists()
        # the kill: the process dies where remove_deletable_files would start (the delete transaction is committed)
        real_remove = builder_mod.remove_deletable_files

        async def dies(*a, **k):
            raise Killed

        builder_mod.remove_deletable_files = dies
        try:
            await builder.finalize()
        except Killed:
            pass
        finally:
            builder_mod.remove_deletable_files = real_remove
    # restart on the same database: a new process has none of the in-memory state
    with DBSession.open("graph.db") as db:
        wf, scheduler, builder = await session(db)
        await finalize_ok(builder)  # nothing to build: every step SUCCEEDED; the clean-up runs again
        return Path("out.txt").exists()


def main():
    left = {}
    for kill in (False, True):
        with tempfile.TemporaryDirectory(prefix="f12_") as tmp, contextlib.chdir(tmp):
            left[kill] = asyncio.run(run(kill))
    print("uninterrupted build 2: out.txt", "left behind" if left[False] else "removed")
    print("killed after the delete transaction, then restarted: out.txt", "left behind" if left[True] else "removed")
    if left[True] and not left[False]:
        print("C05 VIOLATED: the restarted build leaves behind a file that the uninterrupted build removed")
        return 1
    return 0


if __name__ == "__main__":
    sys.exit(main())
