"""Finding F3 (C08): a glob pattern that matches a path a step builds is rejected only in one arrival order.

Two declarations conflict: step `make` declares the output out.txt, and the plan registers the glob pattern
*.txt.  Nothing is on disk yet, so the client's scan reports no match for the pattern.
  glob, then output : Workflow._raise_if_glob_match tests the registered pattern's regex against the new
                      product path and rejects the step;
  output, then glob : Workflow.register_nglob only looks up the *reported* matches among the attached product
                      nodes, so the planned output is not seen and the registration is accepted.
Through the Workflow interface only.  Exit status 1 when the two orders disagree, 0 otherwise.
"""

import asyncio
import sys

from stepup.core.enums import HashUpdateCause, Need
from stepup.core.exceptions import GraphError
from stepup.core.hash import FileHash
from stepup.core.nglob import NamedGlob
from stepup.core.sqlite3 import DBSession
from stepup.core.step import Step
from stepup.core.workflow import Workflow


async def run(order):
    with DBSession.open(":memory:") as db:
        wf = Workflow(db, dir_queue=asyncio.Queue())
        await wf.initialize()
        async with db:
            root = wf.root
            wf.declare_static_files(root, ["plan.py"])
            wf.update_file_hashes({"plan.py": FileHash(b"d" * 32, 0o644, 1.0, 1, 1)}, cause=HashUpdateCause.CONFIRMED)
            wf.define_step(root, "./plan.py", inp_paths=["plan.py"], need=Need.PLAN)
            plan = wf.find(Step, "./plan.py")
            ng = NamedGlob("*.txt")  # nothing on disk matches yet: out.txt is not built
            try:
                if order == "output-then-glob":
                    wf.define_step(plan, "make", out_paths=["out.txt"])
                    wf.register_nglob(plan, ng)
                else:
                    wf.register_nglob(plan, ng)
                    wf.define_step(plan, "make", out_paths=["out.txt"])
            except GraphError as e:
                return "rejected: " + str(e).splitlines()[0][:110]
            return "accepted"


a = asyncio.run(run("output-then-glob"))
b = asyncio.run(run("glob-then-output"))
print("output then glob:", a)
print("glob then output:", b)
if a.startswith("accepted") != b.startswith("accepted"):
    print("C08 violated: the same two declarations are accepted in one order and rejected in the other")
    sys.exit(1)
print("both orders agree")
sys.exit(0)
