"""Per-property driver: verify functions, discharge obligations and lemmas, run bounded
stand-ins, apply known findings, write evidence, print verdict lines."""

from __future__ import annotations

import importlib
import json
import os
import sys
import time
import traceback

from . import engine, extract, solve, sym
from . import terms as tm

VERIF = os.path.dirname(os.path.dirname(os.path.abspath(__file__)))
LEMMAS: dict[str, dict] = {}
BOUNDED: dict[str, dict] = {}
STRUCT: dict[str, dict] = {}
REPLAYERS: dict[str, object] = {}


def lemma(name, props, solvers=None, timeout=None, expect="unsat", note="", abstract_strings=False):
    """Register a lemma: fn() runs in a symbolic context and returns the goal (assumptions via
    cur().assume).  expect='sat' marks a cover / must-fail twin."""

    def deco(fn):
        LEMMAS[name] = dict(name=name, fn=fn, props=props, solvers=solvers, timeout=timeout,
                            expect=expect, note=note, abstract_strings=abstract_strings)
        return fn

    return deco


def bounded(name, props, bound):
    """Register a bounded stand-in: fn(tier, seed) -> dict(evaluations=int, failures=[...])."""

    def deco(fn):
        BOUNDED[name] = dict(name=name, fn=fn, props=props, bound=bound)
        return fn

    return deco


def structural(name, props, note=""):
    """Register a structural obligation decided by the generator itself (finite enumeration or a
    syntactic scan of the real source): fn() -> list of (obligation name, ok: bool, detail)."""

    def deco(fn):
        STRUCT[name] = dict(name=name, fn=fn, props=props, note=note)
        return fn

    return deco


def replayer(prefix):
    """Register fn(obligation, model_values) -> dict(reproduced=bool, ...) for obligations whose
    name starts with prefix."""

    def deco(fn):
        REPLAYERS[prefix] = fn
        return fn

    return deco


def model_of(o, names, timeout=30, solvers=("cvc5", "z3")):
    """Values of the named constants in a counter-model of obligation o.

    A requested name matches the declared constant of that name or the first one called
    `<name>!k` (fresh-name suffixes).  Returns dict requested name -> python value."""
    ts = []
    req = {}
    for n in names:
        cand = [k for k in o.decls.order if k == n] or [k for k in o.decls.order if k.startswith(n + "!")]
        if not cand:
            continue
        d = o.decls.funs[cand[0]]
        if "() " not in d:
            continue
        sort = d[d.index("() ") + 3:-1]
        ts.append(tm.T(sort, cand[0]))
        req[cand[0]] = n
    if not ts:
        return {}
    text = o.smt(getvals=ts)
    r = solve.run_query(text, timeout, solvers)
    if r.verdict != "sat":
        return None
    vals = solve.parse_values(r.output)
    return {req.get(k, k): solve.smt_value_to_py(v) for k, v in vals.items()}


def model_terms(o, terms, extra=(), timeout=30, solvers=("z3", "cvc5")):
    """Values of arbitrary terms (given as (sort, SMT text) pairs) in a counter-model of obligation o, optionally with
    extra assertions (SMT text) pinning earlier answers.  Returns dict SMT text -> python value, or None."""
    ts = [tm.T(sort, text) for sort, text in terms]
    text = o.smt(getvals=ts)
    if extra:
        text = text.replace("(check-sat)", "".join(f"(assert {e})\n" for e in extra) + "(check-sat)", 1)
    r = solve.run_query(text, timeout, solvers)
    if r.verdict != "sat":
        return None
    vals = solve.parse_values(r.output)
    return {k: solve.smt_value_to_py(v) for k, v in vals.items()}


def const_name(o, name):
    """The declared constant called `name` or `name!k` in obligation o (fresh-name suffixes), or None."""
    cand = [k for k in o.decls.order if k == name] or [k for k in o.decls.order if k.startswith(name + "!")]
    return cand[0] if cand else None


class FileOb:
    """A lemma given as SMT-LIB text (array encoding).  The assertion after the line `; GOAL` is
    the negated goal; the cover query drops it."""

    def __init__(self, name, text, meta):
        self.name, self.text, self.meta = name, text, meta
        self.result = None

    def smt(self, getvals=()):
        return self.text


def file_lemma(name, relfile, props, solvers=("z3", "cvc5"), note=""):
    LEMMAS[name] = dict(name=name, file=relfile, props=props, solvers=solvers, timeout=None, expect="unsat",
                        note=note, fn=None)


def run_file_lemma(lm):
    with open(os.path.join(VERIF, lm["file"])) as fh:
        text = fh.read()
    if "; GOAL" not in text:
        raise ValueError(f"{lm['file']}: no GOAL marker")
    head, goal = text.split("; GOAL", 1)
    cover = head + "(check-sat)\n"
    return [FileOb(lm["name"], text, dict(lemma=True, solvers=lm["solvers"])),
            FileOb(lm["name"] + "/cover", cover, dict(lemma=True, expect="sat", solvers=lm["solvers"]))]


class LemmaOb:
    def __init__(self, name, hyps, goal, decls, meta):
        self.name, self.hyps, self.goal, self.decls, self.meta = name, hyps, goal, decls, meta

    def smt(self, getvals=()):
        if self.meta.get("expect") in ("sat", "nonunsat"):
            text = tm.query(self.decls, self.hyps + [self.goal], None, getvals=getvals)
        else:
            text = tm.query(self.decls, self.hyps, self.goal, getvals=getvals)
        if self.meta.get("abstract_strings"):
            text = engine.abstract_strings(text)
        return text


def run_lemma(lm) -> list[LemmaOb]:
    out = []
    worklist = [[]]
    k = 0
    while worklist:
        prefix = worklist.pop()
        decls = tm.Decls()
        c = sym.Ctx(prefix, worklist, decls, lm["name"])
        sym.CUR = c
        try:
            goal = lm["fn"]()
            for name, hyps, g, meta in c.obligations:
                out.append(LemmaOb(f"{lm['name']}/{name}/path{k}", hyps, g, decls, dict(meta, lemma=True)))
            if goal is not None:
                out.append(LemmaOb(f"{lm['name']}/path{k}", list(c.pc), sym.B(goal), decls,
                                   dict(lemma=True, expect=lm["expect"], solvers=lm["solvers"],
                                        timeout=lm["timeout"], abstract_strings=lm.get("abstract_strings"))))
        except sym.Infeasible:
            pass
        finally:
            sym.CUR = None
        k += 1
    return out


PROPERTY_MODULES = {}  # filled by contracts/props.py


def load_contracts():
    importlib.import_module("contracts.props")


def _known_findings():
    p = os.path.join(VERIF, "known_findings.json")
    if not os.path.exists(p):
        return []
    with open(p) as fh:
        return json.load(fh)


def _assumed_clauses(con):
    out = []

    def doc(f):
        d = (getattr(f, "__doc__", None) or "").strip().split("\n\n")[0]
        return " ".join(d.split())[:300]

    if con.entry is not None:
        out.append("entry (assumed when the function is verified; not an obligation of its call sites): " + (doc(con.entry) or "see the contract"))
    if con.assume_post is not None:
        out.append("assume_post (exported to callers, not proved): " + (doc(con.assume_post) or "see the contract"))
    if con.may_raise_internal:
        out.append("may_raise_internal: " + ", ".join(e.__name__ for e in con.may_raise_internal) +
                   " may be raised by the function; its callers' contracts do not follow that path")
    return out


def run_property(pid: str, tier: str, seed: int) -> int:
    t_start = time.time()
    missing = solve.solvers_present()
    if missing:
        print(f"CHECKER-ERROR: solver(s) missing: {missing}")
        return 3
    load_contracts()
    from contracts import props, trusted

    info = props.PROPS.get(pid)
    if info is None:
        print(f"CHECKER-ERROR: property {pid} has no check")
        return 3
    timeout = 20 if tier == "quick" else 90
    cons = [c for c in engine.REGISTRY.values() if (pid in c.props or pid in c.partial_props) and c.verify]
    assumed = [c for c in engine.REGISTRY.values() if pid in c.props and not c.verify]
    obligations = []
    fn_reports = []
    failures = []  # (name, reason, detail)
    t_sym = time.time()
    for con in cons:
        try:
            rep = engine.verify_function(con)
        except (Exception, engine.ContractError) as e:  # noqa: BLE001
            traceback.print_exc()
            print(f"CHECKER-ERROR: internal error while executing {con.qual}: {e!r}")
            return 3
        if pid not in con.props:
            frags = con.partial_props[pid]
            rep.obligations = [o for o in rep.obligations if any(f in o.name for f in frags)]
        else:
            # an obligation named in partial_props and stated for those properties only (only_partial) is not counted
            # under the properties the contract is declared for
            only = getattr(con, "only_partial", ())
            if only:
                rep.obligations = [o for o in rep.obligations if not any(f in o.name for f in only)]
        fn_reports.append(rep)
        for f in rep.failures:
            failures.append((f"{pid}/{con.name}/supported", "unsupported", f))
        if not rep.obligations and not rep.failures:
            failures.append((f"{pid}/{con.name}/nonvacuous", "vacuous", "no obligation generated"))
        for o in rep.obligations:
            o.name = f"{pid}/{o.name}"
            obligations.append(o)
    t_sym = time.time() - t_sym
    # every callee contract that a verified function of this property relied on and that is not itself verified is an
    # assumption of this property, whatever properties its declaration names
    for rep in fn_reports:
        for q in rep.callees:
            cc = engine.REGISTRY.get(q)
            if cc is not None and not cc.verify and cc not in assumed:
                assumed.append(cc)
    lemma_obs = []
    for lm in LEMMAS.values():
        if pid in lm["props"]:
            try:
                obs = run_file_lemma(lm) if lm.get("file") else run_lemma(lm)
            except Exception as e:  # noqa: BLE001
                traceback.print_exc()
                print(f"CHECKER-ERROR: internal error in lemma {lm['name']}: {e!r}")
                return 3
            if not obs:
                failures.append((lm["name"], "vacuous", "lemma produced no obligation"))
            lemma_obs += obs
    # covers: one per function (a return path whose hypotheses are satisfiable)
    covers = []
    cover_groups = {}
    for rep in fn_reports:
        cand = [o for o in rep.obligations if o.meta.get("kind") == "post"]
        seen_paths = set()
        group = []
        for o in reversed(cand):
            pth = o.name.rsplit("/", 1)[-1]
            if pth in seen_paths:
                continue
            seen_paths.add(pth)
            group.append(f"cover:{o.name}")
            ctext = tm.query(o.decls, o.hyps, None)
            if o.meta.get("abstract_strings"):
                ctext = engine.abstract_strings(ctext)
            covers.append((f"cover:{o.name}", ctext))
            if len(group) >= 6:
                break
        if group:
            cover_groups[rep.con.name] = group
    queries = [(o.name, o.smt(), o.meta.get("solvers"), o.meta.get("timeout")) for o in obligations + lemma_obs]
    t_solve = time.time()
    cover_queries = [(n, q, None, 5) for n, q in covers]
    results = solve.run_many(queries + cover_queries, timeout=timeout)
    # a query that ran into its wall-clock limit is run once more with a longer limit and few solver processes at a
    # time, so that a verdict does not depend on how busy the machine is (the limits are wall-clock); a query that is
    # still undecided then stays undecided.  At most 24 queries are retried: a change that breaks a contract can leave
    # many obligations undecided, and reporting them must not take long.
    expected = {o.name: o.meta.get("expect", "unsat") for o in obligations + lemma_obs}
    slow = []
    for q in queries:  # (an undecided cover query raises no alarm: only all-unsat covers do)
        r = results[q[0]]
        limit = q[3] if len(q) > 3 and q[3] else timeout
        if expected.get(q[0]) == "nonunsat":
            continue  # an undecided query already meets this expectation
        if r.verdict == "unknown" and r.per_solver and any(sec >= 0.8 * limit for _, sec in r.per_solver.values()):
            slow.append((q[0], q[1], q[2] if len(q) > 2 else None, limit * 5))
    retried = 0
    if slow:
        if os.environ.get("VERIF_LIST"):
            print("  RETRY", [x[0] for x in slow[:24]])
        retried = len(slow[:24])
        results.update(solve.run_many(slow[:24], timeout=timeout * 5, workers=6))
    t_solve = time.time() - t_solve
    by_backend = {}
    discharged = 0
    all_obs = obligations + lemma_obs
    for o in all_obs:
        r = results[o.name]
        o.result = r
        expect = o.meta.get("expect", "unsat")
        if r.verdict == "conflict" or r.verdict == "error":
            print(f"CHECKER-ERROR: solver error on {o.name}: {r.output[:300]}")
            return 3
        if r.verdict == expect or (expect == "nonunsat" and r.verdict in ("sat", "unknown")):
            discharged += 1
            b = by_backend.setdefault(r.solver, dict(count=0, seconds=0.0))
            b["count"] += 1
            b["seconds"] += r.seconds
        else:
            failures.append((o.name, r.verdict, o.meta.get("detail", "")))
    if os.environ.get("VERIF_LIST"):
        for o in all_obs:
            print("  OB", o.name, o.result.verdict, o.result.solver, f"{o.result.seconds:.2f}s")
    vac = 0
    for fname, group in cover_groups.items():
        verdicts = [results[n].verdict for n in group]
        if "sat" in verdicts:
            vac += 1
        elif all(v == "unsat" for v in verdicts):
            failures.append((group[0], "vacuous", f"no return path of {fname} has satisfiable hypotheses "
                                                   f"({len(group)} tried)"))
    # structural obligations
    struct_total = 0
    struct_ok = 0
    struct_samples = []
    for st in STRUCT.values():
        if pid in st["props"]:
            try:
                items = st["fn"]()
            except extract.ExtractError as e:
                items = [(f"{st['name']}/extract", False, str(e))]
            except Exception as e:  # noqa: BLE001
                traceback.print_exc()
                print(f"CHECKER-ERROR: internal error in structural check {st['name']}: {e!r}")
                return 3
            if not items:
                failures.append((st["name"], "vacuous", "structural check produced no obligation"))
            for name, ok, detail in items:
                struct_total += 1
                if ok:
                    struct_ok += 1
                else:
                    failures.append((f"{pid}/{name}", "refuted", detail))
            struct_samples += [n for n, _, _ in items[:2]]
    # bounded stand-ins
    bounded_out = []
    bounded_failures = []
    bounded_crashes = []
    # regression runs over many scratch copies (tools/run_patches.sh) may leave the bounded stand-ins out: they drive the
    # real code with 16 worker processes each; only honoured together with VERIF_OUT, i.e. never for the evidence of /repo
    skip_bounded = bool(os.environ.get("VERIF_SKIP_BOUNDED")) and bool(os.environ.get("VERIF_OUT"))
    for b in BOUNDED.values():
        if pid in b["props"] and not skip_bounded:
            try:
                res = b["fn"](tier, seed)
            except Exception as e:  # noqa: BLE001
                # the stand-in drives the real code: a crash there may be the consequence of a change that the
                # contracts report as a violation -- the deductive verdict is not thrown away for it (see the end)
                traceback.print_exc()
                bounded_crashes.append(f"bounded stand-in {b['name']} crashed: {e!r}")
                continue
            if res.get("checker_failures"):
                print(f"CHECKER-ERROR: an assumed contract is contradicted by the real library in {b['name']}: "
                      f"{json.dumps(res['checker_failures'][:3], default=str)}")
                return 3
            bounded_out.append(dict(name=b["name"], bound=b["bound"], evaluations=res["evaluations"],
                                    failures=len(res["failures"]), note=res.get("note", "")))
            for f in res["failures"]:
                bounded_failures.append((f"{pid}/bounded/{b['name']}", f))
    # known findings
    kf = [k for k in _known_findings() if k.get("property") == pid]
    known_lines = []
    known_obligations = []
    violations = []
    os.makedirs(os.path.join(VERIF, "replay"), exist_ok=True)
    for old in os.listdir(os.path.join(VERIF, "replay")):
        if old.startswith(pid + "__"):
            os.unlink(os.path.join(VERIF, "replay", old))

    def match_known(name, detail_text):
        for k in kf:
            if k.get("status") != "known":
                continue
            m = k.get("match", {})
            if "obligation" in m and not name.startswith(m["obligation"]):
                continue
            if "witness_contains" in m and not all(w in detail_text for w in m["witness_contains"]):
                continue
            return k
        return None

    ob_by_name = {o.name: o for o in all_obs}
    for name, verdict, detail in failures:
        o = ob_by_name.get(name)
        replay = dict(property=pid, obligation=name, verdict=verdict, detail=detail, tier=tier)
        reproduced = False
        witness_text = detail or ""
        if o is not None:
            replay["solver_output"] = o.result.output[:4000] if o.result else ""
            replay["smt_query"] = o.smt()[:200000]
            if verdict in ("sat", "unknown"):
                rp = None
                for pref, fn in REPLAYERS.items():
                    if name.startswith(pref):
                        rp = fn
                        break
                if rp is not None:
                    try:
                        rr = rp(o)
                        replay["replay"] = rr
                        reproduced = bool(rr.get("reproduced"))
                        witness_text += " " + json.dumps(rr.get("witness", ""), default=str)
                    except Exception as e:  # noqa: BLE001
                        replay["replay_error"] = repr(e) + "\n" + traceback.format_exc()
        if o is None and verdict == "refuted":
            for pref, fn in REPLAYERS.items():
                if name.startswith(pref):
                    try:
                        rr = fn(None)
                        if rr:
                            replay["replay"] = rr
                            reproduced = bool(rr.get("reproduced"))
                            witness_text += " " + json.dumps(rr.get("witness", ""), default=str)
                    except Exception as e:  # noqa: BLE001
                        replay["replay_error"] = repr(e) + "\n" + traceback.format_exc()
                    break
        k = match_known(name, witness_text)
        if k is not None:
            line = f"KNOWN-FINDING: property={pid} {k['text']}"
            if line not in known_lines:
                known_lines.append(line)
            known_obligations.append(dict(obligation=name, finding=k.get("id", ""), reproduced=reproduced))
            continue
        violations.append((name, verdict, replay, reproduced))
    for name, f in bounded_failures:
        text = json.dumps(f, default=str)
        k = match_known(name, text)
        if k is not None:
            line = f"KNOWN-FINDING: property={pid} {k['text']}"
            if line not in known_lines:
                known_lines.append(line)
            continue
        violations.append((name, "bounded-counterexample",
                           dict(property=pid, obligation=name, verdict="bounded-counterexample", witness=f,
                                tier=tier), True))
    # evidence
    wall = time.time() - t_start
    # obligations that fail because of a listed known finding are reported separately, not as discharged
    n_ob = len(all_obs) + struct_total - len([k for k in known_obligations if not k["obligation"].startswith(f"{pid}/bounded/")])
    n_dis = discharged + struct_ok
    ev = dict(
        property_id=pid, tier=tier, seed=seed, level="proof",
        coverage=dict(
            obligations=n_ob, discharged=n_dis,
            checker_cmd=f"./check {pid} --tier {tier}",
            trusted_base=sorted(set(trusted.TRUSTED) | set(info.get("trusted", []))),
            functions_under_contract=[
                dict(function=r.con.qual, source_sha=_sha(r.con), paths=r.paths, outcomes=r.outcomes,
                     obligations=len(r.obligations), inlined=sorted(r.inlined),
                     callee_contracts=sorted(r.callees), symexec_s=round(r.seconds, 3),
                     # clauses of this contract that are taken, not proved
                     assumed_clauses=_assumed_clauses(r.con), note=r.con.note or "")
                for r in fn_reports],
            assumed_contracts=[dict(function=c.qual, note=c.note) for c in assumed],
            lemmas=sorted({o.name.rsplit("/path", 1)[0] for o in lemma_obs}),
            structural_obligations=struct_total,
            by_backend={k: dict(count=v["count"], seconds=round(v["seconds"], 3)) for k, v in by_backend.items()},
            solver_wall_s=round(t_solve, 3), symexec_wall_s=round(t_sym, 3),
            vacuity_checks=dict(functions_with_cover=len(cover_groups), satisfiable=vac, queries=len(covers)),
            bounded=bounded_out,
            undecided_clauses=info.get("undecided", []),
            decided_clauses=info.get("decided", []),
            samples=[dict(obligation=o.name, verdict=o.result.verdict, solver=o.result.solver,
                          smt_bytes=len(o.smt())) for o in all_obs[:3]] + struct_samples[:3],
            known_findings=[k["text"] for k in kf if k.get("status") == "known"],
            known_finding_obligations=known_obligations,
            failed=[dict(obligation=n, verdict=v) for n, v, _, _ in violations],
        ),
        assumptions=info.get("assumptions", []) + [
            "pyvc itself (extraction, transformation, proxies, SMT printing) is not verified; it is "
            "guarded by the mutation self-test and cover checks",
            "Python int is mathematical; str is a sequence of code points up to U+2FFFF in SMT-LIB",
        ],
        wall_s=round(wall, 3), violations=len(violations),
    )
    # self-tests (mutants, seeded changes on scratch copies) direct evidence and replay files elsewhere so that the
    # committed evidence always describes /repo itself
    out_root = os.environ.get("VERIF_OUT", VERIF)
    os.makedirs(os.path.join(out_root, "evidence"), exist_ok=True)
    with open(os.path.join(out_root, "evidence", f"{pid}.json"), "w") as fh:
        json.dump(ev, fh, indent=1, default=str)
    for line in known_lines:
        print(line)
    print(f"{pid}: {n_dis}/{n_ob} obligations discharged ({len(cons)} functions, "
          f"{len(lemma_obs)} lemma queries, {struct_total} structural), bounded stand-ins {len(bounded_out)}, "
          f"{wall:.1f}s")
    if bounded_crashes:
        for line in bounded_crashes:
            print(("NOTE: " if violations else "CHECKER-ERROR: ") + line)
        if not violations:
            return 3
    if not violations:
        return 0
    for name, verdict, replay, reproduced in violations:
        fname = os.path.join("replay", name.replace("/", "__").replace(":", "_")[:180] + ".json")
        os.makedirs(os.path.join(out_root, "replay"), exist_ok=True)
        with open(os.path.join(out_root, fname), "w") as fh:
            json.dump(replay, fh, indent=1, default=str)
        print(f"FAILED-OBLIGATION {name} {verdict}")
        tail = "" if reproduced else " no-failing-input-found"
        print(f"VIOLATION property={pid} replay={fname}{tail}")
    return 1


def _sha(con):
    try:
        return extract.source_hash(con.relpath, con.name)
    except extract.ExtractError:
        return "missing"


def main(argv):
    import argparse

    ap = argparse.ArgumentParser()
    ap.add_argument("pid")
    ap.add_argument("rest", nargs="*")
    ap.add_argument("--tier", default=os.environ.get("VERIF_TIER", "quick"))
    a = ap.parse_args(argv)
    seed = int(os.environ.get("VERIF_SEED", "0") or 0)
    if a.pid == "replay":
        return replay_file(a.rest[0])
    tier = a.tier if a.tier in ("quick", "thorough") else "quick"
    try:
        return run_property(a.pid, tier, seed)
    except Exception as e:  # noqa: BLE001
        traceback.print_exc()
        print(f"CHECKER-ERROR: {e!r}")
        return 3


def replay_file(path):
    with open(path) as fh:
        d = json.load(fh)
    print(json.dumps({k: v for k, v in d.items() if k != "smt_query"}, indent=1)[:6000])
    rp = d.get("replay") or {}
    cmd = rp.get("python")
    if cmd:
        import subprocess

        print("--- re-running the witness against the real code")
        r = subprocess.run(["/venv/bin/python", "-c", cmd], cwd=extract.REPO, capture_output=True, text=True)
        print(r.stdout + r.stderr)
        return 1 if r.returncode != 0 else 0
    return 0


if __name__ == "__main__":
    sys.exit(main(sys.argv[1:]))
