"""Sort specifications used in contracts: how to make a fresh symbolic value of a Python type,
how to store such values in SMT arrays (for maps and sequences), and how to concretise
them from a solver model for replay."""

from __future__ import annotations

from . import sym
from . import terms as tm
from .sym import cur
from .terms import BOOL, INT, STR, T


class Spec:
    scalar_sort = None  # SMT sort when the value is one term

    def fresh(self, name):
        raise NotImplementedError

    # array-of-values representation (keys of sort ksort)
    def arr_fresh(self, name, ksort):
        return cur().fresh(name, tm.arr(ksort, self.scalar_sort))

    def arr_select(self, state, kt):
        return self.wrap(tm.Select(state, kt, self.scalar_sort))

    def arr_store(self, state, kt, value):
        return tm.Store(state, kt, self.term(value))

    def wrap(self, t):
        raise NotImplementedError

    def term(self, v) -> T:
        raise NotImplementedError

    def eq_states(self, a, b, ksort):
        return tm.Eq(a, b)

    def terms_of(self, v):
        """Scalar terms that determine v (for model extraction)."""
        return [self.term(v)]


class _Int(Spec):
    scalar_sort = INT

    def fresh(self, name):
        return sym.SymInt(cur().fresh(name, INT))

    def wrap(self, t):
        return sym.wrap_int(t)

    def term(self, v):
        return sym.I(v)


class _Nat(_Int):
    def fresh(self, name):
        v = _Int.fresh(self, name)
        cur().pc.append(tm.Ge(v.t, tm.mk_int(0)))
        return v


class _Bool(Spec):
    scalar_sort = BOOL

    def fresh(self, name):
        return sym.SymBool(cur().fresh(name, BOOL))

    def wrap(self, t):
        return sym.wrap_bool(t)

    def term(self, v):
        return sym.B(v)


class _Str(Spec):
    scalar_sort = STR

    def fresh(self, name):
        return sym.SymStr(cur().fresh(name, STR))

    def wrap(self, t):
        return sym.wrap_str(t)

    def term(self, v):
        return sym.S(v)


class _Bytes(Spec):
    scalar_sort = STR

    def fresh(self, name):
        return sym.SymBytes(cur().fresh(name, STR))

    def wrap(self, t):
        return sym.wrap_bytes(t)

    def term(self, v):
        return sym.S(v)


class _None(Spec):
    def fresh(self, name):
        return None

    def arr_fresh(self, name, ksort):
        return None

    def arr_select(self, state, kt):
        return None

    def arr_store(self, state, kt, value):
        return None

    def terms_of(self, v):
        return []


Int = _Int()
Nat = _Nat()
Bool = _Bool()
Str = _Str()
Bytes = _Bytes()
NoneT = _None()


class Opaque(Spec):
    """Values of an uninterpreted sort; only equality is interpreted (float, handles)."""

    def __init__(self, sortname):
        self.scalar_sort = sortname

    def fresh(self, name):
        c = cur()
        c.decls.sort(self.scalar_sort)
        return sym.SymOpaque(c.fresh(name, self.scalar_sort))

    def arr_fresh(self, name, ksort):
        cur().decls.sort(self.scalar_sort)
        return Spec.arr_fresh(self, name, ksort)

    def wrap(self, t):
        return sym.SymOpaque(t)

    def term(self, v):
        if isinstance(v, sym.SymOpaque):
            return v.t
        raise sym.Unsupported(f"cannot turn {v!r} into a value of sort {self.scalar_sort}")


Float = Opaque("Float")


class EnumOf(Spec):
    scalar_sort = INT

    def __init__(self, cls, members=None):
        self.cls = cls
        self.members = list(members) if members is not None else list(cls)

    def _dom(self, t):
        return tm.Or(*[tm.Eq(t, tm.mk_int(int(m.value))) for m in self.members])

    def fresh(self, name):
        c = cur()
        t = c.fresh(name, INT)
        c.pc.append(self._dom(t))
        return sym.SymEnum(self.cls, t)

    def wrap(self, t):
        return sym.wrap_enum(self.cls, t)

    def term(self, v):
        if isinstance(v, sym.SymEnum):
            return v.t
        return tm.mk_int(int(v.value if hasattr(v, "value") else v))

    def arr_select(self, state, kt):
        t = tm.Select(state, kt, INT)
        cur().pc.append(self._dom(t))
        return self.wrap(t)


class FlagOf(Spec):
    def __init__(self, cls):
        self.cls = cls

    def fresh(self, name):
        return sym.SymFlag.fresh(self.cls, name)


class Opt(Spec):
    def __init__(self, inner: Spec):
        self.inner = inner

    def fresh(self, name):
        c = cur()
        isn = c.fresh(name + ".isnone", BOOL)
        return sym.SymOpt(isn, self.inner.fresh(name))

    def arr_fresh(self, name, ksort):
        return (cur().fresh(name + ".isnone", tm.arr(ksort, BOOL)), self.inner.arr_fresh(name, ksort))

    def arr_select(self, state, kt):
        isn = tm.Select(state[0], kt, BOOL)
        if isn.is_lit:
            return None if tm.litval(isn) else self.inner.arr_select(state[1], kt)
        return sym.SymOpt(isn, self.inner.arr_select(state[1], kt))

    def arr_store(self, state, kt, value):
        if value is None:
            return (tm.Store(state[0], kt, tm.TRUE), state[1])
        if isinstance(value, sym.SymOpt):
            return (tm.Store(state[0], kt, value.isnone), self.inner.arr_store(state[1], kt, value.payload))
        return (tm.Store(state[0], kt, tm.FALSE), self.inner.arr_store(state[1], kt, value))

    def eq_states(self, a, b, ksort):
        raise sym.Unsupported("state equality of optional arrays")

    def terms_of(self, v):
        if v is None:
            return []
        if isinstance(v, sym.SymOpt):
            return [v.isnone] + self.inner.terms_of(v.payload)
        return self.inner.terms_of(v)


class OneOf(Spec):
    """A parameter that is one of several types: the variants are separate paths."""

    def __init__(self, *variants: Spec):
        self.variants = variants

    def fresh(self, name):
        c = cur()
        for k, v in enumerate(self.variants[:-1]):
            tag = c.fresh(f"{name}.is{k}", BOOL)
            if c.fork(tag):
                return v.fresh(name)
        return self.variants[-1].fresh(name)


class Other(Spec):
    """A value of a type the function does not expect (for TypeError paths)."""

    class Thing:
        def __repr__(self):
            return "<value of an unexpected type>"

    def fresh(self, name):
        return Other.Thing()


class Rec(Spec):
    """An attrs value object: fields and the subset that takes part in `==`."""

    def __init__(self, cls, fields: dict[str, Spec], eq=None, frozen=True, invariant=None, name=None):
        self.cls = cls
        self.fields = fields
        self.eq = tuple(eq) if eq is not None else tuple(fields)
        self.frozen = frozen
        self.invariant = invariant
        self.name = name or getattr(cls, "__name__", "rec")

    def make(self, values: dict):
        return sym.SymObj(self.cls, values, name=self.name, frozen=self.frozen, eq_fields=self.eq)

    def fresh(self, name):
        o = self.make({f: s.fresh(f"{name}.{f}") for f, s in self.fields.items()})
        if self.invariant is not None:
            cur().assume(self.invariant(o))
        return o

    def arr_fresh(self, name, ksort):
        return {f: s.arr_fresh(f"{name}.{f}", ksort) for f, s in self.fields.items()}

    def arr_select(self, state, kt):
        return self.make({f: s.arr_select(state[f], kt) for f, s in self.fields.items()})

    def arr_store(self, state, kt, value):
        return {f: s.arr_store(state[f], kt, value._fields[f]) for f, s in self.fields.items()}

    def terms_of(self, v):
        out = []
        for f, s in self.fields.items():
            out += s.terms_of(v._fields[f])
        return out


class ObjOf(Spec):
    """A mutable object with identity."""

    def __init__(self, cls, fields: dict[str, Spec], name=None):
        self.cls = cls
        self.fields = fields
        self.name = name or getattr(cls, "__name__", "obj")

    def fresh(self, name):
        return sym.SymObj(self.cls, {f: s.fresh(f"{name}.{f}") for f, s in self.fields.items()},
                          name=self.name)


class MapOf(Spec):
    def __init__(self, key: Spec, val: Spec):
        self.key = key
        self.val = val

    def fresh(self, name):
        c = cur()
        ks = self.key.scalar_sort
        has = c.fresh(name + ".has", tm.arr(ks, BOOL))
        m = sym.SymMap(ks, has, self.val.arr_select, self.val.arr_store, self.key.wrap, self.key.term,
                       name=name)
        m.state = self.val.arr_fresh(name + ".val", ks)
        m.spec = self
        m.value_invariant = getattr(self.val, "invariant", None)
        return m

    def empty(self, name="dict"):
        c = cur()
        ks = self.key.scalar_sort
        has = tm.ConstArray(tm.arr(ks, BOOL), tm.FALSE)
        m = sym.SymMap(ks, has, self.val.arr_select, self.val.arr_store, self.key.wrap, self.key.term,
                       name=name)
        m.state = self.val.arr_fresh(c.fresh_name(name + ".val0"), ks)
        m.spec = self
        return m


class SetOf(Spec):
    def __init__(self, key: Spec, invariant=None):
        self.key = key
        self.invariant = invariant  # holds for every element of a set received as input

    def fresh(self, name):
        c = cur()
        ks = self.key.scalar_sort
        s = sym.SymSet(ks, c.fresh(name + ".has", tm.arr(ks, BOOL)), self.key.term, self.key.wrap, name)
        s.spec = self
        s.elem_invariant = self.invariant
        return s

    def empty(self, name="set"):
        ks = self.key.scalar_sort
        s = sym.SymSet(ks, tm.ConstArray(tm.arr(ks, BOOL), tm.FALSE), self.key.term, self.key.wrap, name)
        s.spec = self
        return s


class SeqOf(Spec):
    def __init__(self, val: Spec, invariant=None):
        self.val = val
        self.invariant = invariant  # holds for every element of a sequence received as input / result

    def fresh(self, name):
        c = cur()
        n = c.fresh(name + ".len", INT)
        c.pc.append(tm.Ge(n, tm.mk_int(0)))
        state = self.val.arr_fresh(name + ".elem", INT)
        q = sym.SymSeq(None, n, name=name)
        q.spec = self
        q.state = state
        if self.invariant is None:
            q.elem = lambda i: self.val.arr_select(q.state, i)
        else:
            inv = self.invariant

            def elem(i):
                v = self.val.arr_select(q.state, i)
                cur().pc.append(tm.Implies(tm.And(tm.Le(tm.mk_int(0), i), tm.Lt(i, q.length)), sym.B(inv(v))))
                return v

            q.elem = elem
        return q

    def empty(self, name="list"):
        c = cur()
        state = self.val.arr_fresh(c.fresh_name(name + ".elem0"), INT)
        q = sym.SymSeq(None, tm.mk_int(0), name=name)
        q.spec = self
        q.state = state
        q.elem = lambda i: self.val.arr_select(q.state, i)
        sym.mark_born(q)
        return q


class Handle(Spec):
    """Objects with identity that are stored in collections: the value is an integer id and the proxy a
    stub object made from it (futures, tasks)."""

    scalar_sort = INT

    def __init__(self, factory):
        self.factory = factory  # id term -> stub object with attribute `.id` (a T of sort Int)

    def fresh(self, name):
        return self.factory(cur().fresh(name, INT))

    def wrap(self, t):
        return self.factory(t)

    def term(self, v):
        return v.id


class SameRef(Spec):
    """A field that holds one and the same heap object in every stored value (e.g. `graph`).

    Array state is a one-element holder; storing a different object is outside the subset."""

    def fresh(self, name):
        raise sym.Unsupported("SameRef has no fresh value; it is filled by the first store")

    def arr_fresh(self, name, ksort):
        return [None]

    class Unknown:
        def __getattr__(self, name):
            raise sym.Unsupported("use of a reference field whose object is not known (havocked sequence)")

    def arr_select(self, state, kt):
        if state[0] is None:
            return SameRef.Unknown()
        return state[0]

    def arr_store(self, state, kt, value):
        if state[0] is None:
            return [value]
        if state[0] is not value:
            raise sym.Unsupported("two different objects stored in a SameRef field")
        return state

    def terms_of(self, v):
        return []


class Ignored(Spec):
    """A field whose content is not tracked (stored values are forgotten)."""

    class Unknown:
        def __getattr__(self, name):
            if name.startswith("__"):
                raise AttributeError(name)
            raise sym.Unsupported("use of an untracked field value")

    def fresh(self, name):
        return Ignored.Unknown()

    def arr_fresh(self, name, ksort):
        return None

    def arr_select(self, state, kt):
        return Ignored.Unknown()

    def arr_store(self, state, kt, value):
        return None

    def terms_of(self, v):
        return []


class Make(Spec):
    """A stub object built by a callable(name) (file handles, events, stat results)."""

    def __init__(self, factory):
        self.factory = factory

    def fresh(self, name):
        return self.factory(name)

    # as an element of a sequence / map: every selection makes a new unconstrained stub
    def arr_fresh(self, name, ksort):
        return name

    def arr_select(self, state, kt):
        return self.factory(cur().fresh_name(f"{state}.at"))

    def arr_store(self, state, kt, value):
        return state

    def terms_of(self, v):
        return []


class TupleOf(Spec):
    def __init__(self, *items: Spec):
        self.items = items

    def fresh(self, name):
        return tuple(s.fresh(f"{name}.{k}") for k, s in enumerate(self.items))

    def arr_fresh(self, name, ksort):
        return tuple(s.arr_fresh(f"{name}.{k}", ksort) for k, s in enumerate(self.items))

    def arr_select(self, state, kt):
        return tuple(s.arr_select(st, kt) for s, st in zip(self.items, state))

    def arr_store(self, state, kt, value):
        return tuple(s.arr_store(st, kt, v) for s, st, v in zip(self.items, state, value))


CLASS_SPECS: dict = {}  # real class -> Rec spec (filled by contract modules)


def spec_of_value(v):
    """Best-effort spec of an existing value (for havoc)."""
    if isinstance(v, sym.SymOpt):
        inner = spec_of_value(v.payload)
        return Opt(inner) if inner is not None else None
    if isinstance(v, sym.SymObj) and v._frozen and v._cls in CLASS_SPECS:
        return CLASS_SPECS[v._cls]
    if isinstance(v, sym.SymBool) or isinstance(v, bool):
        return Bool
    if isinstance(v, sym.SymEnum):
        return EnumOf(v.cls)
    import enum

    if isinstance(v, enum.IntEnum):
        return EnumOf(type(v))
    if isinstance(v, (sym.SymInt, int)):
        return Int
    if isinstance(v, sym.SymStr) and type(v) is not sym.SymStr:
        kind = type(v)
        return type("StrLike", (_Str,), dict(
            fresh=lambda self, name: kind(cur().fresh(name, STR)), wrap=lambda self, t: kind(t)))()
    if isinstance(v, (sym.SymStr, str)):
        return Str
    if isinstance(v, (sym.SymBytes, bytes)):
        return Bytes
    if isinstance(v, sym.SymOpaque):
        return Opaque(v.t.sort)
    if isinstance(v, sym.SymFlag):
        return FlagOf(v.cls)
    import enum as _e

    if isinstance(v, _e.Flag):
        return FlagOf(type(v))
    if isinstance(v, (sym.SymMap, sym.SymSet, sym.SymSeq)) and hasattr(v, "spec"):
        return v.spec
    return None
